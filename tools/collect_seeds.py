#!/usr/bin/env python3
"""Assemble /verif/seeded/<ID>-<n>/ from the scratch worktrees (/tmp/mut/<ID>/out) and the seedcheck logs.
Keeps a change only when the independent confirmation (tools/confirm_seed.sh) succeeded."""
import glob
import json
import os
import re
import shutil
import sys

ROOT = os.path.dirname(os.path.dirname(os.path.abspath(__file__)))
SEEDED = os.path.join(ROOT, "seeded")
# signatures produced by a harness error that was found and corrected later (DESIGN.md §7.5); they are not evidence of anything
RETRACTED_SIGS = {"C01:passthrough-differs:proxy_connection:reply:missing"}
# delivered changes that were examined and NOT kept, with the reason (see DESIGN.md §7.7)
REJECTED = {
    ("C19", 8): "does not break the property as stated: one call fails on a stale connection, the next recovers",
    ("C15", 12): "does not break the property as stated: when the connection dies of a protocol violation nothing reaches the wire at all, so no response precedes a connect-callback notification; delivery of frames still queued on such a connection is not promised",
}


def parse_results(paths):
    """(id, n) -> list of runs in order; each run = dict(verdict, sigs)"""
    runs = {}
    for p in paths:
        if not os.path.exists(p):
            continue
        cur = None
        for line in open(p, errors="replace"):
            m = re.match(r"=== (C\d+) patch(\d+)\b", line)
            if m:
                cur = (m.group(1), int(m.group(2)))
                runs.setdefault(cur, []).append({"verdict": None, "signatures": [], "check": cur[0]})
                continue
            if cur is None:
                continue
            r = runs[cur][-1]
            m = re.match(r"\(run with the (C\d+) check\)", line)
            if m:
                r["check"] = m.group(1)
                continue
            m = re.match(r"\s+(C\d+:[^ ]+?): ", line)
            if m and m.group(1) in RETRACTED_SIGS:
                r["retracted"] = r.get("retracted", 0) + 1
                continue
            if m and m.group(1) not in r["signatures"]:
                r["signatures"].append(m.group(1))
            m = re.search(r"replay=\S*/(C\d+_[^/]+)\.json", line)
            if m:
                r["verdict"] = "VIOLATED"
            m = re.match(r"C\d+ quick seed=\d+: (\w+)", line)
            if m:
                r["verdict"] = m.group(1)
    for rs in runs.values():
        for r in rs:
            if r["verdict"] == "VIOLATED" and not r["signatures"] and r.get("retracted"):
                r["verdict"] = "HELD"   # only a retracted (harness-error) signature fired
            if r["verdict"] is None and r["signatures"]:
                r["verdict"] = "VIOLATED"   # signature lines are only printed for new violations (log was truncated)
    return runs


def main():
    logs = sorted(glob.glob("/tmp/seed_results*.txt"))
    runs = parse_results(logs)
    kept = 0
    for out in sorted(glob.glob("/tmp/mut/C*/out")):
        pid = out.split("/")[3]
        for n in range(1, 17):
            patch, demo, meta, conf = (os.path.join(out, f"{k}{n}.{e}") for k, e in (("patch", "diff"), ("demo", "rs"), ("meta", "json"), ("confirm", "json")))
            if not all(os.path.exists(x) for x in (patch, demo, meta, conf)):
                continue
            if (pid, n) in REJECTED:
                print(f"{pid}-{n}: NOT kept ({REJECTED[(pid, n)]})")
                continue
            c = json.load(open(conf))
            ok = (c.get("applies") and c.get("build_default_ok") == 1 and c.get("build_features_ok") == 1
                  and c.get("baseline_passed_failed") == "213 0" and c.get("demo_exit_with_patch") not in (0, None)
                  and c.get("demo_exit_without_patch") == 0)
            if not ok:
                print(f"{pid}-{n}: NOT kept (confirmation failed: {c})")
                continue
            try:
                m = json.load(open(meta))
            except Exception:
                m = {}
            d = os.path.join(SEEDED, f"{pid}-{n}")
            os.makedirs(d, exist_ok=True)
            shutil.copy(patch, os.path.join(d, "patch.diff"))
            shutil.copy(demo, os.path.join(d, f"demo_{pid}_{n}.rs"))
            history = [r for r in runs.get((pid, n), []) if r["verdict"] in ("HELD", "VIOLATED")]
            # the logs of the two queue daemons are not in time order; a check only ever gains workloads, so per check the
            # HELD runs (before a strengthening) precede the VIOLATED ones
            history.sort(key=lambda r: (r["check"] != pid, r["verdict"] == "VIOLATED"))
            by_check = {}
            for r in history:
                by_check.setdefault(r["check"], []).append(r)
            catching = [next(x for x in rs if x["verdict"] == "VIOLATED") for rs in by_check.values() if any(x["verdict"] == "VIOLATED" for x in rs)]
            catching.sort(key=lambda r: r["check"] != pid)
            final = catching[0] if catching else (history[-1] if history else {"verdict": "not run", "signatures": [], "check": pid})
            own = by_check.get(final.get("check"), [])
            first_missed = any(x["verdict"] == "HELD" for x in own) and final["verdict"] == "VIOLATED"
            rec = {
                "property": pid,
                "summary": m.get("summary"),
                "breaks": m.get("breaks"),
                "needs_to_manifest": m.get("needs_to_manifest"),
                "demonstration": {
                    "file": f"demo_{pid}_{n}.rs (copy into tests/)",
                    "command": f"cargo test --offline --features websocket,value-stream,verif-hooks --test demo_{pid}_{n} -- --test-threads=1",
                },
                "confirmed_by_me": {
                    "worktree": f"/tmp/mut/{pid} (scratch git worktree of /repo, removed afterwards)",
                    # the commit of /repo the patch was made and confirmed against (later fix: commits may have moved the code)
                    "base_commit": c.get("base") or ("0846219" if n <= 8 else "e16b7bd"),
                    "patch_applies_to_base": True,
                    "builds": "cargo build --offline; cargo build --offline --features websocket,value-stream,verif-hooks: ok",
                    "existing_suite_with_patch": "cargo test --workspace --no-fail-fast --offline: 213 passed, 0 failed",
                    "demo_with_patch_exit": c["demo_exit_with_patch"],
                    "demo_without_patch_exit": c["demo_exit_without_patch"],
                },
                "check_runs": [{"how": f"tools/seedcheck.sh {r['check']} patch.diff quick (scratch copy of /repo + harness, native engines)",
                                "verdict": r["verdict"], "signatures": r["signatures"][:8]} for r in history],
                "detected_by_quick_check": final["verdict"] == "VIOLATED",
                "detected_by": final.get("check") if final["verdict"] == "VIOLATED" else None,
                "first_run_missed_then_check_strengthened": first_missed,
            }
            json.dump(rec, open(os.path.join(d, "meta.json"), "w"), indent=1)
            kept += 1
            print(f"{pid}-{n}: kept; final {final['verdict']} {final['signatures'][:2]}")
    print("kept", kept)


if __name__ == "__main__":
    sys.exit(main())
