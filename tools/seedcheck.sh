#!/bin/bash
# tools/seedcheck.sh <PROP> <patch.diff> [tier]  — run a property's check against a scratch copy of /repo with a
# seeded change applied (development aid; the registered checks always run against /repo itself).
set -u
PROP=$1; PATCH=$2; TIER=${3:-quick}
S=${SEED_SCRATCH:-/tmp/seedchk}
mkdir -p $S
if [ -n "${SEED_REPO_REV:-}" ]; then
  # a patch made against an earlier commit of /repo (before a later fix: commit moved the code it touches)
  rm -rf $S/repo.new && mkdir -p $S/repo.new && git -C /repo archive $SEED_REPO_REV | tar -x -C $S/repo.new && rsync -a --delete --exclude target $S/repo.new/ $S/repo/ && rm -rf $S/repo.new
else
  rsync -a --delete --exclude target --exclude .git /repo/ $S/repo/
fi
( cd $S/repo && patch -p1 -s < "$PATCH" ) || { echo "PATCH DID NOT APPLY"; exit 3; }
# the COMMITTED harness (the working tree may be mid-edit while the queue daemons run)
rm -rf $S/harness.new && mkdir -p $S/harness.new && git -C /verif archive HEAD harness | tar -x -C $S/harness.new && rsync -a --delete --exclude 'target*' $S/harness.new/harness/ $S/harness/ && rm -rf $S/harness.new
sed -i "s#path = \"/repo\"#path = \"$S/repo\"#" $S/harness/Cargo.toml
VERIF_SKIP_ENGINES=${SKIP_ENGINES:-} VERIF_HARNESS=$S/harness VERIF_TARGET=$S/target /verif/check $PROP $TIER 2>&1 | grep -E "^(VIOLATION|KNOWN|INCONCLUSIVE|C[0-9]+ )|^  C[0-9]+:" | cut -c1-400
