#!/usr/bin/env python3
"""Print the markdown table 'seeded change -> which check caught it' from /verif/seeded/*/meta.json
(and replace the block between the SEEDED-TABLE markers in DESIGN.md when called with --write)."""
import glob
import json
import os
import re
import sys

ROOT = os.path.dirname(os.path.dirname(os.path.abspath(__file__)))


def short(s, n):
    s = re.sub(r"\s+", " ", s or "").strip()
    return s if len(s) <= n else s[: n - 1] + "…"


def main():
    rows = []
    for d in sorted(glob.glob(os.path.join(ROOT, "seeded", "C*-*"))):
        m = json.load(open(os.path.join(d, "meta.json")))
        name = os.path.basename(d)
        det = m.get("detected_by")
        sigs = []
        for r in m.get("check_runs", []):
            if r.get("verdict") == "VIOLATED":
                sigs = r.get("signatures", [])
        first_missed = m.get("first_run_missed_then_check_strengthened")
        verdict = f"caught by {det} quick" if det else "NOT caught"
        if first_missed:
            verdict += " (after strengthening; first run missed it)"
        rows.append(f"| {name} | {short(m.get('summary'), 150)} | {short(m.get('needs_to_manifest'), 140)} | {verdict} | {short(', '.join(sigs[:2]), 110)} |")
    head = ("| seeded change | what was changed | needs, to manifest | outcome | first signatures |\n|---|---|---|---|---|\n")
    table = head + "\n".join(rows) + "\n"
    caught = sum(1 for r in rows if "| caught by" in r)
    summary = f"\n{caught} of {len(rows)} kept seeded changes are caught by a quick check; " \
              f"{sum(1 for r in rows if 'after strengthening' in r)} of them only after the check was strengthened.\n"
    if "--write" in sys.argv:
        p = os.path.join(ROOT, "DESIGN.md")
        s = open(p).read()
        a, b = "<!-- SEEDED-TABLE-BEGIN -->", "<!-- SEEDED-TABLE-END -->"
        if a in s and b in s:
            s = s[: s.index(a) + len(a)] + "\n" + table + summary + s[s.index(b):]
            open(p, "w").write(s)
            print("DESIGN.md updated:", len(rows), "rows")
        else:
            print("markers not found")
    else:
        print(table + summary)


if __name__ == "__main__":
    main()
