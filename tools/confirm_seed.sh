#!/bin/bash
# tools/confirm_seed.sh <ID> <n> — independently confirm a seeded change delivered in /tmp/mut/<ID>/out:
# builds, the unedited default suite passes with the patch, the demonstration fails with it and passes without it.
# Writes /tmp/mut/<ID>/out/confirm<n>.json. Works only inside the scratch worktree /tmp/mut/<ID>.
set -u
ID=$1; N=$2
W=/tmp/mut/$ID
cd $W || exit 2
export CARGO_NET_OFFLINE=true
git checkout -q -- . ; rm -f tests/demo_*.rs
git apply out/patch$N.diff || { echo '{"applies": false}' > out/confirm$N.json; exit 1; }
b1=$(cargo build --offline 2>&1 | tail -1 | grep -c Finished)
b2=$(cargo build --offline --features websocket,value-stream,verif-hooks 2>&1 | tail -1 | grep -c Finished)
t=$(cargo test --workspace --no-fail-fast --offline 2>&1 | grep -E "^test result" | awk '{p+=$4; f+=$6} END {print p" "f}')
cp out/demo$N.rs tests/demo_${ID}_$N.rs
timeout 900 cargo test --offline --features websocket,value-stream,verif-hooks --test demo_${ID}_$N -- --test-threads=1 > out/demo${N}_with_patch.log 2>&1; d_with=$?
git checkout -q -- src repe-derive Cargo.toml 2>/dev/null
timeout 900 cargo test --offline --features websocket,value-stream,verif-hooks --test demo_${ID}_$N -- --test-threads=1 > out/demo${N}_without_patch.log 2>&1; d_without=$?
rm -f tests/demo_${ID}_$N.rs
git checkout -q -- .
base=$(git rev-parse --short HEAD)
cat > out/confirm$N.json <<EOF
{"applies": true, "base": "$base", "build_default_ok": $b1, "build_features_ok": $b2, "baseline_passed_failed": "$t",
 "demo_exit_with_patch": $d_with, "demo_exit_without_patch": $d_without,
 "commands": ["git apply patch.diff", "cargo build --offline", "cargo build --offline --features websocket,value-stream,verif-hooks",
   "cargo test --workspace --no-fail-fast --offline", "cargo test --offline --features websocket,value-stream,verif-hooks --test demo -- --test-threads=1 (with patch, then after reverting it)"]}
EOF
cat out/confirm$N.json | tr '\n' ' '; echo
