"""Per-property stage tables for ./check. Engines: release (optimised, overflow checks off),
dev (debug assertions + overflow checks on), miri (interpreter, pure subset), valgrind (memcheck
on the release binary)."""

MIRI = {"engine": "miri", "timeout": 900, "timeout_thorough": 3000}


def native(name="main", **kw):
    d = {"name": name, "engine": "release", "timeout": 600, "timeout_thorough": 3000}
    d.update(kw)
    return d


def both(name="main", **kw):
    """The same workload in both build profiles (debug_assert!/overflow behaviour differs)."""
    return [native(name, **kw), native(name + "-dev", engine="dev", rv_stage=kw.pop("rv_stage", name), **kw)]


def miri(name="miri", scale=0.01, shards=4, shards_thorough=16, **kw):
    d = dict(MIRI)
    # thorough budgets are ~50x the quick ones; under Miri (~10^4 x slower) a fifth of that per shard, on 16 shards
    d.update({"name": name, "scale": scale, "scale_thorough": scale / 5, "shards": shards, "shards_thorough": shards_thorough})
    d.update(kw)
    return d


PROPS = {
    "C01": {
        "level": "exploration",
        "stages": both("inproc") + [miri("miri-inproc", scale=0.002), native("c01net", sub="c03"), native("c01cli")],
    },
    "C02": {
        "level": "exploration",
        "stages": both("inproc") + [native("child"), native("net")] + [miri("miri-inproc", scale=0.001)],
    },
    "C03": {
        "level": "exploration",
        "stages": [native("main", timeout=300, timeout_thorough=1500)],
    },
    "C04": {
        "level": "exploration",
        "stages": [native("main", timeout=300, timeout_thorough=1200), native("ids")],
    },
    "C05": {
        "level": "exploration",
        "stages": [native("main", timeout=300, timeout_thorough=1500),
                   native("main-dev", engine="dev", rv_stage="main", tiers=["thorough"], timeout_thorough=1500), native("proxy")],
    },
    "C06": {
        "level": "fault_enumeration",
        "stages": [native("main", timeout=400, timeout_thorough=1500),
                   native("main-dev", engine="dev", rv_stage="main", tiers=["thorough"], timeout_thorough=1500)],
    },
    "C07": {
        "level": "exploration",
        "stages": both("dispatch") + [miri("miri-dispatch", scale=0.0002)],
    },
    "C08": {
        "level": "exploration",
        "stages": both("inproc") + [miri("miri-inproc", scale=0.01), native("net"),
                   {"name": "net-memcheck", "rv_stage": "net", "engine": "valgrind", "tiers": ["thorough"], "scale": 0.02, "timeout_thorough": 1800}],
    },
    "C09": {
        "level": "exploration",
        "stages": [native("raw"), native("pullers", timeout=300, timeout_thorough=1500),
                   {"name": "raw-memcheck", "rv_stage": "raw", "engine": "valgrind", "tiers": ["thorough"], "scale": 0.02, "timeout_thorough": 1800}],
    },
    "C10": {
        "level": "fault_enumeration",
        "stages": [native("faults"), native("crash"), native("strace"), native("inject")],
    },
    "C11": {
        "level": "exploration",
        "stages": both("model") + [miri("miri-model", scale=0.004)],
    },
    "C12": {
        "level": "exploration",
        "stages": [native("threads", timeout_thorough=4200), miri("miri-virtual-clock", scale=0.008, miriflags="-Zmiri-preemption-rate=0.05") | {"scale_thorough": 0.008}],
    },
    "C13": {
        "level": "exploration",
        "stages": both("model") + [miri("miri-model", scale=0.004)],
    },
    "C14": {
        "level": "exploration",
        "stages": both("model") + [miri("miri-model", scale=0.0007)],
    },
    "C15": {
        "level": "fault_enumeration",
        "stages": [native("main", timeout=300, timeout_thorough=1500)],
    },
    "C16": {
        "level": "exploration",
        "stages": [native("main", timeout=300, timeout_thorough=1500)],
    },
    "C17": {
        "level": "exploration",
        "stages": [native("main", timeout=300, timeout_thorough=1500)],
    },
    "C18": {
        "level": "exploration",
        "stages": both("model") + [miri("miri-model", scale=0.004)],
    },
    "C19": {
        "level": "fault_enumeration",
        "stages": [native("retry", timeout=300, timeout_thorough=1500),
                   native("retry-dev", engine="dev", rv_stage="retry", tiers=["thorough"], timeout_thorough=1500), native("tags")],
    },
}
