#!/usr/bin/env python3
"""Regenerate MANIFEST.json from stages.py and the per-property texts below."""
import json
import os
import subprocess
import sys

ROOT = os.path.dirname(os.path.abspath(__file__))
sys.path.insert(0, ROOT)
from stages import PROPS  # noqa: E402

TEXT = {
    "C01": dict(
        technique="differential runtime monitor: spec-codec oracle vs every emission route and parser; Miri on the in-process part",
        text="Runtime monitoring: every emission route and every parser of the real library is executed on generated messages "
             "(all header fields varied jointly over boundary classes, every body-capacity relation) and compared with an "
             "independent from-the-spec codec anchored on the Glaze interop fixtures; the same workload is interpreted by Miri. "
             "Held on the executions observed, not a proof.",
        note="Trusts the spec codec in harness/src/oracle.rs (anchored on interop/fixtures), rustc, Miri.",
        ref="DESIGN.md §4 C01"),
}

ALL = [f"C{i:02d}" for i in range(1, 20)]


def hook_commits():
    try:
        out = subprocess.run(["git", "-C", "/repo", "log", "--format=%h %s"], capture_output=True, text=True).stdout
        return [l.split()[0] for l in out.splitlines() if "verif-hooks" in l]
    except Exception:
        return []


def main():
    checks = []
    for pid in ALL:
        if pid not in PROPS or pid not in TEXT:
            continue
        t = TEXT[pid]
        checks.append({
            "property_id": pid,
            "quick_cmd": f"./check {pid} quick",
            "thorough_cmd": f"./check {pid} thorough",
            "evidence_file": f"/verif/evidence/{pid}.json",
            "replay_cmd_template": f"./check {pid} --replay {{path}}",
            "engine": "rv",
            "level_claimed": {"category": PROPS[pid]["level"], "text": t["text"], "design_ref": t["ref"]},
            "level_note": t["note"],
            "technique": t["technique"],
        })
    na = [{"property_id": p, "reason": "check not built yet in this revision of /verif (planned: see DESIGN.md §4)"}
          for p in ALL if p not in {c["property_id"] for c in checks}]
    man = {
        "version": 1,
        "setup_cmd": "./check --build",
        "hooks": {
            "guard": "cargo feature `verif-hooks` of crate repe (off by default)",
            "enable": "harness/Cargo.toml depends on repe by path (/repo) with features = [\"verif-hooks\"]; "
                      "probe call sites are `#[cfg(feature = \"verif-hooks\")]` statements",
            "baseline_off_cmd": "cd /repo && cargo test --workspace --no-fail-fast --offline",
            "source_commits": hook_commits(),
            "add_only": True,
        },
        "engines": [{
            "name": "rv",
            "path": "/verif/harness",
            "serves_properties": [c["property_id"] for c in checks],
            "kind_free_text": "Rust harness binary (one subcommand per property stage) driving the real repe crate with generated, "
                              "hostile and fault-injected workloads under oracles; run natively in two build profiles, under Miri "
                              "and under valgrind memcheck by the python driver ./check, which merges stage results into evidence "
                              "and applies known_findings.json",
        }],
        "checks": checks,
        "not_applicable": na,
        "notes": "Exit 0 = held on everything observed (KNOWN-FINDING lines allowed), 1 = VIOLATION line(s), 2 = inconclusive "
                 "(never a violation). VERIF_SEED seeds every generator.",
    }
    if not na:
        del man["not_applicable"]
    json.dump(man, open(os.path.join(ROOT, "MANIFEST.json"), "w"), indent=1)
    print(f"MANIFEST.json: {len(checks)} checks, {len(na)} not_applicable")


if __name__ == "__main__":
    main()
