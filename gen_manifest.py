#!/usr/bin/env python3
"""Regenerate MANIFEST.json from stages.py and the per-property texts below."""
import json
import os
import subprocess
import sys

ROOT = os.path.dirname(os.path.abspath(__file__))
sys.path.insert(0, ROOT)
from stages import PROPS  # noqa: E402

TEXT = {
    "C01": dict(
        technique="differential runtime monitor: spec-codec oracle vs every emission route and parser; Miri on the in-process part",
        text="Runtime monitoring: every emission route and every parser of the real library is executed on generated messages "
             "(all header fields varied jointly over boundary classes, every body-capacity relation) and compared with an "
             "independent from-the-spec codec anchored on the Glaze interop fixtures; the same workload is interpreted by Miri. "
             "Raw capture peers record what Server/AsyncServer/WebSocketServer answer and what every request entry point of the "
             "three clients, the fleets, forward_message and proxy_connection put on the wire; all must equal the spec frame. "
             "Held on the executions observed, not a proof.",
        note="Trusts the spec codec in harness/src/oracle.rs (anchored on interop/fixtures), rustc, Miri.",
        ref="DESIGN.md §4 C01"),
    "C02": dict(
        technique="hostile-input runtime monitor: catch_unwind + child-process abort detection, 128-bit validity-predicate oracle; Miri",
        text="Runtime monitoring: hostile byte strings (random, mutated valid frames, every truncation, the three 64-bit length "
             "fields over boundary classes, wrapping sums) are fed to every slice parser and stream reader of the real library; an "
             "independent 128-bit predicate decides which inputs may parse and what the parse must contain; panics are caught and "
             "aborts are attributed through a child process that announces each case. Found and fixed D1/D2. Held on the inputs run.",
        note="Trusts the predicate in harness/src/oracle.rs; readers only see declared sizes <=16 MiB or >=2^62 as the quantifier says.",
        ref="DESIGN.md §4 C02"),
    "C11": dict(
        technique="reference-model runtime monitor: small-scope enumeration executed on the implementation + random 64-bit histories; Miri",
        text="Runtime monitoring against a sequential reference model of the credit accounting written from the statement: all operation "
             "sequences up to length 6 (quick) / 8 (thorough) over an 11-operation alphabet and three window/capacity settings are executed "
             "on the real TransferControl and every observer is compared after each sequence; random histories up to 200 operations with "
             "hostile 64-bit values check every step. The small scope is enumerated completely, the rest is sampled.",
        note="Trusts the ~60-line model in harness/src/c11_13.rs; chunk lengths bounded by 2^48 as the quantifier says.",
        ref="DESIGN.md §4 C11"),
    "C13": dict(
        technique="reference-model runtime monitor: small-scope enumeration executed on the implementation + random histories; Miri",
        text="Runtime monitoring against a reference ring model (evict-oldest, keep-last, acceptance rule from the statement): all "
             "push/resume/advance/cancel sequences up to length 7 (quick) / 8 (thorough) over a 9-operation alphabet and three capacities "
             "(0, 4, 7 bytes) run on the real TransferControl; ring content, byte-identity, contiguity, capacity bound, resume acceptance, "
             "replay tail, installed peer and single consumption of the pending resume are compared; random long histories are sampled.",
        note="Trusts the model in harness/src/c11_13.rs; pushes abut (the documented precondition of push_replay).",
        ref="DESIGN.md §4 C13"),
    "C14": dict(
        technique="reference-model runtime monitor (plain JSON document + callable log), differential mount replay, linearizability checking of recorded concurrent histories; Miri",
        text="Runtime monitoring: registrations, merges, reads, writes and calls are executed on the real Registry and on a plain "
             "serde_json document model driven by an independent RFC 6901 tokenizer; after every operation the result class/value, the "
             "whole document (so unrelated pointers are covered) and the callable invocation log are compared. All sequences in the small "
             "scope (3 pointers x 3 values, length <= 5) are enumerated, random sequences up to 100 operations are sampled, pointer helpers "
             "round-trip to depth 40, the same requests are replayed through Router::with_registry under five prefixes against a directly "
             "driven twin, and concurrent histories (<= 4 threads x 4 ops) are checked for linearizability by exact search.",
        note="Trusts the document model and tokenizer in harness/src/c14.rs; bare '/' and non-canonical array indices are not generated (unspecified).",
        ref="DESIGN.md §4 C14"),
    "C18": dict(
        technique="reference-model runtime monitor + linearizability checking of recorded concurrent histories (incl. broadcasts with capturing sinks); Miri with data-race detector",
        text="Runtime monitoring: all insert/remove/alias sequences up to length 5 (quick) / 7 (thorough) over 3 peers x 3 keys, a cover of "
             "every model state reachable within 10 operations, and random histories up to 200 operations are executed on the real "
             "PeerRegistry with every observer (get, get_by, key_for, aliases_for, len) compared with a reference model after each checked "
             "operation; broadcasts are checked with capturing sinks (exactly one delivery of path/body/format per present peer, one result "
             "per peer); concurrent histories of up to 4 threads are recorded with a global clock and checked for linearizability by exact search.",
        note="Trusts the model in harness/src/c18.rs; re-inserting a present id is outside the documented precondition and not generated. "
             "The property's 'all sequences up to length 10' is reached only modulo model-state equivalence (state cover), full sequences to length 7.",
        ref="DESIGN.md §4 C18"),
    "C12": dict(
        technique="runtime schedule exploration on real threads with park/wake probes and a state-free spurious-wake test; Miri scheduler with virtual clock",
        text="Runtime monitoring of the mutex/condvar protocol on the implementation: >= 12 000 (quick) / 1 000 000 (thorough) randomized "
             "schedules of one waiter (credit or reconnect, far-future deadline) against 1..3 signalling threads issuing ack, cancel, advance, "
             "resume, send and spurious wakes; every operation and the waiter's park/wake probe events are stamped from one counter. A lost "
             "wake-up is decided logically (condition true in the observable state, waiter still parked after a grace period with a quiet "
             "heartbeat, returns only after a notify_all that changes no state), early and never-returning timeouts by comparing with the "
             "deadline. The same scenarios run under Miri (64 / 2048 seeds) whose virtual clock turns a missed notification into a Timeout at a "
             "10^6 s deadline. The property's exhaustive lock-step model is another technique and is not claimed.",
        note="Sampled schedules, not all interleavings; trusts the H4 probes (recorded under the control's own mutex) and Miri's scheduler.",
        ref="DESIGN.md §4 C12"),
    "C04": dict(
        technique="runtime monitor over recorded call histories: scripted fake server enumerating reply orders, unique tokens, probe-perturbed interleavings",
        text="Runtime monitoring: clones of one real client (blocking, async, WebSocket) issue concurrent calls and batches against a scripted raw "
             "fake server that answers in a chosen order: all 720 permutations for 6 concurrent calls on each client kind and mode, random orders up "
             "to 64 calls, with unknown-id, duplicate and (WebSocket) in-flight-id notify frames injected. Every response carries the unique token of "
             "its request; an offline oracle checks own-response, batch alignment, id distinctness and subscriber-only notify delivery. verif-hooks "
             "probes inject seeded delays and the number of distinct probe-event interleavings observed is reported. The model-checked interleaving "
             "clause of the quantifier is another technique and is not claimed. Further families: caller-chosen ids re-registered inside the "
             "reader's match/deliver window (probe gate), pushes in every subscriber state and with notify bytes other than 1, runs of up to 1000 "
             "unmatched frames, batches cut by connection loss, ids around locally abandoned requests (stage ids). Found and fixed D8. Rounds 7-8: trickled responses (pauses up to 1.4 s inside a frame, frames embedded in bodies, WebSocket continuation fragments), unusual but accepted header fields in interleaved frames, long histories after calls that ended unusually (ids crossing 2^8 and 2^16).",
        note="Interleavings are sampled, not enumerated; trusts the fake server and oracle in harness/src/c04*.rs.",
        ref="DESIGN.md §4 C04"),
    "C07": dict(
        technique="differential runtime monitor across dispatch paths, enumeration of registration orders, independent RFC 6901 tokenizer; Miri",
        text="Runtime monitoring in-process through Router::get: for 12 handler kinds x body-format codes x generated bodies the owned, "
             "context and borrowed entry points and the same route behind 1 and 2 forwarding middlewares must give the same normalised "
             "response and the same handler arguments; all 120 registration orders of {route, registry mount, struct mount, 2 middlewares} "
             "are executed (middleware exactly once per dispatch, exact route beats prefix); prefix/path boundary pairs; a recording RepeStruct "
             "compared with an independent RFC 6901 tokenizer for depths 0..40 including the 16/17 stack/heap boundary.",
        note="Trusts the normalisation (documented query-echo rule) and tokenizer in harness/src/c07.rs; malformed escapes and trailing-slash struct roots not generated.",
        ref="DESIGN.md §4 C07"),
    "C08": dict(
        technique="differential runtime monitor (bulk vs generic codec, streaming vs buffered, address-observing borrowing route); Miri and valgrind memcheck on the unsafe/FFI paths",
        text="Runtime monitoring: for 12 numeric element types and complex pairs, vectors of bit-pattern values (NaN payloads, infinities, "
             "subnormals, integer extremes) of lengths 0..4096 and up to 10^6 are encoded by the bulk and the generic encoder and decoded by both "
             "decoders (compared as bits, empty slice included), streaming writers are compared with buffered frames, and the alignment-padded "
             "form is delivered to a borrowing route at every query length 0..64 and base misalignment 0..7 while the handler records the address "
             "it was given (borrowed iff aligned; padding correct when the frame is aligned); wrong type/format must be rejected. The same over "
             "sockets (Server, AsyncServer x bulk/aligned/generic clients). Miri interprets the in-process part (this is the workload that reaches "
             "beve's unsafe code); memcheck runs the socket part in the thorough tier. Found and fixed D6.",
        note="Miri's -Zmiri-symbolic-alignment-check is not used: it rejects the runtime address check beve legitimately performs (false alarm).",
        ref="DESIGN.md §4 C08"),
    "C03": dict(
        technique="runtime monitor over event logs (exactly-once, ordering) + differential comparison of four dispatch paths with raw protocol peers",
        text="Runtime monitoring: one router holding every built-in handler kind is served at once by Server, AsyncServer, WebSocketServer inline "
             "and off-reader (each plain and behind a recording middleware); raw TCP / WebSocket peers built on the independent codec send generated "
             "pipelined sequences (<= 64 requests mixing versions, query formats, UTF-8/non-UTF-8 queries, known/unknown paths, body formats, "
             "well-formed/malformed bodies, notify 0/1) with unique ids and tokens and then read to end-of-stream, so absent frames are observed. "
             "Oracle layers: structural exactly-once/echo/notify-silence/inline-order from the event log, error classes derived from how each "
             "request was generated, and a differential over (ec, formats, query, body) across the four transports. Rounds 7-8: pipelines against WebSocket servers with outbound queues of 1-8 and peers that write everything before reading (arrival order under back-pressure); paced traffic on read-timeout servers; re-entrant handlers with a bounded-progress verdict.",
        note="Statement leaves the code for an undecodable body (4 or 5) and the precedence of simultaneous reject conditions open: both accepted, pinned only differentially.",
        ref="DESIGN.md §4 C03"),
    "C19": dict(
        technique="fault-sequence enumeration against a scripted fake node driven from the attempt probe; attempt-log oracle; bounded-progress recovery check",
        text="Runtime monitoring with enumerated faults: a raw fake node whose behaviour for the next attempt is set from the verif-hooks attempt "
             "probe executes every outcome sequence of length <= max_attempts+2 over {refused, accepted-then-closed, closed-while-idle (noticed / "
             "racy), silent, malformed, application error, success} for max_attempts 1..2 (quick; 1..3 thorough) on Fleet and AsyncFleet, each "
             "followed by a healthy phase; the attempt log decides the attempt bound, retry-only-after-transport-failure, reported result and "
             "recovery (no wedged node) as bounded progress; all tag subsets over <= 4 nodes decide broadcast addressing. Found and fixed D7.",
        note="Verdicts come from the attempt log; timing only triggers re-runs. Whether a malformed reply is retried is not pinned (both accepted).",
        ref="DESIGN.md §4 C19"),
    "C09": dict(
        technique="runtime monitor with a raw SVS client (byte-equality, end-marker and error-after-end oracle) over a chunk/payload/depth/compression grid; library pullers compared on the same grid; memcheck on the zstd path",
        text="Runtime monitoring: real Server and WebSocketServer with every producer kind (value, typed, complex, reader, writer, failing "
             "producers) are pulled by a raw client that performs open/next/cancel itself over chunk sizes 1 B..1 MiB x payload lengths at every "
             "boundary residue x depth 0..8 x {none, zstd}; the concatenation (decompressed by the harness) must equal independently computed "
             "bytes, exactly one final chunk carries the end marker, empty payloads are one empty final chunk, next after end/cancel/failure is an "
             "error and a failing producer never yields an end marker; the blocking, async and WebSocket library pullers are compared on the same "
             "grid with seeded producer/consumer delays. valgrind memcheck runs a reduced grid in the thorough tier (zstd C code). Round 7: same-thread pull histories (every way an earlier pull can end, then complete pulls judged byte for byte) and 1-1000 (thorough 5000) concurrently open sessions next to slow healthy transfers.",
        note="AsyncServer is excluded (documented as unsupported for SVS). zstd boundary targeting is exact only for incompressible payloads.",
        ref="DESIGN.md §4 C09"),
    "C10": dict(
        technique="fault and crash-point enumeration: scripted fake SVS server, self-SIGKILL at verif-hooks crash points in child processes, strace syscall-order specification and strace fault injection; directory-snapshot oracle",
        text="Runtime monitoring with enumerated faults: a scripted fake SVS server injects producer errors after every chunk, connection cuts "
             "after every response, missing end markers, over-long trailers and tag mismatches against the 7 file pullers and 6 value pullers with "
             "destination absent / existing / existing+stale temp; child processes are killed (SIGKILL) at the n-th hit of every crash point of the "
             "write-flush-sync-rename path; successful and failing pulls are traced with strace and checked against write* -> fsync -> rename "
             "(no write after sync, no rename on failure); strace's inject= provides hook-independent kills. Oracle: destination byte-identical to "
             "its prior state or exactly the complete content, no temp file after an in-process failure, value pulls never Ok on truncation. Rounds 7-8: trailer lengths 0-64 and 'an Ok pull consulted the verifier', zero-run content classes, blocking pulls judged behind a failed pull on the same thread, long stale temps.",
        note="Power-loss durability is out of reach (a process kill keeps the page cache); fsync ordering is decided by the strace specification only. strace unavailable => that stage is inconclusive.",
        ref="DESIGN.md §4 C10"),
    "C05": dict(
        technique="runtime monitor over recorded raw byte streams (independent sequential frame parser, content patterns, conservation) under stalls, write timeouts and cancellation",
        text="Runtime monitoring: scripted raw peers record every byte written by the six endpoints (blocking, async and WebSocket client; blocking, "
             "async and WebSocket server incl. pushed notifies) under up to 32 concurrent writers, payload sizes straddling every buffer size (0 B to "
             "4 MiB quick / 32 MiB thorough), seeded read stalls with small socket buffers, configured write timeouts and calls aborted mid-send; after "
             "every interruption the peer drains and FURTHER traffic is issued. Oracle: the stream must be whole frames plus at most one strict "
             "prefix of one frame with nothing after it, every frame byte-equal to one submitted message (bodies are a function of token and "
             "offset), sends that reported success are whole on the wire, each WebSocket message is exactly one frame and the WebSocket stream itself parses. "
             "Stage proxy: the upstream byte stream of proxy_connection fed with messages that are not exactly one frame. Found and fixed D3, D4, D5. Rounds 7-8: the batch entry points as senders (interrupted item at every position, batches after abandoned sends), blocking *_with_timeout calls as senders against a stalled peer.",
        note="WebSocket streams are observed as messages; client send buffers autotune (fault payloads sized 12-32 MiB for a 4 MiB tcp_wmem).",
        ref="DESIGN.md §4 C05"),
    "C15": dict(
        technique="fault enumeration (exit cause x phase x entry point table) with raw WebSocket peers; offline oracle over a globally sequenced callback/probe/frame log",
        text="Runtime monitoring with enumerated faults: 204 meaningful cells of exit cause (clean close, TCP drop, RST, text frame, corrupt "
             "WebSocket frame, malformed REPE frame, handler panic, connect-callback panic, token cancel, graceful drain, drain-deadline abort) x "
             "phase (idle, inline handler gated, off-reader handler parked, outbound queue full, inside connect callback) x serving entry point "
             "(serve_listener, graceful drain, accept+serve_connection(_with_cancel), adopt_upgraded) plus failed handshakes, each with 1..32 "
             "concurrent connections and bystanders. The oracle checks exactly-once disconnect after connect, no callbacks for failed handshakes, "
             "registry/alias presence windows by sequence number, connect-queued notifies before any response on the wire, and cancellation observed by "
             "parked handlers; liveness is bounded progress (15 s, heartbeat-gated). Rounds 7-8: connections arriving after the embedder's token was cancelled, token-like alias keys up to 70 KB, the cancelled() future polled before the cancel must be woken, late alias calls for departed peers.",
        note="96 cells are meaningless combinations and are skipped with a counted reason. Inline handlers cannot observe a client-side disconnect (reader blocked).",
        ref="DESIGN.md §4 C15"),
    "C16": dict(
        technique="runtime monitor with RAII gauge inside handlers, gated handlers and ordering evidence at a raw WebSocket peer; release orders enumerated for small caps",
        text="Runtime monitoring: WebSocketServer with caps 1..16, default and unlimited; blocking routes of five kinds behind 0..2 middlewares count "
             "themselves in a per-connection gauge and park on gates; a raw peer pipelines up to 4x cap requests/notifies with inline pings, releases "
             "handlers one by one (every outcome assignment x release order for caps <= 3), mixes return/error/panic. Oracle: gauge maximum <= cap; "
             "over-cap requests answered with code 8 and pings answered BEFORE any gate is opened (ordering, not latency); over-cap notifies run no "
             "handler and produce no frame; panic -> code 9 with the request id, connection unaffected; every slot recovered (bounded retries).",
        note="A released handler that never returns is inconclusive (only harness code and the scheduler lie between gate and return).",
        ref="DESIGN.md §4 C16"),
    "C17": dict(
        technique="runtime monitor: size log at raw WebSocket peers over exact boundary sizes on every outbound path; byte-identity oracle for messages within the limit",
        text="Runtime monitoring: limits {1 KiB, 4 KiB, 64 KiB, 1 MiB, none; 16 MiB thorough} x message sizes limit-2..limit+2 (solved exactly from "
             "48 + query + body) and random x seven outbound paths (inline response, off-reader response, handler-pushed notify, registry broadcast, "
             "proxy-forwarded response, client request, client notify, with their body-format variants). Raw peers log every binary message size; "
             "no message above the limit may be observed, oversized responses are replaced by code 9 with the same id, oversized notifies are "
             "dropped and reported, oversized client messages fail locally with MessageTooLarge and nothing is sent, the connection serves a "
             "follow-up call, and messages at or below the limit arrive byte-identical to the spec frame. Rounds 7-8: proxies whose own inbound accept limits differ from the assumed peer limit, request ids at the edges of the range, local refusal of an oversized client message while deliverable sends are parked on a non-reading peer.",
        note="WasmClient is out of scope (wasm32 only).",
        ref="DESIGN.md §4 C17"),
    "C06": dict(
        technique="fault enumeration against scripted fake servers (client kind x fault x in-flight count x timeout mode), timeout/response races forced in both orders through probe gates, task cancellation at probe points; bounded-progress oracle with heartbeat",
        text="Runtime monitoring with enumerated faults: fake TCP/WebSocket servers inject close/RST before and after the request is read, cuts "
             "inside a response at offsets {1, 47, 48, mid-query, mid-body, last-1}, eleven malformed-header kinds held open, and WebSocket-"
             "specific faults, with 0..16 calls in flight, with and without per-call timeouts, on all three clients (710 cells quick, 3621 x3 "
             "thorough). Timeout-vs-response races are forced in five orders with verif-hooks gates and verified from event indices; calling tasks "
             "are aborted at each probe point. Oracle: every in-flight and later call returns an error (or its own token when it legitimately won) "
             "within a 15 s heartbeat-gated window, pending table exactly empty, late responses delivered to nobody, the next call on a healthy "
             "client gets its own token, the notify subscriber sees end-of-stream, no thread panics. Stalled-writer family: the fault arrives while "
             "another task's large send is stalled on a peer that stopped reading and then lingers (found and fixed D9; one recorded known finding K1). "
             "Batch form of the timeout windows with more requests than the worker pool. Rounds 7-8: hostile content (long, non-ASCII at every alignment, not UTF-8) in late / unknown-id / duplicate / pushed frames, malformed headers at the integer extremes, the blocking client's own write timeout as the fault.",
        note="Drain-before-shutdown style reorderings are caught probabilistically (repeated held-lock cells). Cancelling mid-write of a large body is C05's domain.",
        ref="DESIGN.md §4 C06"),
}

ALL = [f"C{i:02d}" for i in range(1, 20)]


def hook_commits():
    try:
        out = subprocess.run(["git", "-C", "/repo", "log", "--format=%h %s"], capture_output=True, text=True).stdout
        return [l.split()[0] for l in out.splitlines() if "verif-hooks" in l]
    except Exception:
        return []


def main():
    checks = []
    for pid in ALL:
        if pid not in PROPS or pid not in TEXT:
            continue
        t = TEXT[pid]
        checks.append({
            "property_id": pid,
            "quick_cmd": f"./check {pid} quick",
            "thorough_cmd": f"./check {pid} thorough",
            "evidence_file": f"/verif/evidence/{pid}.json",
            "replay_cmd_template": f"./check {pid} --replay {{path}}",
            "engine": "rv",
            "level_claimed": {"category": PROPS[pid]["level"], "text": t["text"], "design_ref": t["ref"]},
            "level_note": t["note"],
            "technique": t["technique"],
        })
    na = [{"property_id": p, "reason": "check not built yet in this revision of /verif (planned: see DESIGN.md §4)"}
          for p in ALL if p not in {c["property_id"] for c in checks}]
    man = {
        "version": 1,
        "setup_cmd": "./check --build",
        "hooks": {
            "guard": "cargo feature `verif-hooks` of crate repe (off by default)",
            "enable": "harness/Cargo.toml depends on repe by path (/repo) with features = [\"verif-hooks\"]; "
                      "probe call sites are `#[cfg(feature = \"verif-hooks\")]` statements",
            "baseline_off_cmd": "cd /repo && cargo test --workspace --no-fail-fast --offline",
            "source_commits": hook_commits(),
            "add_only": True,
        },
        "engines": [{
            "name": "rv",
            "path": "/verif/harness",
            "serves_properties": [c["property_id"] for c in checks],
            "kind_free_text": "Rust harness binary (one subcommand per property stage) driving the real repe crate with generated, "
                              "hostile and fault-injected workloads under oracles; run natively in two build profiles, under Miri "
                              "and under valgrind memcheck by the python driver ./check, which merges stage results into evidence "
                              "and applies known_findings.json",
        }],
        "checks": checks,
        "not_applicable": na,
        "notes": "Exit 0 = held on everything observed (KNOWN-FINDING lines allowed), 1 = VIOLATION line(s), 2 = inconclusive "
                 "(never a violation). VERIF_SEED seeds every generator. Known findings and repaired defects: /verif/known_findings.json (status known = suppressed to one KNOWN-FINDING line per entry, matched on exact signature patterns; status fixed = documentation only, suppresses nothing).",
    }
    if not na:
        del man["not_applicable"]
    json.dump(man, open(os.path.join(ROOT, "MANIFEST.json"), "w"), indent=1)
    print(f"MANIFEST.json: {len(checks)} checks, {len(na)} not_applicable")


if __name__ == "__main__":
    main()
