//! C15 helper — the "identity takeover" scenario family (child module of c15.rs).
//!
//! One scenario = one real `WebSocketServer` with a `PeerRegistry` and G independent identity groups running
//! concurrently. A group is a pair or triple of connections that claim the same identity key(s) ("user:<g>", sometimes
//! also "dev:<g>") in the handshake connect hook, each together with 1..3 per-connection keys, attached in a scripted
//! order (identity first / last / in the middle; lexicographically sorted and unsorted lists). The driver serialises
//! the connects of a group (a newer connection takes the identity over while the older one is still registered, or
//! races with the older one's exit), ends older connections by client-side exit causes while newer ones stay, and after
//! every step asks the still-connected members to snapshot the registry from INSIDE their handlers (inline and
//! off-reader): `get`, `aliases_for`, `key_for` of every group member and `get_by` of every key of the group. The same
//! snapshot is taken in the disconnect hooks before (D0) and after (D1) the library's registry removal, in the connect
//! hook, and by the driver at the end.
//!
//! Oracle (offline): the documented alias semantics (a key addresses at most one peer and moves to the last claimant;
//! `remove` purges exactly the departing peer's own aliases) are replayed over the globally sequenced log as a
//! reference model. Mutations happen inside logged windows ([hook start, hook end] for the aliasing connect hook,
//! [D0, D1] for the removal); a snapshot whose interval overlaps a window of its own group is unconstrained, every
//! other snapshot must equal the model exactly. Hook order D0 -> registry remove -> D1 is the documented
//! registration order of `on_peer_disconnect` / `with_peer_registry`.

use super::*;

// ------------------------------------------------------------------ plan

pub(super) struct TkPlan {
    /// ordered alias keys per client index
    scripts: Vec<Vec<String>>,
    group_of: Vec<usize>,
    /// every key used by any member of the group
    group_keys: Vec<Vec<String>>,
    group_members: Vec<Vec<usize>>,
    /// filled by the handshake connect hook right after it allocated the start of its alias window
    idx_peer: Mutex<Vec<Option<u64>>>,
}

impl TkPlan {
    fn peer_of(&self, idx: usize) -> Option<u64> {
        self.idx_peer.lock().unwrap_or_else(|e| e.into_inner()).get(idx).copied().flatten()
    }
    fn idx_of(&self, peer: u64) -> Option<usize> {
        self.idx_peer.lock().unwrap_or_else(|e| e.into_inner()).iter().position(|p| *p == Some(peer))
    }
}

const TK_CAUSES: [Cause; 7] = [Cause::Close, Cause::TcpDrop, Cause::Rst, Cause::Text, Cause::CorruptWs, Cause::MalformedRepe, Cause::InlinePanic];
const CLASS_NAMES: [&str; 6] = ["id-first-unsorted", "id-last-sorted", "id-last-unsorted", "id-first-sorted", "id-middle", "shuffled"];

#[derive(Clone, Copy, Debug)]
enum Step {
    Conn(usize),
    End(usize),
    /// end `.0` while `.1` connects (identity reconnect racing the old connection's exit)
    EndConn(usize, usize),
    /// two older members end concurrently
    End2(usize, usize),
    Probe,
}

fn schedule(shape: TkShape, v: u64) -> (&'static str, Vec<Step>) {
    use Step::*;
    match shape {
        TkShape::Pair => match v % 4 {
            0 | 1 | 2 => ("pair:older-exits-after-takeover", vec![Conn(0), Conn(1), Probe, End(0), Probe]),
            _ => ("pair:takeover-races-older-exit", vec![Conn(0), Probe, EndConn(0, 1), Probe]),
        },
        TkShape::Triple => match v % 6 {
            0 => ("triple:oldest-then-middle", vec![Conn(0), Conn(1), Conn(2), Probe, End(0), Probe, End(1), Probe]),
            1 => ("triple:middle-then-oldest", vec![Conn(0), Conn(1), Conn(2), Probe, End(1), Probe, End(0), Probe]),
            2 => ("triple:both-older-together", vec![Conn(0), Conn(1), Conn(2), Probe, End2(0, 1), Probe]),
            3 => ("triple:chain", vec![Conn(0), Conn(1), Probe, End(0), Probe, Conn(2), Probe, End(1), Probe]),
            4 => ("triple:third-races-oldest-exit", vec![Conn(0), Conn(1), Probe, EndConn(0, 2), Probe, End(1), Probe]),
            _ => ("triple:oldest-exits-between-takeovers", vec![Conn(0), Conn(1), End(0), Conn(2), Probe, End(1), Probe]),
        },
    }
}

fn script_for(r: &mut Rng, class: usize, g: usize, k: usize, shared_dev: bool) -> Vec<String> {
    let user = format!("user:{g}");
    let conn = format!("conn:{g}.{k}");
    let zsess = format!("zsess:{g}.{k}");
    let mut keys = match class {
        0 => vec![user, conn],
        1 => vec![conn, user],
        2 => vec![zsess, user],
        3 => vec![user, zsess],
        4 => vec![zsess, user, conn],
        _ => {
            let mut v = vec![user, conn, zsess, format!("a:{g}.{k}")];
            r.shuffle(&mut v);
            v.truncate(2 + r.usize_below(3));
            if !v.iter().any(|x| x.starts_with("user:")) {
                let at = r.usize_below(v.len() + 1);
                v.insert(at, format!("user:{g}"));
            }
            v
        }
    };
    if shared_dev {
        let at = r.usize_below(keys.len() + 1);
        keys.insert(at, format!("dev:{g}"));
    }
    keys
}

struct Member {
    idx: usize,
    cause: Cause,
    parked: bool,
    seed: u64,
    cli: Option<Cli>,
    peer: Option<u64>,
    ended: bool,
}

struct Group {
    members: Vec<Member>,
    steps: Vec<Step>,
    failed: Vec<&'static str>,
    harness_err: Option<String>,
    tolerated: u64,
}

// ------------------------------------------------------------------ server side

fn snap(sc: &Scn, site: &'static str, about_idx: usize, ctx_peer: Option<u64>) {
    let Some(tk) = &sc.tk else { return };
    // the mapping is published after the alias window of that connection started, so a snapshot that sees it starts
    // (s1 below) after that window's start: it either overlaps the window (unconstrained) or follows it
    let Some(peer) = tk.peer_of(about_idx) else { return };
    let g = tk.group_of[about_idx];
    let s1 = next_seq();
    let id = PeerId(peer);
    let get = sc.reg.get(id).map(|h| h.peer_id().0 == peer).unwrap_or(false);
    let list = sc.reg.aliases_for(id);
    let key_for = sc.reg.key_for(id);
    let by = tk.group_keys[g].iter().map(|k| (k.clone(), sc.reg.get_by(k.as_str()).map(|h| h.peer_id().0))).collect();
    sc.push(Ev::TkSnap { site, peer, idx: about_idx, s1, get, list, key_for, by, ctx_peer });
}

fn snap_group(sc: &Scn, site: &'static str, idx: usize, ctx_peer: Option<u64>) {
    let Some(tk) = &sc.tk else { return };
    let Some(g) = tk.group_of.get(idx) else { return };
    for m in &tk.group_members[*g] {
        snap(sc, site, *m, ctx_peer);
    }
}

fn build_tk_server(sc: &Arc<Scn>, cap: usize) -> WebSocketServer {
    let probe_route = |site: &'static str| {
        let sc = sc.clone();
        move |ctx: &CallContext<'_>, v: Value| {
            let idx = v["c"].as_u64().unwrap_or(u64::MAX) as usize;
            snap_group(&sc, site, idx, Some(ctx_peer(ctx)));
            Ok(v)
        }
    };
    let router = Router::new()
        .with_json_ctx("/tprobe", probe_route("handler-inline"))
        .with_json_ctx_blocking("/btprobe", probe_route("handler-off-reader"))
        .with_json_ctx_blocking("/bpark", {
            let sc = sc.clone();
            move |ctx: &CallContext<'_>, _v: Value| park(&sc, ctx, true)
        })
        .with_json_ctx("/panic", {
            let sc = sc.clone();
            move |ctx: &CallContext<'_>, _v: Value| -> Result<Value, (ErrorCode, String)> {
                sc.push(Ev::PanicNow { peer: ctx_peer(ctx), site: "inline-handler" });
                panic!("c15 scripted handler panic");
            }
        });
    let (s0, sd0, sx, sd1, se) = (sc.clone(), sc.clone(), sc.clone(), sc.clone(), sc.clone());
    WebSocketServer::new(router)
        .with_outbound_capacity(cap)
        .on_peer_connect(move |peer: PeerHandle| {
            s0.push(Ev::TkConnect0 { peer: peer.peer_id().0 });
        })
        .on_peer_disconnect(move |id: PeerId| {
            // D0, the FIRST disconnect hook: release this connection's parked handlers, look, then open the removal window
            sd0.pg.open(id.0);
            if let Some(idx) = sd0.tk.as_ref().and_then(|t| t.idx_of(id.0)) {
                snap_group(&sd0, "disconnect-hook-before-removal", idx, None);
            }
            sd0.push(Ev::TkDisc0 { peer: id.0 });
        })
        .with_peer_registry(sc.reg.clone())
        .on_peer_connect_with_handshake(move |peer: &PeerHandle, hs: &HandshakeContext| {
            let p = peer.peer_id().0;
            let Some(tk) = &sx.tk else { return };
            let client = hs.query().and_then(|q| q.strip_prefix("c=")).and_then(|s| s.parse::<usize>().ok()).unwrap_or(usize::MAX);
            let Some(keys) = tk.scripts.get(client).cloned() else {
                sx.push(Ev::Error { kind: "tk-unknown-client" });
                return;
            };
            let s1 = next_seq();
            tk.idx_peer.lock().unwrap_or_else(|e| e.into_inner())[client] = Some(p);
            let oks: Vec<bool> = keys.iter().map(|k| sx.reg.alias(peer.peer_id(), k.clone())).collect();
            sx.push(Ev::TkAlias { peer: p, idx: client, s1, keys, oks });
            snap_group(&sx, "connect-hook", client, None);
            let _ = peer.send_notify("/hello2", NotifyBody::Json(serde_json::to_vec(&json!({ "peer": p })).unwrap()));
        })
        .on_peer_disconnect(move |id: PeerId| {
            // D1: registered after with_peer_registry, so the library's removal lies between TkDisc0 and TkDisc1
            sd1.push(Ev::TkDisc1 { peer: id.0 });
            if let Some(idx) = sd1.tk.as_ref().and_then(|t| t.idx_of(id.0)) {
                snap_group(&sd1, "disconnect-hook-after-removal", idx, None);
            }
            spin_for(HOOK_SPIN);
        })
        .on_error(move |e: &ConnectionError| {
            se.push(Ev::Error { kind: error_kind(e) });
        })
}

// ------------------------------------------------------------------ driver

fn disc1_seen(sc: &Scn, peer: u64) -> bool {
    sc.count(|e| matches!(e, Ev::TkDisc1 { peer: p } if *p == peer)) > 0
}

async fn connect_member(sc: &Scn, addr: SocketAddr, m: &mut Member) -> Result<(), String> {
    let ws = connect_client(addr, m.idx, "/repe", false).await.map_err(|e| format!("harness: client {}: {e}", m.idx))?;
    let mut cli = Cli { idx: m.idx, ws: Some(ws), frames: vec![], unparsable: 0, handshake_ok: true, bystander: false, got_first_response: false, note: None };
    let tk = sc.tk.as_ref().expect("takeover plan");
    let idx = m.idx;
    let hooked = wait_until(WINDOW, || tk.peer_of(idx).is_some() && sc.count(|e| matches!(e, Ev::TkAlias { idx: i, .. } if *i == idx)) > 0).await;
    m.peer = tk.peer_of(idx);
    if !hooked {
        m.cli = Some(cli);
        return Err("setup:tk-connect-hook".into());
    }
    cli.send_bin(req("/tprobe", 1, false, &json!({ "c": idx }))).await;
    match cli.read_until_response(1, WINDOW).await {
        Ok(()) => cli.got_first_response = true,
        Err(e) => {
            cli.note = Some(format!("first response: {e}"));
            m.cli = Some(cli);
            return Err("setup:tk-first-response".into());
        }
    }
    if m.parked {
        let peer = m.peer.unwrap_or(u64::MAX);
        cli.send_bin(req("/bpark", 2, idx % 2 == 1, &json!({}))).await;
        if !wait_until(WINDOW, || sc.count(|e| matches!(e, Ev::HEnter { peer: p, .. } if *p == peer)) > 0).await {
            m.cli = Some(cli);
            return Err("setup:handler-parked".into());
        }
    }
    m.cli = Some(cli);
    Ok(())
}

/// Ok(tolerated) / Err(expired wait)
async fn end_member(sc: &Scn, m: &mut Member) -> Result<bool, &'static str> {
    let (Some(peer), Some(cli)) = (m.peer, m.cli.as_mut()) else { return Err("setup:tk-end-without-connection") };
    sc.push(Ev::TkEndApplied { peer });
    apply_client_cause(cli, m.cause, m.seed).await;
    m.ended = true;
    let mut tolerated = false;
    let first = if is_frame_cause(m.cause) { Duration::from_secs(3) } else { WINDOW };
    if !wait_until(first, || disc1_seen(sc, peer)).await {
        if !is_frame_cause(m.cause) {
            cli.ws = None;
            return Err("disconnect");
        }
        // the server did not treat the frame as fatal: end the connection by dropping the socket instead
        tolerated = true;
        cli.ws = None;
        if !wait_until(WINDOW, || disc1_seen(sc, peer)).await {
            return Err("disconnect");
        }
    }
    if m.cause == Cause::Close {
        cli.drain_until_closed(Duration::from_secs(1)).await;
    }
    cli.ws = None;
    Ok(tolerated)
}

async fn probe_round(members: &mut [Member], round: u64) -> Result<(), &'static str> {
    let mut ok = true;
    // newest first
    for m in members.iter_mut().rev() {
        if m.ended {
            continue;
        }
        let Some(cli) = m.cli.as_mut() else { continue };
        if cli.ws.is_none() {
            continue;
        }
        let path = if (m.idx as u64 + round) % 2 == 0 { "/tprobe" } else { "/btprobe" };
        let id = 10 + round;
        cli.send_bin(req(path, id, false, &json!({ "c": m.idx }))).await;
        if let Err(e) = cli.read_until_response(id, WINDOW).await {
            cli.note = Some(format!("probe round {round}: {e}"));
            ok = false;
        }
    }
    if ok { Ok(()) } else { Err("setup:tk-probe-response") }
}

fn two_mut(ms: &mut [Member], a: usize, b: usize) -> (&mut Member, &mut Member) {
    assert!(a != b);
    if a < b {
        let (l, r) = ms.split_at_mut(b);
        (&mut l[a], &mut r[0])
    } else {
        let (l, r) = ms.split_at_mut(a);
        (&mut r[0], &mut l[b])
    }
}

async fn run_group(sc: Arc<Scn>, addr: SocketAddr, mut g: Group) -> Group {
    let steps = g.steps.clone();
    let mut round = 0u64;
    for st in steps {
        let mut errs: Vec<String> = vec![];
        match st {
            Step::Conn(k) => {
                if let Err(e) = connect_member(&sc, addr, &mut g.members[k]).await {
                    errs.push(e);
                }
            }
            Step::End(k) => match end_member(&sc, &mut g.members[k]).await {
                Ok(t) => g.tolerated += t as u64,
                Err(e) => errs.push(e.into()),
            },
            Step::EndConn(a, b) => {
                let (ma, mb) = two_mut(&mut g.members, a, b);
                let (ra, rb) = tokio::join!(end_member(&sc, ma), connect_member(&sc, addr, mb));
                match ra {
                    Ok(t) => g.tolerated += t as u64,
                    Err(e) => errs.push(e.into()),
                }
                if let Err(e) = rb {
                    errs.push(e);
                }
            }
            Step::End2(a, b) => {
                let (ma, mb) = two_mut(&mut g.members, a, b);
                let (ra, rb) = tokio::join!(end_member(&sc, ma), end_member(&sc, mb));
                for r in [ra, rb] {
                    match r {
                        Ok(t) => g.tolerated += t as u64,
                        Err(e) => errs.push(e.into()),
                    }
                }
            }
            Step::Probe => {
                round += 1;
                if let Err(e) = probe_round(&mut g.members, round).await {
                    errs.push(e.into());
                }
            }
        }
        if !errs.is_empty() {
            for e in errs {
                if e.starts_with("harness:") {
                    g.harness_err = Some(e);
                } else {
                    let w: &'static str = match e.as_str() {
                        "disconnect" => "disconnect",
                        "setup:tk-connect-hook" => "setup:tk-connect-hook",
                        "setup:tk-first-response" => "setup:tk-first-response",
                        "setup:handler-parked" => "setup:handler-parked",
                        "setup:tk-probe-response" => "setup:tk-probe-response",
                        _ => "setup:tk-end-without-connection",
                    };
                    g.failed.push(w);
                }
            }
            // the rest of the script depends on the step that did not complete
            break;
        }
    }
    g
}

fn all_tk_disconnected(sc: &Scn) -> bool {
    let log = sc.log.lock().unwrap_or_else(|e| e.into_inner());
    let mut st: HashMap<u64, bool> = HashMap::new();
    for (_, e) in log.iter() {
        match e {
            Ev::TkConnect0 { peer } => {
                st.entry(*peer).or_insert(false);
            }
            Ev::TkDisc1 { peer } => {
                st.insert(*peer, true);
            }
            _ => {}
        }
    }
    st.values().all(|d| *d)
}

pub(super) async fn run(spec: Spec, env: Arc<Env>) -> Out {
    let Kind::Takeover(shape) = spec.kind else { unreachable!("takeover::run on a non-takeover cell") };
    let mut r = Rng::new(spec.seed ^ 0x7A4E_0FE2);
    let entry = spec.entry;
    let n_groups = spec.conns.max(1);
    let per = if shape == TkShape::Pair { 2 } else { 3 };
    let variant = r.below(4);
    let coop = r.coin();
    let cap = *r.pick(&[4usize, 16, 256]);
    let class_offset = r.usize_below(6);
    let sched_offset = r.below(6);

    // --- plan
    let (mut scripts, mut group_of, mut group_keys, mut group_members, mut groups, mut group_cfg) = (vec![], vec![], vec![], vec![], vec![], vec![]);
    for g in 0..n_groups {
        let shared_dev = r.chance(1, 3);
        let (sched_name, steps) = schedule(shape, sched_offset + g as u64 + r.below(2));
        let (mut members, mut keys_all, mut idxs, mut classes, mut causes) = (vec![], Vec::<String>::new(), vec![], vec![], vec![]);
        for k in 0..per {
            let idx = scripts.len();
            // the oldest member's order class rotates systematically, the others are drawn
            let class = if k == 0 { (g + class_offset) % 6 } else { r.usize_below(6) };
            let keys = script_for(&mut r, class, g, k, shared_dev);
            for key in &keys {
                if !keys_all.contains(key) {
                    keys_all.push(key.clone());
                }
            }
            scripts.push(keys);
            group_of.push(g);
            idxs.push(idx);
            let cause = *r.pick(&TK_CAUSES);
            let parked = k + 1 < per && r.chance(1, 2);
            classes.push(CLASS_NAMES[class]);
            causes.push(format!("{cause:?}{}", if parked { "+parked" } else { "" }));
            members.push(Member { idx, cause, parked, seed: r.next_u64(), cli: None, peer: None, ended: false });
        }
        group_cfg.push(json!({ "schedule": sched_name, "order": classes, "older_exit": &causes[..per - 1], "shared_dev_key": shared_dev }));
        group_keys.push(keys_all);
        group_members.push(idxs);
        groups.push(Group { members, steps, failed: vec![], harness_err: None, tolerated: 0 });
    }
    let total = scripts.len();
    let finale = match entry {
        Entry::DrainListener => *r.pick(&["close", "tcp-drop", "graceful-drain"]),
        Entry::AcceptServeCancel | Entry::Adopt => *r.pick(&["close", "tcp-drop", "token-cancel"]),
        _ => *r.pick(&["close", "tcp-drop"]),
    };
    let plan = TkPlan { scripts: scripts.clone(), group_of, group_keys, group_members, idx_peer: Mutex::new(vec![None; total]) };
    let sc = Arc::new(Scn {
        salt: 0,
        log: Mutex::new(Vec::new()),
        hgate: Gate::new(),
        cgate: Gate::new(),
        reg: PeerRegistry::new(),
        gate_pos: None,
        panic_pos: None,
        coop,
        tok: AtomicU64::new(1),
        hook_release: true,
        pg: PeerGates::new(),
        tk: Some(plan),
    });
    let cfg = json!({ "groups": group_cfg, "variant": variant, "coop": coop, "outbound_capacity": cap, "finale": finale, "scripts": scripts });
    let mut out = Out {
        spec: spec.clone(),
        cfg,
        sc: sc.clone(),
        clients: vec![],
        expected_hellos: vec!["/hello2"],
        n_ok: 0,
        late_ok: 0,
        bad_attempts: 0,
        failed_waits: vec![],
        harness_err: None,
        final_len: 0,
        final_alias_c: 0,
        token_attached: false,
        wall_ms: 0,
        tolerated_frame_cause: false,
    };

    let running = match env.srv.spawn(start_server(sc.clone(), build_tk_server(&sc, cap), entry, true, Duration::from_secs(5), variant, finale == "token-cancel")).await {
        Ok(Ok(rn)) => rn,
        Ok(Err(e)) => {
            out.harness_err = Some(e);
            return out;
        }
        Err(e) => {
            out.harness_err = Some(format!("server start task: {e}"));
            return out;
        }
    };
    let Running { addr, task: serve_task, mut shutdown_tx, token } = running;
    out.token_attached = token.is_some();

    // --- the groups run their scripts concurrently against the one server / registry
    let mut groups: Vec<Group> = join_all(groups.into_iter().map(|g| run_group(sc.clone(), addr, g))).await;
    for g in &mut groups {
        if let Some(e) = g.harness_err.take() {
            out.harness_err = Some(e);
        }
        for w in std::mem::take(&mut g.failed) {
            fail(&mut out, &env, w);
        }
        out.tolerated_frame_cause |= g.tolerated > 0;
    }

    // --- finale: the newest connections leave last
    let mut serve_returned_expected = false;
    if out.harness_err.is_none() {
        for g in &groups {
            for m in g.members.iter().filter(|m| !m.ended) {
                if let Some(p) = m.peer {
                    sc.push(Ev::TkEndApplied { peer: p });
                }
            }
        }
        match finale {
            "token-cancel" => match &token {
                Some(t) => {
                    t.cancel();
                    sc.push(Ev::CancelCalled);
                }
                None => out.harness_err = Some("token cancel scheduled on an entry without token".into()),
            },
            "graceful-drain" => {
                if let Some(tx) = shutdown_tx.take() {
                    let _ = tx.send(());
                    sc.push(Ev::ShutdownFired);
                }
                serve_returned_expected = true;
            }
            f => {
                let cause = if f == "close" { Cause::Close } else { Cause::TcpDrop };
                join_all(groups.iter_mut().flat_map(|g| g.members.iter_mut()).filter(|m| !m.ended).filter_map(|m| m.cli.as_mut()).map(|c| async move {
                    apply_client_cause(c, cause, 0).await;
                }))
                .await;
            }
        }
    }
    let w = window(&out);
    if out.harness_err.is_none() && !wait_until(w, || all_tk_disconnected(&sc)).await {
        fail(&mut out, &env, "disconnect");
    }
    join_all(groups.iter_mut().flat_map(|g| g.members.iter_mut()).filter_map(|m| m.cli.as_mut()).map(|c| async move {
        if c.ws.is_some() {
            c.drain_until_closed(Duration::from_secs(2)).await;
        }
        c.ws = None;
    }))
    .await;
    sc.hgate.open(ACT_GO);
    if out.harness_err.is_none() {
        let w = window(&out);
        if !wait_until(w, || all_tk_disconnected(&sc)).await {
            fail(&mut out, &env, "disconnect");
        }
        let parked = sc.count(|e| matches!(e, Ev::HEnter { .. }));
        let w = window(&out);
        if !wait_until(w, || sc.count(|e| matches!(e, Ev::HRelease { .. })) >= parked).await {
            fail(&mut out, &env, "handler-release");
        }
    }
    if entry == Entry::DrainListener {
        if let Some(tx) = shutdown_tx.take() {
            let _ = tx.send(());
        }
        if !wait_until(window(&out), || sc.count(|e| matches!(e, Ev::ServeReturned)) >= 1).await && serve_returned_expected {
            fail(&mut out, &env, "serve-returned");
        }
    }
    serve_task.abort();
    // --- final view from the outside
    for idx in 0..total {
        snap(&sc, "final", idx, None);
    }
    out.final_len = sc.reg.len();
    out.final_alias_c = sc.tk.as_ref().map(|t| t.group_keys.iter().flatten().filter(|k| sc.reg.get_by(k.as_str()).is_some()).count()).unwrap_or(0);
    for g in groups {
        for m in g.members {
            if let Some(c) = m.cli {
                out.n_ok += c.handshake_ok as usize;
                out.clients.push(CliRec { idx: c.idx, frames: c.frames, unparsable: c.unparsable, handshake_ok: c.handshake_ok, bystander: false, got_first_response: c.got_first_response, note: c.note });
            }
        }
    }
    out
}

// ------------------------------------------------------------------ offline oracle

#[derive(Default)]
pub(super) struct TkTally {
    scenarios: u64,
    groups: u64,
    connections: u64,
    takeovers: u64,
    older_exits_while_newer_owner_connected: u64,
    snapshots_checked: u64,
    snapshots_unconstrained: u64,
    snapshots_in_handlers_after_older_exit: u64,
    key_lookups_checked: u64,
    by_site: BTreeMap<&'static str, u64>,
    by_order_class: BTreeMap<String, u64>,
    by_schedule: BTreeMap<String, u64>,
    by_exit_cause: BTreeMap<String, u64>,
    overlapping_alias_windows: u64,
}

impl TkTally {
    pub(super) fn report(&self, rep: &mut Report) {
        rep.set("takeover_scenarios", json!(self.scenarios));
        rep.set("takeover_identity_groups", json!(self.groups));
        rep.set("takeover_connections", json!(self.connections));
        rep.set("takeover_keys_moved_from_a_connected_owner", json!(self.takeovers));
        rep.set("takeover_older_exits_while_newer_owner_connected", json!(self.older_exits_while_newer_owner_connected));
        rep.set("takeover_snapshots_checked_against_model", json!(self.snapshots_checked));
        rep.set("takeover_snapshots_unconstrained_overlapping_a_mutation", json!(self.snapshots_unconstrained));
        rep.set("takeover_handler_snapshots_after_an_older_exit", json!(self.snapshots_in_handlers_after_older_exit));
        rep.set("takeover_get_by_lookups_checked", json!(self.key_lookups_checked));
        rep.set("takeover_snapshots_by_site", json!(self.by_site));
        rep.set("takeover_oldest_member_order_classes", json!(self.by_order_class));
        rep.set("takeover_schedules", json!(self.by_schedule));
        rep.set("takeover_older_exit_causes", json!(self.by_exit_cause));
        rep.set("takeover_groups_with_overlapping_alias_windows_unjudged", json!(self.overlapping_alias_windows));
    }
}

#[derive(Default, Clone)]
struct Model {
    present: std::collections::BTreeSet<u64>,
    owner: BTreeMap<String, u64>,
    lists: BTreeMap<u64, Vec<String>>,
}

impl Model {
    /// returns the number of keys that moved away from a different, present owner
    fn alias_all(&mut self, peer: u64, keys: &[String]) -> u64 {
        self.present.insert(peer);
        let mut moved = 0;
        for k in keys {
            match self.owner.insert(k.clone(), peer) {
                Some(prev) if prev == peer => continue,
                Some(prev) => {
                    if let Some(l) = self.lists.get_mut(&prev) {
                        l.retain(|x| x != k);
                    }
                    moved += self.present.contains(&prev) as u64;
                }
                None => {}
            }
            self.lists.entry(peer).or_default().push(k.clone());
        }
        moved
    }
    /// returns true when some key this peer once claimed is, at this point, owned by another present peer
    fn remove(&mut self, peer: u64, script: &[String]) -> bool {
        self.present.remove(&peer);
        for k in self.lists.remove(&peer).unwrap_or_default() {
            if self.owner.get(&k) == Some(&peer) {
                self.owner.remove(&k);
            }
        }
        script.iter().any(|k| self.owner.get(k).map(|o| self.present.contains(o)).unwrap_or(false))
    }
}

enum Mutn {
    Alias { peer: u64, keys: Vec<String> },
    Remove { peer: u64 },
}

struct Win {
    start: u64,
    end: u64,
    group: usize,
    m: Mutn,
}

pub(super) fn judge(out: &Out, stalled: bool, t: &mut Tally, found: &mut Vec<(String, String)>, rep_note: &mut Vec<String>) {
    let (cn, pn) = cell_name(&out.spec.kind);
    let cell = format!("{cn}:{pn}");
    let ev = out.sc.snapshot();
    if let Some(e) = &out.harness_err {
        rep_note.push(format!("{cell} via {:?}: harness: {e}", out.spec.entry));
        return;
    }
    let Some(tk) = out.sc.tk.as_ref() else { return };
    let timed_out = !out.failed_waits.is_empty();
    if timed_out && stalled {
        rep_note.push(format!("{cell} via {:?}: waits {:?} expired while the machine stalled", out.spec.entry, out.failed_waits));
        return;
    }
    if ev.iter().any(|(_, e)| matches!(e, Ev::HRelease { timeout: true, .. })) {
        rep_note.push(format!("{cell} via {:?}: a gate was never opened by the driver (harness)", out.spec.entry));
        return;
    }
    let mut viol = |class: &str, detail: String| {
        found.push((format!("C15:{class}:{cell}"), format!("{detail} [entry {:?}, {} identity group(s), waits expired: {:?}]", out.spec.entry, out.spec.conns, out.failed_waits)));
    };
    for w in &out.failed_waits {
        match *w {
            "disconnect" => viol("disconnect-window-expired", format!("a connection whose exit cause was applied had not run its disconnect callbacks {} s later", WINDOW.as_secs())),
            "handler-release" | "serve-returned" => rep_note.push(format!("{cell}: bounded wait {w} expired")),
            w => rep_note.push(format!("{cell} via {:?}: setup wait {w} expired", out.spec.entry)),
        }
    }
    t.tk.scenarios += 1;
    t.tk.groups += out.spec.conns as u64;
    t.frames += out.clients.iter().map(|c| c.frames.len() as u64).sum::<u64>();
    if let Some(groups) = out.cfg["groups"].as_array() {
        for g in groups {
            *t.tk.by_order_class.entry(g["order"][0].as_str().unwrap_or("?").to_string()).or_default() += 1;
            *t.tk.by_schedule.entry(g["schedule"].as_str().unwrap_or("?").to_string()).or_default() += 1;
            for c in g["older_exit"].as_array().into_iter().flatten() {
                *t.tk.by_exit_cause.entry(c.as_str().unwrap_or("?").to_string()).or_default() += 1;
            }
        }
    }

    // --- per-peer callback accounting and mutation windows
    let (mut c0, mut d0, mut d1, mut end_applied): (BTreeMap<u64, Vec<u64>>, BTreeMap<u64, Vec<u64>>, BTreeMap<u64, Vec<u64>>, BTreeMap<u64, u64>) = Default::default();
    let mut peer_idx: BTreeMap<u64, usize> = BTreeMap::new();
    let mut wins: Vec<Win> = vec![];
    let mut broken_groups: std::collections::BTreeSet<usize> = Default::default();
    for (s, e) in &ev {
        match e {
            Ev::TkConnect0 { peer } => c0.entry(*peer).or_default().push(*s),
            Ev::TkDisc0 { peer } => d0.entry(*peer).or_default().push(*s),
            Ev::TkDisc1 { peer } => d1.entry(*peer).or_default().push(*s),
            Ev::TkEndApplied { peer } => {
                end_applied.entry(*peer).or_insert(*s);
            }
            Ev::TkAlias { peer, idx, s1, keys, oks } => {
                peer_idx.insert(*peer, *idx);
                let g = tk.group_of[*idx];
                if oks.iter().any(|o| !*o) {
                    broken_groups.insert(g);
                    viol("registry-absent-at-connect", format!("peer {peer} (client {idx}): PeerRegistry::alias returned {oks:?} for {keys:?} inside a connect hook registered after with_peer_registry"));
                }
                wins.push(Win { start: *s1, end: *s, group: g, m: Mutn::Alias { peer: *peer, keys: keys.clone() } });
            }
            Ev::PanicNow { .. } => t.panics += 1,
            Ev::HEnter { .. } => t.parked += 1,
            Ev::HCancelSeen { .. } => t.cancel_seen += 1,
            _ => {}
        }
    }
    t.tk.connections += c0.len() as u64;
    t.connects += c0.values().map(|v| v.len() as u64).sum::<u64>();
    t.disconnects += d1.values().map(|v| v.len() as u64).sum::<u64>();
    for (peer, c) in &c0 {
        if c.len() > 1 {
            viol("connect-twice", format!("peer {peer}: first connect callback ran {} times", c.len()));
        }
        for (name, d) in [("first", d0.get(peer)), ("last", d1.get(peer))] {
            match d.map(|v| v.len()).unwrap_or(0) {
                1 => {}
                0 => viol("disconnect-missing", format!("peer {peer}: the {name} disconnect callback never ran within the {} s window after the connection was ended", WINDOW.as_secs())),
                k => viol("disconnect-twice", format!("peer {peer}: the {name} disconnect callback ran {k} times")),
            }
        }
        if let Some(first_d0) = d0.get(peer).and_then(|v| v.first()) {
            // (only with a complete script: after a setup failure the teardown drops sockets without logging it)
            if !timed_out && end_applied.get(peer).map(|a| first_d0 < a).unwrap_or(true) {
                viol("disconnect-of-live-connection", format!("peer {peer}: disconnect callback at seq {first_d0}, but the driver ended this connection only at seq {:?} (another member of its identity group was being ended)", end_applied.get(peer)));
            }
        }
    }
    for peer in d0.keys().chain(d1.keys()) {
        if !c0.contains_key(peer) {
            viol("disconnect-without-connect", format!("peer {peer}: disconnect callbacks ran but no connect callback"));
        }
    }
    for (peer, starts) in &d0 {
        let Some(idx) = peer_idx.get(peer) else { continue };
        let end = d1.get(peer).and_then(|v| v.first().copied()).unwrap_or(u64::MAX);
        wins.push(Win { start: starts[0], end, group: tk.group_of[*idx], m: Mutn::Remove { peer: *peer } });
    }
    wins.sort_by_key(|w| (w.end, w.start));
    // alias windows of one group must not overlap each other (the driver serialises a group's connects)
    for (i, a) in wins.iter().enumerate() {
        for b in wins.iter().skip(i + 1) {
            if a.group == b.group && matches!((&a.m, &b.m), (Mutn::Alias { .. }, Mutn::Alias { .. })) && a.start <= b.end && b.start <= a.end && broken_groups.insert(a.group) {
                t.tk.overlapping_alias_windows += 1;
            }
        }
    }
    // evidence: takeovers and older exits as the model sees them
    {
        let mut m = Model::default();
        for w in &wins {
            match &w.m {
                Mutn::Alias { peer, keys } => t.tk.takeovers += m.alias_all(*peer, keys),
                Mutn::Remove { peer } => {
                    let script = peer_idx.get(peer).map(|i| tk.scripts[*i].as_slice()).unwrap_or(&[]);
                    t.tk.older_exits_while_newer_owner_connected += m.remove(*peer, script) as u64;
                }
            }
        }
    }

    // --- every snapshot against the model
    for (s, e) in &ev {
        let Ev::TkSnap { site, peer, idx, s1, get, list, key_for, by, ctx_peer } = e else { continue };
        let g = tk.group_of[*idx];
        *t.tk.by_site.entry(site).or_default() += 1;
        if broken_groups.contains(&g) || wins.iter().any(|w| w.group == g && w.start <= *s && w.end >= *s1) {
            t.tk.snapshots_unconstrained += 1;
            t.probes_unconstrained += 1;
            continue;
        }
        let mut m = Model::default();
        let mut removes_before = 0;
        for w in wins.iter().filter(|w| w.group == g && w.end < *s1) {
            match &w.m {
                Mutn::Alias { peer, keys } => {
                    m.alias_all(*peer, keys);
                }
                Mutn::Remove { peer } => {
                    m.remove(*peer, &[]);
                    removes_before += 1;
                }
            }
        }
        t.tk.snapshots_checked += 1;
        if site.starts_with("handler") {
            if removes_before > 0 {
                t.tk.snapshots_in_handlers_after_older_exit += 1;
            }
            // the snapshot was taken by a handler of a connection that must still be connected
            if let Some(cp) = ctx_peer {
                if let Some(d) = d1.get(cp).and_then(|v| v.first()) {
                    if d < s1 {
                        viol("disconnect-of-live-connection", format!("peer {cp}: disconnect callbacks finished at seq {d}, but a handler of that connection ran afterwards (snapshot [{s1},{s}])"));
                    }
                }
            }
        }
        let who = format!("snapshot [{s1},{s}] at {site}{} about peer {peer} (client {idx}, script {:?})", ctx_peer.map(|c| format!(" in a handler of peer {c}")).unwrap_or_default(), tk.scripts[*idx]);
        let want_present = m.present.contains(peer);
        if *get != want_present {
            if want_present {
                viol("registry-absent-while-connected:takeover", format!("{who}: get()=None although the connection's connect hooks ran and its disconnect hooks have not started"));
            } else {
                viol("registry-present-after-disconnect:takeover", format!("{who}: get() still returns the peer after its last disconnect hook"));
            }
        } else if want_present {
            t.probes_present += 1;
        } else {
            t.probes_absent += 1;
        }
        let want_list = m.lists.get(peer).cloned().unwrap_or_default();
        if *list != want_list || *key_for != want_list.first().cloned() {
            let class = if !want_present { "aliases-present-after-disconnect" } else if want_list.iter().any(|k| !list.contains(k)) { "alias-missing-from-connected-peer" } else { "alias-view-mismatch" };
            viol(class, format!("{who}: aliases_for={list:?} key_for={key_for:?}, the documented alias semantics give {want_list:?} (first = key_for)"));
        }
        for (k, got) in by {
            t.tk.key_lookups_checked += 1;
            let want = m.owner.get(k).copied();
            if *got == want {
                continue;
            }
            match want {
                Some(o) => viol(
                    "alias-lost-while-owner-connected",
                    format!("{who}: get_by({k:?}) -> {got:?}, but peer {o} claimed that key in its connect hook (script {:?}), nobody claimed it since and peer {o} is still connected (no disconnect hook of it has started); peers of this group whose disconnect hooks had finished before: {:?}",
                        peer_idx.get(&o).map(|i| tk.scripts[*i].clone()).unwrap_or_default(),
                        wins.iter().filter(|w| w.group == g && w.end < *s1).filter_map(|w| if let Mutn::Remove { peer } = &w.m { Some(*peer) } else { None }).collect::<Vec<_>>()),
                ),
                None => viol("alias-present-after-disconnect", format!("{who}: get_by({k:?}) -> {got:?} although every peer that claimed the key has run its last disconnect hook")),
            }
        }
    }
    if !timed_out && (out.final_len != 0 || out.final_alias_c != 0) {
        viol("registry-nonempty-at-quiescence", format!("after every disconnect callback ran the registry still holds {} peers and {} resolvable aliases", out.final_len, out.final_alias_c));
    }
    // handlers of older connections that were parked when their connection ended
    for (_, e) in &ev {
        if let Ev::HRelease { peer, tok, s1, cancelled, .. } = e {
            if d0.get(peer).and_then(|v| v.first()).map(|d| d < s1).unwrap_or(false) {
                if *cancelled {
                    t.released_after_disconnect_cancelled += 1;
                } else {
                    viol("parked-handler-not-cancelled:off-reader", format!("peer {peer} handler #{tok}: is_cancelled()==false at seq {s1} although its connection's disconnect callback had already run"));
                }
            }
        }
    }
    judge_hook_release(&ev, t, &mut viol);
    for c in &out.clients {
        if c.unparsable > 0 {
            viol("unparsable-frame", format!("client {}: {} binary messages were not one REPE frame", c.idx, c.unparsable));
        }
    }
    t.tolerated += out.tolerated_frame_cause as u64;
    t.client_notes += out.clients.iter().filter(|c| c.handshake_ok && c.note.is_some()).count() as u64;
}
