//! C03 helper: request generator. For every generated request the expected response CLASS is derived
//! here from how the request was built (never by asking the library). Body decodability is known by
//! construction and double-checked with the third-party codecs (serde_json / beve), not with repe.

use super::srv::{ALL_T, REENT_FN_T, rr_const, CODES, ERASED_OP_ERR_PAYLOAD, FAIL_MODES, OP_ERR_PAD, T, Tin, Tout, code_of, erased_spec, fail_name, fail_of, reg_val, slice_result};
use crate::common::*;
use crate::oracle::{self, SpecHeader};
use serde_json::{Value, json};

#[derive(Clone, Debug, PartialEq)]
pub enum ExpBody {
    /// nothing pinned by the statement (error text etc.): only the L3 differential looks at it
    Open,
    /// success: body decodes (per the given body format) to this record
    Tout(Tout, u16),
    /// success: JSON body equal to this value
    Json(Value),
    /// success: BEVE typed u64 array
    U64s(Vec<u64>),
    /// custom erased handler: exactly these fields; query None = echo of the request query
    Exact { qf: u16, bf: u16, query: Option<Vec<u8>>, body: Vec<u8> },
    /// success: this body format and exactly these body bytes (a result that does not decode into the result record)
    Bytes(u16, Vec<u8>),
}

#[derive(Clone, Debug)]
pub struct Expect {
    /// stable class label used in signatures and distinct-case identities
    pub label: String,
    /// acceptable error codes (statement's classes; several when the statement leaves the choice open)
    pub allowed: Vec<u32>,
    /// passes version / query-format / UTF-8 / lookup, i.e. a handler is resolved and run
    pub dispatched: bool,
    /// the user-level handler body is reached (body acceptable and decodable)
    pub invoked: bool,
    pub body: ExpBody,
}

#[derive(Clone, Debug)]
pub struct Req {
    pub id: u64,
    pub token: u64,
    pub version: u8,
    pub notify: u8,
    pub qf: u16,
    pub query: Vec<u8>,
    pub bf: u16,
    pub body: Vec<u8>,
    pub target: Option<T>,
    pub variant: &'static str,
    pub expect: Expect,
    /// set when the request is built so that the library quotes long non-ASCII caller text in an error text
    pub reflect: Option<Reflect>,
}

/// How a request makes the library quote caller-chosen text in the error text of its response.
#[derive(Clone, Debug)]
pub struct Reflect {
    pub kind: &'static str,
    /// sub-variant (route kind / error code) that may word the error text differently
    pub sub: usize,
    /// the caller-chosen text (informational: is it quoted in full?)
    pub needle: Vec<u8>,
    /// byte length of error text this request was aimed at (0 = probe / not aimed)
    pub aimed_len: usize,
    /// the length landmark the aim belongs to (0 = probe)
    pub boundary: usize,
    /// bytes per character of the filler (0 = mixed widths)
    pub width: u8,
}

impl Req {
    pub fn wire(&self) -> Vec<u8> {
        oracle::frame(
            SpecHeader { spec: oracle::SPEC, version: self.version, notify: self.notify, id: self.id, query_format: self.qf, body_format: self.bf, ..Default::default() },
            &self.query,
            &self.body,
        )
    }
    pub fn desc(&self, idx: usize) -> Value {
        json!({
            "idx": idx, "id": self.id, "token": self.token, "version": self.version, "notify": self.notify,
            "query_format": self.qf, "query": String::from_utf8_lossy(&self.query), "query_hex": hex_trunc(&self.query, 48),
            "body_format": self.bf, "body_len": self.body.len(), "body_hex": hex_trunc(&self.body, 96),
            "target": self.target.map(|t| t.path()), "variant": self.variant, "class": self.expect.label,
            "allowed_ec": self.expect.allowed,
            "reflect": self.reflect.as_ref().map(|r| json!({"kind": r.kind, "text_bytes": r.needle.len(), "aimed_error_text_len": r.aimed_len, "landmark": r.boundary, "char_width": r.width})),
        })
    }
}

pub fn id_of(token: u64) -> u64 {
    token.wrapping_mul(0x9E37_79B9_7F4A_7C15) ^ 0x5bd1_e995_0c03_0c03
}

const BF_ALL: [u16; 6] = [0, 1, 2, 3, 4, 0xffff];

fn enc(bf: u16, r: &Tin) -> Vec<u8> {
    if bf == 1 { beve::to_vec(r).expect("beve encode") } else { serde_json::to_vec(r).expect("json encode") }
}

fn pad(rng: &mut Rng) -> String {
    let n = if rng.chance(1, 40) { rng.usize_below(3000) } else { rng.usize_below(60) };
    const A: &[u8] = b"abcdefghijklmnopqrstuvwxyz0123456789 _-/~\"\\{}[]:,";
    let mut s: String = (0..n).map(|_| *rng.pick(A) as char).collect();
    if rng.chance(1, 10) {
        s.push_str("é✓");
    }
    s
}

#[derive(PartialEq, Clone, Copy)]
enum Fam {
    JsonVal,
    Typed,
    Slice,
    Reg,
    StMethod,
}

/// Third-party classifier: would the kind's decoder accept these bytes under this (acceptable) format?
fn decodes(fam: Fam, t: T, bf: u16, b: &[u8]) -> bool {
    match fam {
        Fam::JsonVal => {
            if bf == 1 { beve::from_slice::<Value>(b).is_ok() } else { serde_json::from_slice::<Value>(b).is_ok() }
        }
        Fam::Typed => {
            if bf == 1 { beve::from_slice::<Tin>(b).is_ok() } else { serde_json::from_slice::<Tin>(b).is_ok() }
        }
        Fam::StMethod => {
            let v: Option<Value> = if bf == 1 { beve::from_slice::<Value>(b).ok() } else { serde_json::from_slice::<Value>(b).ok() };
            !b.is_empty() && v.map(|v| serde_json::from_value::<Tin>(v).is_ok()).unwrap_or(false)
        }
        Fam::Slice => {
            if t == T::SRef && b.first() == Some(&0x5C) {
                beve::read_aligned_typed_slice::<u64>(b).is_ok()
            } else {
                beve::read_typed_slice::<u64>(b).is_ok()
            }
        }
        Fam::Reg => match bf {
            2 => serde_json::from_slice::<Value>(b).is_ok(),
            1 => beve::from_slice::<Value>(b).is_ok(),
            3 => std::str::from_utf8(b).is_ok(),
            _ => true,
        },
    }
}

pub struct GenStats {
    pub classifier_disagreements: u64,
}

struct Built {
    bf: u16,
    body: Vec<u8>,
    variant: &'static str,
    /// what happens once the request is dispatched to the target
    expect: Expect,
}

fn exp(label: &str, t: T, allowed: Vec<u32>, invoked: bool, body: ExpBody) -> Expect {
    Expect { label: format!("{label}:{}", t.path()), allowed, dispatched: true, invoked, body }
}

/// Kinds whose handler returns the `Tout` record itself (so the library has to serialize it).
pub fn returns_record(t: T) -> bool {
    matches!(t, T::Typed | T::TCtx | T::BTyped | T::BTCtx | T::Jth | T::StEcho)
}

/// Third-party encoding of the record a handler returned, the way the kind hands it to a codec (struct methods go
/// through a JSON value first; everything else is encoded directly). Never through repe.
pub fn encode_result(t: T, out: &Tout, bf: u16) -> Result<Vec<u8>, String> {
    if t == T::StEcho {
        serde_json::to_value(out).and_then(|v| serde_json::to_vec(&v)).map_err(|e| e.to_string())
    } else if bf == 1 {
        beve::to_vec(out).map_err(|e| e.to_string())
    } else {
        serde_json::to_vec(out).map_err(|e| e.to_string())
    }
}

fn handler_outcome(t: T, r: &Tin, typed_formats: bool) -> Expect {
    let fail = if returns_record(t) { fail_of(r.c) } else { 0 };
    let out = Tout { t: r.t, r: t.path().to_string(), pad: r.pad.clone(), fail };
    if r.op == 1 {
        return exp("handler-error", t, vec![code_of(r.c) as u32], true, ExpBody::Open);
    }
    let bf = match r.op {
        3 if typed_formats => 1,
        4 if typed_formats => 3,
        5 if typed_formats => 0,
        _ => 2,
    };
    if fail != 0 {
        // The handler returned a value the codec cannot encode (decided with the third-party codec alone). The statement
        // names no code for this; the code is the one the library's error types map a failed encode to: RepeError::Json /
        // RepeError::Beve -> ParseError (5), struct methods: StructError::Serialize -> InvalidBody (4).
        return match encode_result(t, &out, bf) {
            Err(_) => exp("result-unserializable", t, vec![if t == T::StEcho { 4 } else { 5 }], true, ExpBody::Open),
            Ok(bytes) => exp("ok", t, vec![0], true, ExpBody::Bytes(bf, bytes)),
        };
    }
    exp("ok", t, vec![0], true, ExpBody::Tout(out, bf))
}

/// Body + expectation for a request that reaches target `t`.
fn build_body(t: T, token: u64, qlen: usize, rng: &mut Rng, st: &mut GenStats) -> Built {
    let want_mal = rng.chance(1, 5);
    match t {
        T::Json | T::JCtx | T::BJson | T::BJCtx | T::Typed | T::TCtx | T::BTyped | T::BTCtx | T::Jth | T::StEcho => {
            let fam = match t {
                T::Json | T::JCtx | T::BJson | T::BJCtx => Fam::JsonVal,
                T::StEcho => Fam::StMethod,
                _ => Fam::Typed,
            };
            let typed_formats = matches!(t, T::Typed | T::TCtx | T::BTyped | T::BTCtx);
            let op = match fam {
                Fam::StMethod => 0,
                _ if typed_formats => *rng.pick(&[0u8, 0, 0, 1, 1, 2, 3, 4, 5]),
                _ => *rng.pick(&[0u8, 0, 0, 1]),
            };
            let mut r = Tin { t: token, op, c: rng.below(CODES.len() as u64) as u8, pad: pad(rng) };
            // one success in six of a kind that returns the record asks for a result that cannot be serialized
            if returns_record(t) && !matches!(op, 1 | OP_ERR_PAD) && rng.chance(1, 6) {
                r.c = *rng.pick(&FAIL_MODES) << 4;
            }
            let bf = *rng.pick(&[2u16, 2, 2, 2, 1, 1, 1, 3, 3, 0, 4, 0xffff]);
            if !matches!(bf, 1 | 2 | 3) {
                return Built { bf, body: enc(2, &r), variant: "unacceptable-format", expect: exp("body-format", t, vec![4], false, ExpBody::Open) };
            }
            if want_mal {
                let good = enc(bf, &r);
                let (variant, body): (&'static str, Vec<u8>) = match rng.below(5) {
                    0 => ("truncated", good[..good.len() - 1].to_vec()),
                    1 if bf != 1 => ("trailing-garbage", [good.as_slice(), b"}{"].concat()),
                    2 => ("empty", vec![]),
                    3 if fam != Fam::JsonVal => {
                        let v = json!({"t": "not-a-number", "op": [], "c": 1, "pad": 7, "tok": token});
                        ("wrong-shape", if bf == 1 { beve::to_vec(&v).unwrap() } else { serde_json::to_vec(&v).unwrap() })
                    }
                    4 if bf != 1 => {
                        let mut b = good.clone();
                        let at = b.len() - 2;
                        b[at] = 0xff; // inside the pad string (or its closing quote): not UTF-8
                        ("invalid-utf8", b)
                    }
                    _ => ("truncated", good[..good.len() - 1].to_vec()),
                };
                if !decodes(fam, t, bf, &body) {
                    return Built { bf, body, variant, expect: exp("body-decode", t, vec![4, 5], false, ExpBody::Open) };
                }
                st.classifier_disagreements += 1;
            }
            let body = enc(bf, &r);
            if !decodes(fam, t, bf, &body) {
                st.classifier_disagreements += 1;
            }
            Built { bf, body, variant: fail_name(if returns_record(t) && r.op != 1 { fail_of(r.c) } else { 0 }), expect: handler_outcome(t, &r, typed_formats) }
        }
        T::Slice | T::SRef => {
            let op = *rng.pick(&[0u64, 0, 0, 1]);
            let mut xs = vec![token, op, rng.below(CODES.len() as u64)];
            for _ in 0..rng.usize_below(9) {
                xs.push(rng.boundary_u64());
            }
            let bf = *rng.pick(&[1u16, 1, 1, 1, 1, 1, 0, 2, 3, 4, 0xffff]);
            let good = beve::to_vec_typed_slice(&xs);
            if bf != 1 {
                return Built { bf, body: good, variant: "unacceptable-format", expect: exp("body-format", t, vec![4], false, ExpBody::Open) };
            }
            if want_mal {
                let (variant, body): (&'static str, Vec<u8>) = match rng.below(4) {
                    0 => ("truncated", good[..good.len() - 1].to_vec()),
                    1 => ("wrong-element-type", beve::to_vec_typed_slice(&[token as f32, 1.5f32, 2.5])),
                    2 => ("json-text-as-beve", serde_json::to_vec(&xs).unwrap()),
                    _ => ("empty", vec![]),
                };
                if !decodes(Fam::Slice, t, bf, &body) {
                    return Built { bf, body, variant, expect: exp("body-decode", t, vec![4, 5], false, ExpBody::Open) };
                }
                st.classifier_disagreements += 1;
            }
            let (variant, body): (&'static str, Vec<u8>) = match rng.below(if t == T::SRef { 4 } else { 2 }) {
                0 => ("typed-array", good),
                1 => ("serde-vec", beve::to_vec(&xs).unwrap()),
                2 => ("aligned-at-0", beve::to_vec_aligned_typed_slice(&xs)),
                _ => {
                    let mut b = Vec::new();
                    beve::write_aligned_typed_slice_at(&mut b, &xs, 48 + qlen);
                    ("aligned-in-frame", b)
                }
            };
            if !decodes(Fam::Slice, t, bf, &body) {
                st.classifier_disagreements += 1;
            }
            let e = if op == 1 {
                exp("handler-error", t, vec![code_of(xs[2] as u8) as u32], true, ExpBody::Open)
            } else {
                exp("ok", t, vec![0], true, ExpBody::U64s(slice_result(&xs)))
            };
            Built { bf, body, variant, expect: e }
        }
        T::RegFn | T::RegW => {
            let bf = *rng.pick(&[2u16, 2, 2, 1, 1, 3, 3, 0, 0, 4, 0xffff]);
            let r = Tin { t: token, op: *rng.pick(&[0u8, 0, 0, 1]), c: rng.below(CODES.len() as u64) as u8, pad: pad(rng) };
            if t == T::RegFn && rng.chance(1, 10) {
                // empty body = READ of the function entry: described, not called
                return Built { bf, body: vec![], variant: "read-function-entry", expect: exp("ok", t, vec![0], false, ExpBody::Json(json!({"type": "function", "path": "/fn"}))) };
            }
            if !matches!(bf, 0..=3) {
                return Built { bf, body: enc(2, &r), variant: "unacceptable-format", expect: exp("body-format", t, vec![4], false, ExpBody::Open) };
            }
            if want_mal && bf != 0 {
                let good = enc(bf, &r);
                let (variant, body): (&'static str, Vec<u8>) = match (bf, rng.below(2)) {
                    (3, _) => ("invalid-utf8", [good.as_slice(), &[0xff, 0xfe]].concat()),
                    (2, 0) => ("trailing-garbage", [good.as_slice(), b"}{"].concat()),
                    _ => ("truncated", good[..good.len() - 1].to_vec()),
                };
                if !decodes(Fam::Reg, t, bf, &body) {
                    return Built { bf, body, variant, expect: exp("body-decode", t, vec![4, 5], false, ExpBody::Open) };
                }
                st.classifier_disagreements += 1;
            }
            let body = enc(bf, &r);
            let e = if t == T::RegW {
                exp("ok", t, vec![0], false, ExpBody::Json(json!({"status": "ok", "path": "/w"})))
            } else {
                handler_outcome(t, &r, false)
            };
            Built { bf, body, variant: "well-formed", expect: e }
        }
        T::RegVal => Built { bf: *rng.pick(&BF_ALL), body: vec![], variant: "read", expect: exp("ok", t, vec![0], false, ExpBody::Json(reg_val())) },
        T::StRo => Built { bf: *rng.pick(&BF_ALL), body: vec![], variant: "read", expect: exp("ok", t, vec![0], false, ExpBody::Json(json!(42))) },
        T::RegMissing | T::StMissing => {
            Built { bf: *rng.pick(&BF_ALL), body: vec![], variant: "read", expect: exp("unknown-path-in-mount", t, vec![6], false, ExpBody::Open) }
        }
        T::Erased => {
            let bf = *rng.pick(&BF_ALL);
            let op = rng.below(5) as u8;
            let c = rng.below(CODES.len() as u64) as u8;
            let plen = if rng.chance(1, 30) { rng.usize_below(3000) } else { rng.usize_below(80) };
            let mut body = token.to_le_bytes().to_vec();
            body.push(op);
            body.push(c);
            body.extend(rng.bytes(plen));
            let e = match erased_spec(1, bf, &body) {
                None => exp("handler-error", t, vec![code_of(c) as u32], true, ExpBody::Open),
                Some((ec, qf, rbf, q, b)) => exp(if ec == 0 { "ok" } else { "handler-error" }, t, vec![ec], true, ExpBody::Exact { qf, bf: rbf, query: q, body: b }),
            };
            let variant = ["echo-query", "own-query", "returns-err", "returns-error-message", "own-raw-query"][op as usize];
            Built { bf, body, variant, expect: e }
        }
        // the re-entrant kinds are not drawn by the general generator (ALL_T); see reent_req
        T::RrSet | T::RrMerge | T::RrMergeRoot | T::RrRegFn | T::RrSetRoot | T::RrRead | T::RrCross | T::R2Cross | T::RrConst | T::RrW | T::PeerReg => {
            let r = reent_req(token, t, 0, rng);
            Built { bf: r.bf, body: r.body, variant: r.variant, expect: r.expect }
        }
    }
}

const UNKNOWN_PATHS: [&str; 14] =
    ["/nosuch", "/jsonx", "/json/", "", "/", "/regx", "/stx", "/JSON", "json", "/b", "/b/json/x", "/erased/", "/jsön", "/typed\u{0}"];

pub fn gen_req(token: u64, rng: &mut Rng, st: &mut GenStats) -> Req {
    let t = *rng.pick(&ALL_T);
    let mut query = t.path().as_bytes().to_vec();
    let mut version = 1u8;
    let mut qf = 1u16;
    let mut codes: Vec<u32> = vec![];
    let mut labels: Vec<&'static str> = vec![];
    let mut target = Some(t);
    if rng.chance(3, 10) {
        // route-level faults; usually one, sometimes several at once
        let n = if rng.chance(1, 5) { 2 + rng.below(2) } else { 1 };
        let mut kinds = [0u8, 1, 2, 3];
        rng.shuffle(&mut kinds);
        for k in &kinds[..n as usize] {
            match k {
                0 => {
                    version = *rng.pick(&[0u8, 2, 3, 0x7f, 0x80, 0xff]);
                    codes.push(1);
                    labels.push("version");
                }
                1 => {
                    qf = *rng.pick(&[0u16, 2, 3, 0x100, 0xffff]);
                    codes.push(3);
                    labels.push("query-format");
                }
                _ => {}
            }
        }
        // query faults are exclusive of each other; only meaningful for a JSON-pointer query
        for k in &kinds[..n as usize] {
            if qf != 1 || labels.contains(&"query-utf8") || labels.contains(&"unknown-path") {
                break;
            }
            match k {
                2 => {
                    match rng.below(3) {
                        0 => query.push(0xff),
                        1 => query.extend_from_slice(&[0xc3, 0x28]),
                        _ => {
                            let at = rng.usize_below(query.len().max(1));
                            query.insert(at.min(query.len()), 0x80);
                        }
                    }
                    if std::str::from_utf8(&query).is_err() {
                        codes.push(3);
                        labels.push("query-utf8");
                        target = None;
                    }
                }
                3 => {
                    query = rng.pick(&UNKNOWN_PATHS).as_bytes().to_vec();
                    // one unknown path in six is long (the error text quotes it): 200 B .. 5 KiB, around 1 KiB often
                    if rng.chance(1, 6) {
                        let extra = match rng.below(3) {
                            0 => 900 + rng.usize_below(300),
                            1 => 200 + rng.usize_below(600),
                            _ => 1200 + rng.usize_below(4000),
                        };
                        query.extend(std::iter::repeat(b'x').take(extra));
                    }
                    codes.push(6);
                    labels.push("unknown-path");
                    target = None;
                }
                _ => {}
            }
        }
    }
    let built = build_body(t, token, query.len(), rng, st);
    let expect = if codes.is_empty() {
        built.expect
    } else {
        codes.sort();
        codes.dedup();
        labels.sort();
        labels.dedup();
        // Precedence follows from what a receiver can know: with an unsupported version nothing else in the frame
        // has a defined meaning, so the answer is the version error; with an unusable query there is no path to look
        // up, so an invalid query dominates "unknown path".
        if codes.contains(&1) {
            codes = vec![1];
        } else if codes.contains(&3) {
            codes = vec![3];
        }
        let label = if labels.len() == 1 { format!("reject-{}", labels[0]) } else { format!("reject-multi({})", labels.join("+")) };
        Expect { label, allowed: codes, dispatched: false, invoked: false, body: ExpBody::Open }
    };
    Req {
        id: id_of(token),
        token,
        version,
        // the notify flag is a byte; only the value 1 marks a notification for the dispatcher, every other value is a request that
        // must be answered — identically on every transport and dispatch path
        notify: if rng.chance(1, 4) { 1 } else if rng.chance(1, 12) { *rng.pick(&[2u8, 3, 0x80, 255]) } else { 0 },
        qf,
        query,
        bf: built.bf,
        body: built.body,
        target,
        variant: built.variant,
        expect,
        reflect: None,
    }
}

pub fn gen_seq(seq: u64, rng: &mut Rng, st: &mut GenStats) -> Vec<Req> {
    let len = match rng.below(8) {
        0 => 64,
        1 => 1 + rng.usize_below(4),
        _ => 1 + rng.usize_below(64),
    };
    (0..len).map(|i| gen_req(seq * 256 + i as u64 + 1, rng, st)).collect()
}

// ------------------------------------------------------------------ error texts that quote long non-ASCII caller text

/// Every way found to make the library quote caller-chosen text in an error text. Whether a kind really is
/// quoted (and with how many bytes around it) is measured at run time with a short probe, never assumed.
pub const REFLECT_KINDS: [&str; 5] = [
    "unknown-path",
    "handler-message",
    "erased-server-error",
    "decode-invalid-type",
    "decode-invalid-type-beve",
];

/// Length landmarks of the error text (power-of-two style caps someone might introduce).
pub const LANDMARKS_QUICK: [usize; 5] = [256, 1024, 4096, 8192, 65536];
pub const LANDMARKS_THOROUGH: [usize; 10] = [128, 256, 512, 1024, 2048, 4096, 8192, 16384, 32768, 65536];

const W2: [char; 4] = ['é', 'ß', 'я', 'ñ'];
const W3: [char; 4] = ['中', '✓', '€', 'あ'];
const W4: [char; 4] = ['😀', '𝄞', '🦀', '𐍈'];

/// Exactly `len` bytes of text made of `width`-byte characters (ASCII lead of `len % width` bytes so that the
/// character grid shifts with the length); width 0 = a random mix of 1..4-byte characters.
pub fn nonascii_text(len: usize, width: u8, rng: &mut Rng) -> String {
    let mut s = String::with_capacity(len + 4);
    match width {
        2 | 3 | 4 => {
            let w = width as usize;
            for _ in 0..len % w {
                s.push('x');
            }
            let set: &[char; 4] = match width {
                2 => &W2,
                3 => &W3,
                _ => &W4,
            };
            let start = rng.usize_below(4);
            let mut k = 0usize;
            while s.len() + w <= len {
                s.push(set[(start + k) % 4]);
                k += 1;
            }
        }
        _ => {
            while s.len() < len {
                let room = len - s.len();
                let w = (1 + rng.usize_below(4)).min(room);
                s.push(match w {
                    1 => *rng.pick(&['x', 'y', '_', '7']),
                    2 => *rng.pick(&W2),
                    3 => *rng.pick(&W3),
                    _ => *rng.pick(&W4),
                });
            }
        }
    }
    debug_assert_eq!(s.len(), len);
    s
}

const HM_TARGETS: [T; 10] = [T::Json, T::JCtx, T::BJson, T::BJCtx, T::Typed, T::TCtx, T::BTyped, T::BTCtx, T::Jth, T::RegFn];
const DEC_TARGETS: [T; 6] = [T::Typed, T::TCtx, T::BTyped, T::BTCtx, T::Jth, T::StEcho];

/// Number of sub-variants of a kind whose error text may be worded differently (route kind, error code name).
pub fn reflect_subs(kind: &str) -> usize {
    match kind {
        "unknown-path" => 1,
        "handler-message" => HM_TARGETS.len(),
        "erased-server-error" => CODES.len(),
        _ => DEC_TARGETS.len(),
    }
}

/// One request whose error response quotes `text` (if the library quotes this kind at all).
pub fn reflect_req(token: u64, kind: &'static str, sub: usize, text: &str, aimed_len: usize, boundary: usize, width: u8, rng: &mut Rng, st: &mut GenStats) -> Req {
    let label = format!("non-ascii-error-text:{kind}");
    let plain = Tin { t: token, op: 0, c: 0, pad: String::new() };
    let (query, bf, body, target, variant, allowed, dispatched, invoked): (Vec<u8>, u16, Vec<u8>, Option<T>, &'static str, Vec<u32>, bool, bool) = match kind {
        "unknown-path" => (format!("/{text}").into_bytes(), 2, enc(2, &plain), None, "long-non-ascii-path", vec![6], false, false),
        "handler-message" => {
            let t = HM_TARGETS[sub % HM_TARGETS.len()];
            let c = rng.below(CODES.len() as u64) as u8;
            let r = Tin { t: token, op: OP_ERR_PAD, c, pad: text.to_string() };
            let bf = *rng.pick(&[2u16, 2, 1, 3]);
            (t.path().as_bytes().to_vec(), bf, enc(bf, &r), Some(t), "handler-returns-text", vec![code_of(c) as u32], true, true)
        }
        "erased-server-error" => {
            let c = (sub % CODES.len()) as u8;
            let mut body = token.to_le_bytes().to_vec();
            body.push(ERASED_OP_ERR_PAYLOAD);
            body.push(c);
            body.extend_from_slice(text.as_bytes());
            (T::Erased.path().as_bytes().to_vec(), *rng.pick(&BF_ALL), body, Some(T::Erased), "returns-err-with-text", vec![code_of(c) as u32], true, true)
        }
        _ => {
            // a string where the record wants a number: serde's "invalid type" message quotes the string
            let t = DEC_TARGETS[sub % DEC_TARGETS.len()];
            let v = json!({"t": text, "op": 0, "c": 0, "pad": "", "tok": token});
            let (bf, body) = if kind == "decode-invalid-type-beve" { (1u16, beve::to_vec(&v).unwrap()) } else { (*rng.pick(&[2u16, 2, 3]), serde_json::to_vec(&v).unwrap()) };
            let fam = if t == T::StEcho { Fam::StMethod } else { Fam::Typed };
            if decodes(fam, t, bf, &body) {
                st.classifier_disagreements += 1;
            }
            (t.path().as_bytes().to_vec(), bf, body, Some(t), "string-for-number", vec![4, 5], true, false)
        }
    };
    Req {
        id: id_of(token),
        token,
        version: 1,
        notify: 0,
        qf: 1,
        query,
        bf,
        body,
        target,
        variant,
        expect: Expect { label, allowed, dispatched, invoked, body: ExpBody::Open },
        reflect: Some(Reflect { kind, sub, needle: text.as_bytes().to_vec(), aimed_len, boundary, width }),
    }
}

/// The probe pipeline: one short request per (kind, sub-variant) carrying a distinctive non-ASCII marker.
pub fn reflect_probe_seq(seq: u64, rng: &mut Rng, st: &mut GenStats) -> Vec<Req> {
    let mut v = vec![];
    for k in REFLECT_KINDS {
        for sub in 0..reflect_subs(k) {
            let i = v.len();
            v.push(reflect_req(seq * 256 + i as u64 + 1, k, sub, &format!("Zq\u{e9}\u{4e2d}\u{1f600}mark{i}"), 0, 0, 0, rng, st));
        }
    }
    v
}

/// Pipelines (<= 64 requests) mixing ordinary generated requests with requests aimed at error texts of
/// `landmark - w - 1 ..= landmark + w + 1` bytes for every character width w (and a mixed-width filler), so that a
/// landmark byte offset falls on every position inside a character, and the text is one byte short of, exactly at
/// and past the landmark. `overhead[kind]` = bytes the library adds around the quoted text (from the probe).
pub fn reflect_seqs(seq_base: u64, rng: &mut Rng, st: &mut GenStats, overhead: &[(&'static str, Vec<Option<usize>>)], landmarks: &[usize], spread: usize) -> Vec<(u64, Vec<Req>)> {
    // (kind, sub, text_len, aimed_len, landmark, width)
    let mut plan: Vec<(&'static str, usize, usize, usize, usize, u8)> = vec![];
    for (kind, ovs) in overhead {
        let subs: Vec<(usize, usize)> = ovs.iter().enumerate().filter_map(|(i, o)| o.map(|o| (i, o))).collect();
        if subs.is_empty() {
            continue;
        }
        // serde_json appends "at line 1 column N": N grows with the text, so the measured bytes-around-quote is a few short
        let slack = if *kind == "decode-invalid-type" { 3 } else { 0 };
        for &b in landmarks {
            for w in [2u8, 3, 4, 0] {
                let wmax = if w == 0 { 2 } else { w as usize } + 1 + spread + slack;
                for aimed in b - wmax..=b + wmax {
                    let (sub, ov) = *rng.pick(&subs);
                    if aimed > ov + 8 {
                        plan.push((kind, sub, aimed - ov, aimed, b, w));
                    }
                }
            }
        }
    }
    rng.shuffle(&mut plan);
    let mut out = vec![];
    let mut it = plan.into_iter().peekable();
    let mut seq = seq_base;
    while it.peek().is_some() {
        let mut reqs: Vec<Req> = vec![];
        let mut bytes = 0usize;
        let mut tok = seq * 256 + 1;
        let cap = 8 + rng.usize_below(50);
        while reqs.len() + 3 < cap && bytes < 400_000 {
            let Some((kind, sub, tlen, aimed, b, w)) = it.next() else { break };
            for _ in 0..rng.usize_below(3) {
                reqs.push(gen_req(tok, rng, st));
                tok += 1;
            }
            let text = nonascii_text(tlen, w, rng);
            let r = reflect_req(tok, kind, sub, &text, aimed, b, w, rng, st);
            tok += 1;
            bytes += r.query.len() + r.body.len();
            reqs.push(r);
        }
        // always something ordinary pipelined behind the last quoted text
        for _ in 0..1 + rng.usize_below(2) {
            reqs.push(gen_req(tok, rng, st));
            tok += 1;
        }
        out.push((seq, reqs));
        seq += 1;
    }
    out
}

// ------------------------------------------------------------------ results that fail to serialize part-way

/// One well-formed request to a kind that answers with the `Tout` record. `fail` != 0 (kinds that return the record
/// itself): the handler's result cannot be serialized. `op` selects the response format of the with_typed* kinds.
pub fn record_req(token: u64, t: T, op: u8, fail: u8, notify: u8, rng: &mut Rng) -> Req {
    let typed_formats = matches!(t, T::Typed | T::TCtx | T::BTyped | T::BTCtx);
    let fail = if returns_record(t) { fail } else { 0 };
    let r = Tin { t: token, op: if typed_formats { op } else { 0 }, c: fail << 4, pad: pad(rng) };
    let bf = *rng.pick(&[2u16, 2, 2, 1, 3]);
    Req {
        id: id_of(token),
        token,
        version: 1,
        notify,
        qf: 1,
        query: t.path().as_bytes().to_vec(),
        bf,
        body: enc(bf, &r),
        target: Some(t),
        variant: fail_name(fail),
        expect: handler_outcome(t, &r, typed_formats),
        reflect: None,
    }
}

const RECORD_KINDS: [T; 6] = [T::Typed, T::TCtx, T::BTyped, T::BTCtx, T::Jth, T::StEcho];
const PLAIN_KINDS: [T; 11] = [T::Json, T::JCtx, T::BJson, T::BJCtx, T::Typed, T::TCtx, T::BTyped, T::BTCtx, T::Jth, T::StEcho, T::RegFn];

#[derive(Clone, Copy, PartialEq, Eq, Debug, Hash)]
pub enum SerRole {
    /// the pipeline itself contains requests whose result fails to serialize
    Failing,
    /// only ordinary requests; runs on other connections of the same servers at the same time
    Bystander,
}

/// Groups of pipelines that run concurrently on the same servers: one or two pipelines in which requests whose RESULT
/// fails to serialize part-way (every fail mode x JSON / BEVE / UTF-8 / raw response format x every kind that returns the
/// record, notify 0 and 1) alternate with ordinary requests, next to bystander pipelines of ordinary requests only.
pub fn ser_groups(seq_base: u64, rng: &mut Rng, groups: usize) -> Vec<Vec<(u64, SerRole, Vec<Req>)>> {
    let mut out = vec![];
    let mut seq = seq_base;
    let mut combo = 0usize;
    for g in 0..groups {
        let mut group = vec![];
        let n_fail = 1 + (g % 2);
        for k in 0..n_fail + 3 {
            let role = if k < n_fail { SerRole::Failing } else { SerRole::Bystander };
            let len = match rng.below(4) {
                0 => 64,
                1 => 2 + rng.usize_below(6),
                _ => 8 + rng.usize_below(56),
            };
            let mut reqs = vec![];
            let mut tok = seq * 256 + 1;
            while reqs.len() < len {
                let failing = role == SerRole::Failing && (reqs.is_empty() || rng.chance(2, 5));
                if failing {
                    // walk the (kind, fail mode, response format) product so that every cell comes up early
                    let t = RECORD_KINDS[combo % 6];
                    let fail = FAIL_MODES[(combo / 6) % 4];
                    let op = [0u8, 3, 4, 5, 2][(combo / 24) % 5];
                    combo += 1 + rng.usize_below(3);
                    reqs.push(record_req(tok, t, op, fail, if rng.chance(1, 5) { 1 } else { 0 }, rng));
                } else {
                    let t = *rng.pick(&PLAIN_KINDS);
                    // mostly JSON-answered; some BEVE / UTF-8 / raw answers of the with_typed* kinds
                    let op = *rng.pick(&[0u8, 0, 0, 0, 2, 3, 4, 5]);
                    reqs.push(record_req(tok, t, op, 0, if rng.chance(1, 8) { 1 } else { 0 }, rng));
                }
                tok += 1;
            }
            if role == SerRole::Failing {
                reqs.truncate(62);
                if k == 0 && g % 4 < 2 {
                    // the connection ENDS with a failed JSON serialization (whatever it left behind on the serving thread
                    // meets another connection next)
                    let t = RECORD_KINDS[combo % 6];
                    let fail = FAIL_MODES[(combo / 6) % 3];
                    combo += 1;
                    reqs.push(record_req(tok, t, 0, fail, (g % 4) as u8, rng));
                } else {
                    // something ordinary (JSON-answered) right behind the last failed serialization
                    for _ in 0..1 + rng.usize_below(2) {
                        let t = *rng.pick(&PLAIN_KINDS);
                        reqs.push(record_req(tok, t, 0, 0, 0, rng));
                        tok += 1;
                    }
                }
            }
            group.push((seq, role, reqs));
            seq += 1;
        }
        out.push(group);
    }
    out
}

// ------------------------------------------------------------------ pipelines for servers whose outbound path backs up (c03_bp.rs)

/// Kinds that echo the request's pad / payload, so that a large request yields a large response.
const BIG_KINDS: [T; 11] = [T::Json, T::JCtx, T::Typed, T::TCtx, T::Jth, T::StEcho, T::RegFn, T::Erased, T::Erased, T::BJson, T::BTyped];

/// One well-formed request whose response carries about `size` bytes.
pub fn big_req(token: u64, size: usize, notify: u8, rng: &mut Rng) -> Req {
    let t = *rng.pick(&BIG_KINDS);
    let (bf, body, variant, expect): (u16, Vec<u8>, &'static str, Expect) = if t == T::Erased {
        let bf = *rng.pick(&BF_ALL);
        let op = *rng.pick(&[0u8, 1, 4]);
        let mut body = token.to_le_bytes().to_vec();
        body.push(op);
        body.push(0);
        body.extend(rng.bytes(size));
        let e = match erased_spec(1, bf, &body) {
            Some((ec, qf, rbf, q, b)) => exp(if ec == 0 { "ok" } else { "handler-error" }, t, vec![ec], true, ExpBody::Exact { qf, bf: rbf, query: q, body: b }),
            None => exp("handler-error", t, vec![code_of(0) as u32], true, ExpBody::Open),
        };
        (bf, body, "large-payload", e)
    } else {
        let typed_formats = matches!(t, T::Typed | T::TCtx | T::BTyped | T::BTCtx);
        const A: &[u8] = b"abcdefghijklmnopqrstuvwxyz0123456789 _-/~";
        let start = rng.usize_below(A.len());
        let pad: String = (0..size).map(|i| A[(start + i) % A.len()] as char).collect();
        let r = Tin { t: token, op: if typed_formats { *rng.pick(&[0u8, 0, 3, 4, 5]) } else { 0 }, c: 0, pad };
        let bf = if t == T::RegFn { 2 } else { *rng.pick(&[2u16, 2, 1]) };
        (bf, enc(bf, &r), "large-pad", handler_outcome(t, &r, typed_formats))
    };
    Req { id: id_of(token), token, version: 1, notify, qf: 1, query: t.path().as_bytes().to_vec(), bf, body, target: Some(t), variant, expect, reflect: None }
}

/// A generated request of the wanted class (bounded retries; whatever came last otherwise).
fn gen_req_where(token: u64, rng: &mut Rng, st: &mut GenStats, want: impl Fn(&Req) -> bool) -> Req {
    let mut r = gen_req(token, rng, st);
    for _ in 0..400 {
        if want(&r) {
            break;
        }
        r = gen_req(token, rng, st);
    }
    r
}

const REJECT_CLASSES: [&str; 5] = ["reject-version", "reject-query-format", "reject-query-utf8", "reject-unknown-path", "reject-multi"];

/// A non-notify request that is rejected before dispatch, of the `k`-th reject class.
pub fn rejected_req(token: u64, k: usize, rng: &mut Rng, st: &mut GenStats) -> Req {
    let class = REJECT_CLASSES[k % REJECT_CLASSES.len()];
    gen_req_where(token, rng, st, |r| !r.expect.dispatched && r.notify != 1 && r.expect.label.starts_with(class))
}

/// A non-notify request that is dispatched to a handler registered the plain way (answered on the connection's reader).
pub fn inline_req(token: u64, rng: &mut Rng, st: &mut GenStats) -> Req {
    gen_req_where(token, rng, st, |r| r.expect.dispatched && r.notify != 1 && r.target.map(|t| !t.blocking_variant()).unwrap_or(false))
}

/// One pipeline (<= 64 requests) for a server whose outbound queue is short: requests answered on the reader with small
/// and large (10..400 KiB) responses, every class of rejected request, notifies and (the /b/ kinds; every kind on the
/// off-reader servers) requests answered off the reader. Returns (style, requests).
pub fn bp_seq(seq: u64, rng: &mut Rng, st: &mut GenStats) -> (&'static str, Vec<Req>) {
    let mut tok = seq * 256;
    let mut next = || {
        tok += 1;
        tok
    };
    let mut big_budget = 1_400_000usize;
    let big = |rng: &mut Rng, token: u64, budget: &mut usize| -> Option<Req> {
        let size = match rng.below(3) {
            0 => 10_000 + rng.usize_below(30_000),
            1 => 40_000 + rng.usize_below(110_000),
            _ => 150_000 + rng.usize_below(250_000),
        };
        if size > *budget {
            return None;
        }
        *budget -= size;
        Some(big_req(token, size, if rng.chance(1, 10) { 1 } else { 0 }, rng))
    };
    let mut reqs = vec![];
    let style = match rng.below(5) {
        0 | 1 => {
            // answered-on-the-reader / rejected alternating (every reject class in turn), notifies and others in between
            let len = 3 + rng.usize_below(62);
            let mut k = rng.usize_below(5);
            while reqs.len() < len {
                match rng.below(10) {
                    0 => reqs.push(gen_req(next(), rng, st)),
                    1 => {
                        if let Some(r) = big(rng, next(), &mut big_budget) {
                            reqs.push(r);
                        }
                    }
                    _ => {
                        reqs.push(inline_req(next(), rng, st));
                        for _ in 0..1 + rng.usize_below(2) {
                            reqs.push(rejected_req(next(), k, rng, st));
                            k += 1;
                        }
                    }
                }
            }
            reqs.truncate(64);
            "alternating"
        }
        2 => {
            // some large responses first, then a dense mix
            for _ in 0..2 + rng.usize_below(5) {
                if let Some(r) = big(rng, next(), &mut big_budget) {
                    reqs.push(r);
                }
            }
            let len = reqs.len() + 2 + rng.usize_below(40);
            let mut k = rng.usize_below(5);
            while reqs.len() < len {
                if rng.chance(1, 3) {
                    reqs.push(rejected_req(next(), k, rng, st));
                    k += 1;
                } else {
                    reqs.push(gen_req(next(), rng, st));
                }
            }
            "large-first"
        }
        s => {
            let len = if s == 3 { 64 } else { 1 + rng.usize_below(64) };
            while reqs.len() < len {
                if rng.chance(1, 8) {
                    if let Some(r) = big(rng, next(), &mut big_budget) {
                        reqs.push(r);
                        continue;
                    }
                }
                reqs.push(gen_req(next(), rng, st));
            }
            "mixed"
        }
    };
    (style, reqs)
}

// ------------------------------------------------------------------ re-entrant handlers (c03_re.rs)

/// One well-formed request to a handler that re-enters the state it is served from (`t` in REENT_FN_T), or a plain value
/// read / write on the same registry (`T::RrConst`, `T::RrW`).
pub fn reent_req(token: u64, t: T, notify: u8, rng: &mut Rng) -> Req {
    let r = Tin { t: token, op: if rng.chance(1, 8) { 1 } else { 0 }, c: rng.below(CODES.len() as u64) as u8, pad: pad(rng) };
    let (bf, body, variant, expect): (u16, Vec<u8>, &'static str, Expect) = match t {
        T::RrConst => (*rng.pick(&BF_ALL), vec![], "read", exp("ok", t, vec![0], false, ExpBody::Json(rr_const()))),
        T::RrW => (2, enc(2, &r), "write", exp("ok", t, vec![0], false, ExpBody::Json(json!({"status": "ok", "path": "/w"})))),
        T::PeerReg => {
            let bf = *rng.pick(&[2u16, 2, 1, 3]);
            (bf, enc(bf, &r), "calls-into-peer-registry", handler_outcome(t, &r, false))
        }
        _ => {
            // registry function call: JSON / BEVE value, or the JSON text as UTF-8 / raw bytes (the function parses it)
            let bf = *rng.pick(&[2u16, 2, 2, 1, 3, 0]);
            (bf, enc(bf, &r), "re-enters-own-registry", handler_outcome(t, &r, false))
        }
    };
    Req { id: id_of(token), token, version: 1, notify, qf: 1, query: t.path().as_bytes().to_vec(), bf, body, target: Some(t), variant, expect, reflect: None }
}

#[derive(Clone, Copy, PartialEq, Eq, Debug, Hash)]
pub enum ReRole {
    /// the pipeline calls re-entrant handlers, with ordinary requests before, between and behind them
    Reentrant,
    /// plain reads / writes of the same registry and ordinary requests only, on other connections at the same time
    Bystander,
}

/// Pipelines that run concurrently on the same servers. Every re-entrant kind comes up in the first few pipelines.
pub fn reent_pipelines(seq_base: u64, rng: &mut Rng, st: &mut GenStats, n: usize) -> Vec<(u64, ReRole, Vec<Req>)> {
    let mut out = vec![];
    let mut k = rng.usize_below(REENT_FN_T.len());
    for i in 0..n {
        let seq = seq_base + i as u64;
        let role = if i % 3 == 2 { ReRole::Bystander } else { ReRole::Reentrant };
        let mut tok = seq * 256;
        let mut next = || {
            tok += 1;
            tok
        };
        let mut reqs = vec![];
        let len = match rng.below(3) {
            0 => 2 + rng.usize_below(5),
            _ => 6 + rng.usize_below(40),
        };
        if role == ReRole::Reentrant {
            for _ in 0..rng.usize_below(3) {
                reqs.push(gen_req(next(), rng, st));
            }
        }
        while reqs.len() < len {
            match (role, rng.below(10)) {
                (ReRole::Reentrant, 0..=4) => {
                    let t = REENT_FN_T[k % REENT_FN_T.len()];
                    k += 1;
                    reqs.push(reent_req(next(), t, if rng.chance(1, 6) { 1 } else { 0 }, rng));
                }
                (_, 5 | 6) => reqs.push(reent_req(next(), if rng.coin() { T::RrConst } else { T::RrW }, if rng.chance(1, 8) { 1 } else { 0 }, rng)),
                (ReRole::Bystander, 0 | 1) => reqs.push(reent_req(next(), T::RrConst, 0, rng)),
                _ => reqs.push(gen_req(next(), rng, st)),
            }
        }
        // always something ordinary answered behind the last re-entrant call
        reqs.push(inline_req(next(), rng, st));
        out.push((seq, role, reqs));
    }
    out
}
