//! C05 scripted raw peers: they record every byte (TCP) / every message (WebSocket) the endpoint
//! under test writes, stall at seeded points, answer calls through oracle.rs, never through repe.

use crate::common::Rng;
use crate::oracle::{self, HDR, SpecHeader};
use futures_util::stream::{SplitSink, SplitStream};
use futures_util::{SinkExt, StreamExt};
use std::io::{Read, Write};
use std::net::{TcpListener, TcpStream};
use std::os::fd::AsRawFd;
use std::sync::atomic::{AtomicBool, AtomicU64, Ordering::SeqCst};
use std::sync::{Arc, Mutex};
use std::time::{Duration, Instant};
use tokio_tungstenite::WebSocketStream;
use tokio_tungstenite::tungstenite::Message as WsMsg;
use tokio_tungstenite::tungstenite::protocol::WebSocketConfig;

pub const HOLD: u64 = u64::MAX;

/// Shared between a scenario and its recording peer.
#[derive(Default)]
pub struct Ctl {
    /// bytes recorded so far (TCP: raw bytes; WebSocket: payload bytes of binary messages)
    pub bytes: AtomicU64,
    /// complete frames counted online from declared lengths (TCP) / binary messages (WebSocket)
    pub frames: AtomicU64,
    pub desync: AtomicBool,
    /// (at_bytes, ms) — stall for `ms` once `bytes >= at_bytes`; ms == HOLD: until `released`
    pub plan: Mutex<Vec<(u64, u64)>>,
    pub released: AtomicBool,
    pub stalled: AtomicBool,
    pub stalls_taken: AtomicU64,
    pub stop: AtomicBool,
    pub quiet_ms: AtomicU64,
    pub done: AtomicBool,
}

impl Ctl {
    pub fn new() -> Arc<Ctl> {
        let c = Ctl::default();
        c.quiet_ms.store(300, SeqCst);
        Arc::new(c)
    }
    pub fn hold_at(&self, at: u64) {
        self.released.store(false, SeqCst);
        self.plan.lock().unwrap().push((at, HOLD));
    }
    pub fn release(&self) {
        self.released.store(true, SeqCst);
    }
    pub fn finish_when_quiet(&self, quiet_ms: u64) {
        self.quiet_ms.store(quiet_ms, SeqCst);
        self.stop.store(true, SeqCst);
    }
    fn due(&self, have: u64) -> Option<u64> {
        let mut p = self.plan.lock().unwrap();
        if let Some(&(at, ms)) = p.first() {
            if have >= at {
                p.remove(0);
                return Some(ms);
            }
        }
        None
    }
    fn next_at(&self) -> Option<u64> {
        self.plan.lock().unwrap().first().map(|x| x.0)
    }
}

#[derive(Debug, Clone)]
pub enum End {
    Eof,
    Error(String),
    /// WebSocket peers: the bytes the endpoint wrote are not a valid sequence of WebSocket messages (a data frame inside an
    /// unfinished fragmented message, a stray continuation frame, reserved bits, bad opcodes ...). This is the WebSocket form of
    /// "something follows a partial frame" and is judged, unlike a reset or an abrupt close.
    CorruptWsStream(String),
    Quiet,
    Deadline,
}

impl End {
    pub fn clean(&self) -> bool {
        matches!(self, End::Eof | End::Quiet)
    }
}

pub enum WsItem {
    Bin(Vec<u8>),
    Other(String),
}

pub enum Record {
    Stream(Vec<u8>),
    Msgs(Vec<WsItem>),
}

pub fn set_sockbuf(fd: i32, opt: libc::c_int, bytes: usize) {
    let v = bytes as libc::c_int;
    unsafe {
        libc::setsockopt(fd, libc::SOL_SOCKET, opt, &v as *const _ as *const libc::c_void, std::mem::size_of::<libc::c_int>() as libc::socklen_t);
    }
}

pub fn listener(rcvbuf: Option<usize>, sndbuf: Option<usize>) -> std::io::Result<(TcpListener, std::net::SocketAddr)> {
    let l = TcpListener::bind("127.0.0.1:0")?;
    if let Some(b) = rcvbuf {
        set_sockbuf(l.as_raw_fd(), libc::SO_RCVBUF, b);
    }
    if let Some(b) = sndbuf {
        set_sockbuf(l.as_raw_fd(), libc::SO_SNDBUF, b);
    }
    let a = l.local_addr()?;
    Ok((l, a))
}

pub fn accept_deadline(l: &TcpListener, d: Duration) -> Option<TcpStream> {
    l.set_nonblocking(true).ok()?;
    let t0 = Instant::now();
    loop {
        match l.accept() {
            Ok((s, _)) => {
                s.set_nonblocking(false).ok()?;
                s.set_nodelay(true).ok();
                return Some(s);
            }
            Err(e) if e.kind() == std::io::ErrorKind::WouldBlock => {
                if t0.elapsed() > d {
                    return None;
                }
                std::thread::sleep(Duration::from_millis(2));
            }
            Err(_) => return None,
        }
    }
}

fn stall(ctl: &Ctl, ms: u64) {
    ctl.stalls_taken.fetch_add(1, SeqCst);
    if ms == HOLD {
        ctl.stalled.store(true, SeqCst);
        let t0 = Instant::now();
        while !ctl.released.load(SeqCst) && !ctl.stop.load(SeqCst) && t0.elapsed() < Duration::from_secs(40) {
            std::thread::sleep(Duration::from_millis(2));
        }
        ctl.stalled.store(false, SeqCst);
    } else {
        std::thread::sleep(Duration::from_millis(ms));
    }
}

fn response_for(h: &SpecHeader, query: &[u8]) -> Vec<u8> {
    oracle::frame(
        SpecHeader { spec: oracle::SPEC, version: 1, id: h.id, query_format: h.query_format, body_format: 3, ..Default::default() },
        query,
        b"ok",
    )
}

/// Blocking TCP recorder. Records until EOF / error / (stop requested and quiet) / wall deadline.
pub fn tcp_recorder(mut s: TcpStream, ctl: Arc<Ctl>, respond: bool, mut rng: Rng, max_wall: Duration) -> (Vec<u8>, End) {
    let _ = s.set_read_timeout(Some(Duration::from_millis(20)));
    let mut wr = if respond { s.try_clone().ok() } else { None };
    if let Some(w) = &wr {
        let _ = w.set_write_timeout(Some(Duration::from_secs(2)));
    }
    let mut rec: Vec<u8> = Vec::new();
    let mut buf = vec![0u8; 1 << 16];
    let mut cursor = 0usize;
    let start = Instant::now();
    let mut last_data = Instant::now();
    let chunk_mode = rng.below(3);
    let end = loop {
        while let Some(ms) = ctl.due(rec.len() as u64) {
            stall(&ctl, ms);
            last_data = Instant::now();
        }
        if start.elapsed() > max_wall {
            break End::Deadline;
        }
        let mut want = match chunk_mode {
            0 => buf.len(),
            1 => 1 + rng.usize_below(buf.len()),
            _ => 1 + rng.usize_below(4096),
        };
        if let Some(at) = ctl.next_at() {
            if at > rec.len() as u64 {
                want = want.min((at - rec.len() as u64) as usize);
            }
        }
        match s.read(&mut buf[..want]) {
            Ok(0) => break End::Eof,
            Ok(n) => {
                rec.extend_from_slice(&buf[..n]);
                ctl.bytes.store(rec.len() as u64, SeqCst);
                last_data = Instant::now();
                // online parse from declared lengths only: count frames, answer calls
                while !ctl.desync.load(SeqCst) {
                    if rec.len() - cursor < HDR {
                        break;
                    }
                    let h = SpecHeader::decode(&rec[cursor..]);
                    if !h.consistent() || h.length > (1 << 36) {
                        ctl.desync.store(true, SeqCst);
                        break;
                    }
                    let total = h.length as usize;
                    if rec.len() - cursor < total {
                        break;
                    }
                    ctl.frames.fetch_add(1, SeqCst);
                    if h.notify == 0 {
                        if let Some(w) = wr.as_mut() {
                            let q = &rec[cursor + HDR..cursor + HDR + h.query_length as usize];
                            if w.write_all(&response_for(&h, q)).is_err() {
                                wr = None;
                            }
                        }
                    }
                    cursor += total;
                }
            }
            Err(e) if matches!(e.kind(), std::io::ErrorKind::WouldBlock | std::io::ErrorKind::TimedOut) => {
                if ctl.stop.load(SeqCst) && last_data.elapsed() >= Duration::from_millis(ctl.quiet_ms.load(SeqCst)) {
                    break End::Quiet;
                }
            }
            Err(e) if e.kind() == std::io::ErrorKind::Interrupted => {}
            Err(e) => break End::Error(e.to_string()),
        }
    };
    ctl.done.store(true, SeqCst);
    (rec, end)
}

pub fn ws_config() -> WebSocketConfig {
    let mut c = WebSocketConfig::default();
    c.max_message_size = None;
    c.max_frame_size = None;
    c
}

pub type WsS = WebSocketStream<tokio::net::TcpStream>;

/// WebSocket recorder: one entry per message. `wr` present → answers calls.
pub async fn ws_recorder(mut rd: SplitStream<WsS>, mut wr: Option<SplitSink<WsS, WsMsg>>, ctl: Arc<Ctl>, max_wall: Duration) -> (Vec<WsItem>, End) {
    let mut items = vec![];
    let mut total = 0u64;
    let start = Instant::now();
    let mut last_data = Instant::now();
    let end = loop {
        while let Some(ms) = ctl.due(total) {
            ctl.stalls_taken.fetch_add(1, SeqCst);
            if ms == HOLD {
                ctl.stalled.store(true, SeqCst);
                let t0 = Instant::now();
                while !ctl.released.load(SeqCst) && !ctl.stop.load(SeqCst) && t0.elapsed() < Duration::from_secs(40) {
                    tokio::time::sleep(Duration::from_millis(2)).await;
                }
                ctl.stalled.store(false, SeqCst);
            } else {
                tokio::time::sleep(Duration::from_millis(ms)).await;
            }
            last_data = Instant::now();
        }
        if start.elapsed() > max_wall {
            break End::Deadline;
        }
        match tokio::time::timeout(Duration::from_millis(20), rd.next()).await {
            Err(_) => {
                if ctl.stop.load(SeqCst) && last_data.elapsed() >= Duration::from_millis(ctl.quiet_ms.load(SeqCst)) {
                    break End::Quiet;
                }
            }
            Ok(None) => break End::Eof,
            Ok(Some(Ok(WsMsg::Binary(p)))) => {
                last_data = Instant::now();
                total += p.len() as u64;
                if let Some((h, ql, _)) = oracle::valid_parse(&p, true) {
                    if h.notify == 0 {
                        if let Some(w) = wr.as_mut() {
                            let resp = response_for(&h, &p[HDR..HDR + ql]);
                            match tokio::time::timeout(Duration::from_secs(2), w.send(WsMsg::Binary(resp))).await {
                                Ok(Ok(())) => {}
                                _ => wr = None,
                            }
                        }
                    }
                }
                items.push(WsItem::Bin(p));
                ctl.bytes.store(total, SeqCst);
                ctl.frames.fetch_add(1, SeqCst);
            }
            Ok(Some(Ok(WsMsg::Close(_)))) => {}
            Ok(Some(Ok(WsMsg::Ping(_)))) | Ok(Some(Ok(WsMsg::Pong(_)))) => {}
            Ok(Some(Ok(other))) => {
                last_data = Instant::now();
                items.push(WsItem::Other(format!("{other:?}").chars().take(80).collect()));
            }
            Ok(Some(Err(e))) => {
                use tokio_tungstenite::tungstenite::Error as E;
                use tokio_tungstenite::tungstenite::error::ProtocolError as P;
                break match e {
                    E::ConnectionClosed | E::AlreadyClosed => End::Eof,
                    E::Protocol(p @ (P::ExpectedFragment(_) | P::UnexpectedContinueFrame | P::NonZeroReservedBits | P::FragmentedControlFrame | P::ControlFrameTooBig | P::UnknownControlFrameType(_) | P::UnknownDataFrameType(_) | P::InvalidOpcode(_))) => End::CorruptWsStream(p.to_string()),
                    other => End::Error(other.to_string()),
                };
            }
        }
    };
    ctl.done.store(true, SeqCst);
    (items, end)
}

/// Poll `cond` every 2 ms until true or `max` elapsed.
pub fn wait_until(max: Duration, mut cond: impl FnMut() -> bool) -> bool {
    let t0 = Instant::now();
    loop {
        if cond() {
            return true;
        }
        if t0.elapsed() > max {
            return false;
        }
        std::thread::sleep(Duration::from_millis(2));
    }
}

pub async fn wait_until_async(max: Duration, mut cond: impl FnMut() -> bool) -> bool {
    let t0 = Instant::now();
    loop {
        if cond() {
            return true;
        }
        if t0.elapsed() > max {
            return false;
        }
        tokio::time::sleep(Duration::from_millis(2)).await;
    }
}

/// Wait until the recorder saw no new bytes for `quiet` (or is done), at most `max`.
pub fn wait_quiet(ctl: &Ctl, quiet: Duration, max: Duration) {
    let t0 = Instant::now();
    let mut last = ctl.bytes.load(SeqCst);
    let mut since = Instant::now();
    while t0.elapsed() < max && !ctl.done.load(SeqCst) {
        std::thread::sleep(Duration::from_millis(5));
        let b = ctl.bytes.load(SeqCst);
        if b != last {
            last = b;
            since = Instant::now();
        } else if since.elapsed() >= quiet {
            return;
        }
    }
}

pub async fn wait_quiet_async(ctl: &Ctl, quiet: Duration, max: Duration) {
    let t0 = Instant::now();
    let mut last = ctl.bytes.load(SeqCst);
    let mut since = Instant::now();
    while t0.elapsed() < max && !ctl.done.load(SeqCst) {
        tokio::time::sleep(Duration::from_millis(5)).await;
        let b = ctl.bytes.load(SeqCst);
        if b != last {
            last = b;
            since = Instant::now();
        } else if since.elapsed() >= quiet {
            return;
        }
    }
}

/// A recording peer running on a thread (TCP) or a runtime task (WebSocket).
pub enum PeerJoin {
    Thread(std::thread::JoinHandle<Option<(Vec<u8>, End)>>),
    Task(tokio::task::JoinHandle<Option<(Vec<WsItem>, End)>>),
}

impl PeerJoin {
    /// Wait for the recorder: first for its natural end (EOF) for `grace`, then ask it to finish when quiet.
    pub fn finish(self, rt: &tokio::runtime::Runtime, ctl: &Ctl, grace: Duration, quiet_ms: u64) -> (Record, End, Option<String>) {
        let fin = |s: &PeerJoin| match s {
            PeerJoin::Thread(h) => h.is_finished(),
            PeerJoin::Task(h) => h.is_finished(),
        };
        if !wait_until(grace, || fin(&self)) {
            ctl.finish_when_quiet(quiet_ms);
            ctl.release();
            if !wait_until(Duration::from_secs(20), || fin(&self)) {
                let empty = match self {
                    PeerJoin::Thread(_) => Record::Stream(vec![]),
                    PeerJoin::Task(h) => {
                        h.abort();
                        Record::Msgs(vec![])
                    }
                };
                return (empty, End::Deadline, Some("recording peer did not finish within 20 s".into()));
            }
        }
        match self {
            PeerJoin::Thread(h) => match h.join() {
                Ok(Some((b, e))) => (Record::Stream(b), e, None),
                Ok(None) => (Record::Stream(vec![]), End::Deadline, Some("peer never got a connection".into())),
                Err(_) => (Record::Stream(vec![]), End::Deadline, Some("peer thread panicked".into())),
            },
            PeerJoin::Task(h) => match rt.block_on(h) {
                Ok(Some((m, e))) => (Record::Msgs(m), e, None),
                Ok(None) => (Record::Msgs(vec![]), End::Deadline, Some("ws peer never got a connection".into())),
                Err(e) => (Record::Msgs(vec![]), End::Deadline, Some(format!("ws peer task failed: {e}"))),
            },
        }
    }
}

/// Raw peer for a client endpoint: listens, accepts one connection, records, answers calls.
pub fn start_client_peer(rt: &tokio::runtime::Runtime, ws: bool, rcvbuf: Option<usize>, ctl: Arc<Ctl>, rng: Rng, max_wall: Duration) -> std::io::Result<(std::net::SocketAddr, PeerJoin)> {
    let (l, addr) = listener(rcvbuf, None)?;
    if !ws {
        let h = std::thread::spawn(move || {
            let s = accept_deadline(&l, Duration::from_secs(10))?;
            Some(tcp_recorder(s, ctl, true, rng, max_wall))
        });
        Ok((addr, PeerJoin::Thread(h)))
    } else {
        l.set_nonblocking(true)?;
        let h = rt.spawn(async move {
            let l = tokio::net::TcpListener::from_std(l).ok()?;
            let (s, _) = tokio::time::timeout(Duration::from_secs(10), l.accept()).await.ok()?.ok()?;
            let _ = s.set_nodelay(true);
            let ws = tokio_tungstenite::accept_async_with_config(s, Some(ws_config())).await.ok()?;
            let (wr, rd) = ws.split();
            Some(ws_recorder(rd, Some(wr), ctl, max_wall).await)
        });
        Ok((addr, PeerJoin::Task(h)))
    }
}

/// Join a std thread with a bound; None if it did not finish (the thread is leaked).
pub fn join_bounded<T>(h: std::thread::JoinHandle<T>, max: Duration) -> Option<T> {
    if wait_until(max, || h.is_finished()) { h.join().ok() } else { None }
}

pub fn write_all_quiet(s: &mut TcpStream, b: &[u8]) -> bool {
    s.write_all(b).is_ok()
}
