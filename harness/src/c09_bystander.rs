// C09 — bystander family (textually included into `mod imp` of c09.rs).
//
// Several connections to ONE producer. A stream id is an opaque token: nothing is assumed about how
// the server allocates it (it may or may not recycle ids). What the statement does say is that
// pulling after the end / after release is an ERROR, and that every stream delivers exactly its
// producer's bytes and ends once. A connection that finished, cancelled or abandoned a stream keeps
// talking about its (now released) id — every library puller sends a trailing best-effort
// `cancel(id)`, and a late `next(id)` is always possible — while OTHER connections open and pull
// new streams. Whatever the stale traffic, it must be answered with errors and must not touch
// anybody else's stream.
//
// The scenarios are scripts over a small model (which streams are live, which are released and
// how); one interpreter executes them against raw connections and judges every response. Stage
// `pullers` reuses the interpreter for the raw side and puts a library puller in the role of the
// connection that finished (its trailing cancel is the stale traffic) or of the bystander (paused
// between two chunk fetches while raw connections replay stale requests).

mod bystander {
    use super::*;
    use std::cell::RefCell;

    #[derive(Clone, Copy, Debug, PartialEq, Eq, Hash)]
    pub enum Rel {
        End,
        Cancel,
        Failure,
    }
    impl Rel {
        fn tag(&self) -> &'static str {
            match self {
                Rel::End => "after-end",
                Rel::Cancel => "after-cancel",
                Rel::Failure => "after-failure",
            }
        }
    }

    #[derive(Clone, Debug, PartialEq, Eq, Hash)]
    pub enum BOp {
        Open(usize),
        /// one `next` by the connection that opened the slot (live or released)
        Next(usize),
        /// cancel by the owner: request form, or (true) notify form followed by a `next` for the same id on the
        /// same connection (the server handles one connection's cancel before that `next`, so its answer is a barrier)
        Cancel(usize, bool),
        /// `next` until the stream leaves the live state
        Drain(usize),
    }

    #[derive(Clone, Copy, Debug, PartialEq, Eq, Hash)]
    enum St {
        Unopened,
        Live,
        Released(Rel),
        /// a healthy live stream answered with an error (already reported): the harness no longer knows its state
        Disturbed,
    }

    pub struct Slot {
        conn: usize,
        spec: Spec,
        expected: Vec<u8>,
        sid: u64,
        st: St,
        wire: Vec<u8>,
        chunks: Vec<(usize, bool)>,
        /// opened by a library puller (not by the interpreter): only stale traffic is sent for it
        adopted: bool,
    }

    pub struct Scn {
        pub name: &'static str,
        pub slots: Vec<(usize, Spec)>,
        pub ops: Vec<BOp>,
    }

    pub struct Model<'a> {
        cfg: &'a Cfg,
        /// the family the model works for: it names the violation signatures (`C09:<fam>:..`) and the counters (`<fam>_..`)
        fam: &'static str,
        name: &'static str,
        pub slots: Vec<Slot>,
        /// ids a cancel was sent for after their stream had been released
        stale_cancel_ids: Vec<u64>,
        /// what else was going on (appended to the report of a live stream that was answered with an error)
        pub context: String,
        log: Vec<String>,
        /// the most recent exchanges once `log` is full (scenarios with very many streams)
        log_tail: std::collections::VecDeque<String>,
        log_dropped: u64,
        ids_reused: u64,
        stale_next: u64,
        stale_cancel: u64,
        pattern: Vec<u8>,
    }

    impl<'a> Model<'a> {
        pub fn new(cfg: &'a Cfg, name: &'static str, slots: Vec<(usize, Spec)>) -> Model<'a> {
            Model::new_in("bystander", cfg, name, slots)
        }

        /// The same interpreter for another family of scenarios over several connections to one producer.
        pub fn new_in(fam: &'static str, cfg: &'a Cfg, name: &'static str, slots: Vec<(usize, Spec)>) -> Model<'a> {
            let slots = slots
                .into_iter()
                .map(|(conn, spec)| Slot { conn, expected: logical_bytes(cfg.kind, &spec), spec, sid: 0, st: St::Unopened, wire: vec![], chunks: vec![], adopted: false })
                .collect();
            Model { cfg, fam, name, slots, stale_cancel_ids: vec![], context: String::new(), log: vec![], log_tail: Default::default(), log_dropped: 0, ids_reused: 0, stale_next: 0, stale_cancel: 0, pattern: vec![] }
        }

        fn note(&mut self, s: String) {
            if self.log.len() < 160 {
                self.log.push(s);
            } else {
                if self.log_tail.len() >= 80 {
                    self.log_tail.pop_front();
                    self.log_dropped += 1;
                }
                self.log_tail.push_back(s);
            }
        }

        fn sig(&self, what: &str) -> String {
            format!("C09:{}:{what}", self.fam)
        }
        fn ctr(&self, what: &str) -> String {
            format!("{}_{what}", self.fam.replace('-', "_"))
        }
        /// (stream id, chunks pulled so far) of a slot
        pub fn progress(&self, i: usize) -> (u64, usize) {
            (self.slots[i].sid, self.slots[i].chunks.len())
        }
        pub fn disturbed(&self, i: usize) -> bool {
            self.slots[i].st == St::Disturbed
        }
        pub fn ended(&self, i: usize) -> bool {
            self.slots[i].st == St::Released(Rel::End)
        }
        /// the bytes pulled for slot `i` so far are exactly its producer's logical bytes
        pub fn exact(&self, i: usize) -> bool {
            let s = &self.slots[i];
            let (logical, clean) = if self.cfg.zstd { svs::zstd_decompress_lossy(&s.wire) } else { (s.wire.clone(), true) };
            clean && logical == s.expected
        }

        pub fn replay(&self) -> Value {
            // scenarios with very many streams: the first ones, every disturbed one, and a census of the rest
            let many = self.slots.len() > 48;
            let listed: Vec<usize> = if many {
                let mut v: Vec<usize> = (0..8).collect();
                v.extend(self.slots.iter().enumerate().skip(8).filter(|(_, s)| s.st == St::Disturbed).map(|(i, _)| i).take(16));
                v
            } else {
                (0..self.slots.len()).collect()
            };
            let mut log = self.log.clone();
            if !self.log_tail.is_empty() {
                log.push(format!("... ({} exchanges not kept) ...", self.log_dropped));
                log.extend(self.log_tail.iter().cloned());
            }
            let mut j = json!({
                "cfg": self.cfg.json(),
                "scenario": self.name,
                "streams": listed.iter().map(|&i| { let s = &self.slots[i]; json!({"slot": i, "connection": s.conn, "resource": s.spec.res(), "logical_len": s.expected.len(),
                    "stream_id": s.sid, "opened_by_library_puller": s.adopted, "state": format!("{:?}", s.st),
                    "chunks": s.chunks.iter().take(24).map(|(l, e)| format!("{l}{}", if *e { "!" } else { "" })).collect::<Vec<_>>()}) }).collect::<Vec<_>>(),
                "exchange_log": log,
            });
            if many {
                let mut census: BTreeMap<String, u64> = BTreeMap::new();
                for s in &self.slots {
                    *census.entry(format!("{:?}", s.st)).or_insert(0) += 1;
                }
                j["streams_in_all"] = json!(self.slots.len());
                j["streams_by_state"] = json!(census);
            }
            j
        }

        /// A stream a library puller opened and finished on its own connection; its id was read from the open
        /// response on that connection. Stale traffic for it is sent from raw connection `conn`.
        pub fn adopt_released(&mut self, conn: usize, spec: Spec, sid: u64, rel: Rel) -> usize {
            let expected = logical_bytes(self.cfg.kind, &spec);
            self.slots.push(Slot { conn, spec, expected, sid, st: St::Released(rel), wire: vec![], chunks: vec![], adopted: true });
            self.note(format!("(library puller's stream id {sid}, {} — adopted as slot #{})", rel.tag(), self.slots.len() - 1));
            self.slots.len() - 1
        }

        pub fn live(&self, i: usize) -> bool {
            self.slots[i].st == St::Live
        }

        /// Which live stream of another slot do these bytes continue?
        fn attribute(&self, sid: u64, bytes: &[u8]) -> String {
            for (j, s) in self.slots.iter().enumerate() {
                if s.st == St::Live && s.sid == sid {
                    let at = s.wire.len();
                    if !self.cfg.zstd && s.expected.len() >= at + bytes.len() && s.expected[at..at + bytes.len()] == *bytes {
                        return format!("; they are bytes [{at}..{}) of the LIVE stream #{j} that connection {} opened afterwards under the same id", at + bytes.len(), s.conn);
                    }
                    return format!("; connection {} has a LIVE stream #{j} under the same id (it had pulled {at} wire bytes)", s.conn);
                }
            }
            String::new()
        }

        fn next<T: RawTransport>(&mut self, conns: &mut [RawSvs<T>], i: usize, acc: &mut Acc) -> Result<(), String> {
            let (conn, sid, st) = (self.slots[i].conn, self.slots[i].sid, self.slots[i].st);
            match st {
                St::Unopened | St::Disturbed => Ok(()),
                St::Live => {
                    let out = conns[conn].next(sid)?;
                    self.note(format!("c{conn} next #{i} (id {sid}) -> {}", out_tag(&out)));
                    match out {
                        NextOut::Chunk { bytes, last, query } => {
                            acc.count("chunks_observed", 1);
                            if query.len() != 1 || query[0] > 1 {
                                acc.violation(format!("C09:last-flag-encoding:{}", self.cfg.kind.class()), format!("chunk response query is {} instead of one byte 0/1", hex_trunc(&query, 16)), self.replay());
                            }
                            let s = &mut self.slots[i];
                            s.chunks.push((bytes.len(), last));
                            s.wire.extend_from_slice(&bytes);
                            let bound = s.expected.len() + s.expected.len() / 64 + 1024;
                            if last {
                                s.st = St::Released(Rel::End);
                                if s.spec.fail.is_some() {
                                    let (sig, fail) = (self.sig("end-marker-after-producer-failure"), self.slots[i].spec.fail);
                                    acc.violation(sig, format!("stream #{i}: the producer failed (fail={fail:?}) but the stream ended with an end marker"), self.replay());
                                }
                            } else if s.wire.len() > bound || s.chunks.len() > bound + 16 {
                                s.st = St::Released(Rel::Cancel);
                                let _ = conns[conn].cancel(sid, false);
                                acc.violation(self.sig("no-end-marker"), format!("stream #{i}: {} chunks / {} bytes pulled without an end marker from a {}-byte payload", self.slots[i].chunks.len(), self.slots[i].wire.len(), self.slots[i].expected.len()), self.replay());
                            }
                        }
                        NextOut::ErrResp { ec, msg } => {
                            if self.slots[i].spec.fail.is_some() {
                                self.slots[i].st = St::Released(Rel::Failure);
                                acc.count("producer_failures_surfaced_as_error", 1);
                            } else {
                                self.slots[i].st = St::Disturbed;
                                let by_cancel = self.stale_cancel_ids.contains(&sid);
                                let sig = self.sig(if by_cancel { "live-stream-released-by-stale-cancel" } else { "live-stream-error" });
                                acc.violation(
                                    sig,
                                    format!(
                                        "connection {conn}'s live stream #{i} (id {sid}, healthy producer, {} of {} chunks pulled so far) was answered ec={ec} '{}'{}",
                                        self.slots[i].chunks.len(),
                                        self.slots[i].expected.len().div_ceil(self.cfg.chunk).max(1),
                                        trunc(&msg, 100),
                                        if by_cancel { "; another connection had sent a cancel for the same id after ITS stream with that id had been released".to_string() } else if self.context.is_empty() { String::new() } else { format!("; {}", self.context) }
                                    ),
                                    self.replay(),
                                );
                            }
                        }
                    }
                    Ok(())
                }
                St::Released(rel) => {
                    let out = conns[conn].next(sid)?;
                    self.note(format!("c{conn} STALE next #{i} (id {sid}, {}) -> {}", rel.tag(), out_tag(&out)));
                    self.stale_next += 1;
                    match out {
                        NextOut::ErrResp { .. } => {
                            acc.count(&self.ctr("stale_next_rejected"), 1);
                            acc.count("next_after_release_rejected", 1);
                        }
                        NextOut::Chunk { bytes, last, .. } => {
                            let whose = self.attribute(sid, &bytes);
                            acc.violation(
                                self.sig(&format!("stale-next-answered-with-data:{}", rel.tag())),
                                format!(
                                    "connection {conn} sent next for stream #{i} (id {sid}) {} and was answered with a chunk of {} bytes (last={last}) instead of an error{whose}",
                                    match rel {
                                        Rel::End => "after that stream had delivered its end marker",
                                        Rel::Cancel => "after that stream had been cancelled",
                                        Rel::Failure => "after that stream had ended with the producer's failure",
                                    },
                                    bytes.len()
                                ),
                                self.replay(),
                            );
                        }
                    }
                    Ok(())
                }
            }
        }

        pub fn exec<T: RawTransport>(&mut self, conns: &mut [RawSvs<T>], op: &BOp, acc: &mut Acc) -> Result<(), String> {
            match *op {
                BOp::Open(i) => {
                    if self.slots[i].st != St::Unopened {
                        return Ok(());
                    }
                    let conn = self.slots[i].conn;
                    self.pattern.push(0);
                    match conns[conn].open(&self.slots[i].spec.res())? {
                        Err((ec, msg)) => {
                            self.slots[i].st = St::Disturbed;
                            self.note(format!("c{conn} open #{i} -> E{ec}"));
                            acc.violation(format!("C09:open-refused:{}", self.cfg.kind.class()), format!("open answered ec={ec} '{}'", trunc(&msg, 120)), self.replay());
                        }
                        Ok(o) => {
                            self.note(format!("c{conn} open #{i} -> id {}", o.stream_id));
                            acc.count(&self.ctr("streams_opened"), 1);
                            if let Some(j) = self.slots.iter().position(|s| s.st == St::Live && s.sid == o.stream_id) {
                                acc.violation(
                                    self.sig("live-streams-share-id"),
                                    format!("connection {conn}'s open returned stream id {} while stream #{j} of connection {} is live under the same id", o.stream_id, self.slots[j].conn),
                                    self.replay(),
                                );
                            }
                            if self.slots.iter().any(|s| matches!(s.st, St::Released(_) | St::Disturbed) && s.sid == o.stream_id) {
                                // not a violation in itself: ids are opaque. Recorded because it is the situation the stale traffic probes.
                                self.ids_reused += 1;
                                acc.count(&self.ctr("stream_ids_reused_after_release"), 1);
                            }
                            let s = &mut self.slots[i];
                            s.sid = o.stream_id;
                            s.st = St::Live;
                        }
                    }
                    Ok(())
                }
                BOp::Next(i) => {
                    self.pattern.push(if self.slots[i].st == St::Live { 1 } else { 2 });
                    self.next(conns, i, acc)
                }
                BOp::Cancel(i, notify) => {
                    let (conn, sid, st) = (self.slots[i].conn, self.slots[i].sid, self.slots[i].st);
                    match st {
                        St::Unopened | St::Disturbed => return Ok(()),
                        St::Live => {
                            self.pattern.push(3 + notify as u8);
                            let ec = conns[conn].cancel(sid, notify)?;
                            self.note(format!("c{conn} cancel #{i} (id {sid}, {}) -> ec {ec}", if notify { "notify" } else { "request" }));
                            if ec != 0 {
                                acc.violation(format!("C09:cancel-refused:{}", self.cfg.kind.class()), format!("request-form cancel answered ec={ec}"), self.replay());
                            }
                            self.slots[i].st = St::Released(Rel::Cancel);
                            acc.count(&self.ctr("streams_cancelled_while_live"), 1);
                        }
                        St::Released(rel) => {
                            self.pattern.push(5 + notify as u8);
                            let ec = conns[conn].cancel(sid, notify)?;
                            self.note(format!("c{conn} STALE cancel #{i} (id {sid}, {}, {}) -> ec {ec}", rel.tag(), if notify { "notify" } else { "request" }));
                            self.stale_cancel_ids.push(sid);
                            self.stale_cancel += 1;
                            acc.count(&self.ctr("stale_cancels_sent"), 1);
                        }
                    }
                    if notify {
                        acc.count(&self.ctr("notify_cancel_barriers"), 1);
                        self.next(conns, i, acc)?;
                    }
                    Ok(())
                }
                BOp::Drain(i) => {
                    self.pattern.push(7);
                    let mut guard = 0usize;
                    let bound = self.slots[i].expected.len() + self.slots[i].expected.len() / 64 + 2048;
                    while self.slots[i].st == St::Live && guard <= bound {
                        self.next(conns, i, acc)?;
                        guard += 1;
                    }
                    Ok(())
                }
            }
        }

        /// Release what is still live, judge every stream, and ask once more for every released one.
        pub fn finish<T: RawTransport>(mut self, conns: &mut [RawSvs<T>], acc: &mut Acc) -> Result<(), String> {
            for i in 0..self.slots.len() {
                if self.slots[i].st == St::Live {
                    let (conn, sid) = (self.slots[i].conn, self.slots[i].sid);
                    let ec = conns[conn].cancel(sid, false)?;
                    self.note(format!("c{conn} cancel #{i} (id {sid}, closing the scenario) -> ec {ec}"));
                    self.slots[i].st = St::Released(Rel::Cancel);
                }
            }
            // every released id is asked once more, in slot order (ids may coincide: all of them are released now)
            for i in 0..self.slots.len() {
                if matches!(self.slots[i].st, St::Released(_)) {
                    self.next(conns, i, acc)?;
                }
            }
            acc.evals += 1;
            acc.count(&self.ctr("scenarios"), 1);
            acc.count(&self.ctr("stale_next_sent"), self.stale_next);
            if self.ids_reused > 0 {
                acc.count(&self.ctr("scenarios_with_id_reuse"), 1);
            }
            let mut shape = vec![];
            for i in 0..self.slots.len() {
                let s = &self.slots[i];
                if s.adopted {
                    continue;
                }
                let (logical, clean) = if self.cfg.zstd { svs::zstd_decompress_lossy(&s.wire) } else { (s.wire.clone(), true) };
                shape.push((s.st, s.chunks.len().min(6)));
                match s.st {
                    St::Released(Rel::End) if s.spec.fail.is_none() => {
                        acc.evals += 1;
                        if clean && logical == s.expected {
                            acc.count(&self.ctr("streams_exact"), 1);
                            acc.count("streams_completed", 1);
                        } else {
                            let at = first_diff(&logical, &s.expected);
                            let lost = !clean || logical.len() < s.expected.len();
                            acc.violation(
                                self.sig(if lost { "stream-lost-bytes" } else { "stream-content-differs" }),
                                format!(
                                    "connection {}'s stream #{i} (id {}) ended with an end marker after {} chunks but delivered {} logical bytes (complete frame: {clean}) of the producer's {}; first difference at byte {at}",
                                    s.conn,
                                    s.sid,
                                    s.chunks.len(),
                                    logical.len(),
                                    s.expected.len()
                                ),
                                self.replay(),
                            );
                        }
                    }
                    St::Released(_) => {
                        let lim = s.spec.fail.filter(|_| !self.cfg.kind.beve()).unwrap_or(s.expected.len()).min(s.expected.len());
                        if logical.len() > lim || logical[..] != s.expected[..logical.len()] {
                            acc.violation(
                                self.sig("delivered-prefix-differs"),
                                format!("stream #{i}: the {} logical bytes delivered before {:?} are not a prefix of the producer's first {lim} bytes (first difference at {})", logical.len(), s.st, first_diff(&logical, &s.expected)),
                                self.replay(),
                            );
                        } else {
                            acc.count("partial_deliveries_prefix_checked", 1);
                        }
                    }
                    _ => {}
                }
            }
            acc.distinct.push(hash_of(&(self.fam, self.cfg, self.name, &shape, &self.pattern[..self.pattern.len().min(48)], self.ids_reused > 0)));
            if acc.samples.len() < 2 && self.stale_next >= 2 && self.stale_cancel >= 1 {
                acc.samples.push(self.replay());
            }
            Ok(())
        }
    }

    // ------------------------------------------------------------------ scripts

    /// A spec whose stream has about `lo..lo+span` chunks (wire length on / next to a chunk boundary).
    fn mk_spec(cfg: &Cfg, rng: &mut Rng, lo: usize, span: usize) -> Spec {
        let chunks = lo + rng.usize_below(span.max(1));
        let mut s = Spec { p: 0, seed: rng.below(1 << 40), compressible: false, fail: None, panic: false, delay: rng.chance(1, 4), vt: rng.below(2) as u8 };
        let c = cfg.chunk;
        let target = if chunks == 0 {
            0
        } else {
            match rng.below(4) {
                0 => chunks * c,
                1 => chunks * c + 1,
                2 => (chunks * c).saturating_sub(1),
                _ => (chunks - 1) * c + 1 + rng.usize_below(c),
            }
        };
        s.p = param_for(cfg.kind, cfg.zstd, target, &s);
        s
    }

    fn can_fail(cfg: &Cfg) -> bool {
        matches!(cfg.kind, Kind::Reader | Kind::Writer | Kind::Value)
    }

    /// Turn a spec into one whose producer fails after some of its bytes.
    fn failing(cfg: &Cfg, rng: &mut Rng, mut s: Spec) -> Spec {
        let len = logical_bytes(cfg.kind, &s).len();
        let k = if cfg.kind == Kind::Value { s.p } else { rng.usize_below(len + 1) };
        s.fail = Some(k);
        s.vt = 0;
        s.panic = cfg.kind == Kind::Writer && rng.chance(1, 4);
        s
    }

    fn burst(rng: &mut Rng, g: usize, out: &mut Vec<BOp>) {
        match rng.below(7) {
            0 => out.push(BOp::Next(g)),
            1 => out.push(BOp::Cancel(g, false)),
            2 => out.push(BOp::Cancel(g, true)),
            3 => out.extend([BOp::Next(g), BOp::Next(g)]),
            4 => out.extend([BOp::Cancel(g, false), BOp::Cancel(g, rng.coin())]),
            5 => out.extend([BOp::Cancel(g, rng.coin()), BOp::Next(g)]),
            _ => out.extend([BOp::Next(g), BOp::Cancel(g, rng.coin()), BOp::Next(g)]),
        }
    }

    #[derive(Clone, Copy, Debug, PartialEq)]
    enum Mode {
        End,
        CancelMid,
        Failure,
        Abandon,
    }
    fn pick_mode(cfg: &Cfg, rng: &mut Rng) -> Mode {
        match rng.below(if can_fail(cfg) { 6 } else { 5 }) {
            0 | 1 => Mode::End,
            2 | 3 => Mode::CancelMid,
            4 => Mode::Abandon,
            _ => Mode::Failure,
        }
    }

    /// Open slot `g` and bring it to the state `mode` asks for (Abandon: still live, to be cancelled later).
    fn ghost_ops(rng: &mut Rng, g: usize, mode: Mode, ops: &mut Vec<BOp>) {
        ops.push(BOp::Open(g));
        match mode {
            Mode::End | Mode::Failure => ops.push(BOp::Drain(g)),
            Mode::CancelMid => {
                for _ in 0..rng.below(3) {
                    ops.push(BOp::Next(g));
                }
                ops.push(BOp::Cancel(g, rng.coin()));
            }
            Mode::Abandon => {
                for _ in 0..1 + rng.below(2) {
                    ops.push(BOp::Next(g));
                }
            }
        }
    }
    fn ghost_spec(cfg: &Cfg, rng: &mut Rng, mode: Mode) -> Spec {
        let s = if mode == Mode::End { mk_spec(cfg, rng, 0, 4) } else { mk_spec(cfg, rng, 3, 3) };
        if mode == Mode::Failure { failing(cfg, rng, s) } else { s }
    }

    /// A pulls a stream to its end / cancels it / abandons it; B opens afterwards and pulls a part; A's stale
    /// next / cancel (also twice, interleaved with B's nexts); B pulls the rest.
    fn t_ghost_victim(cfg: &Cfg, rng: &mut Rng) -> Scn {
        let mode = pick_mode(cfg, rng);
        let slots = vec![(0, ghost_spec(cfg, rng, mode)), (1, mk_spec(cfg, rng, 3, 4))];
        let (g, v) = (0, 1);
        let mut ops = vec![];
        ghost_ops(rng, g, mode, &mut ops);
        ops.push(BOp::Open(v));
        for _ in 0..1 + rng.below(2) {
            ops.push(BOp::Next(v));
        }
        if mode == Mode::Abandon {
            ops.push(BOp::Cancel(g, rng.chance(1, 3)));
        }
        // the stale traffic that is always there: only late nexts, only the trailing cancel, or both in either order
        let mut must = match rng.below(4) {
            0 => vec![BOp::Next(g), BOp::Next(g)],
            1 => vec![BOp::Cancel(g, false), BOp::Cancel(g, true)],
            2 => vec![BOp::Next(g), BOp::Cancel(g, false)],
            _ => vec![BOp::Cancel(g, rng.coin()), BOp::Next(g)],
        };
        let quiet_bursts = rng.coin();
        for _ in 0..if quiet_bursts { 0 } else { rng.below(3) } {
            burst(rng, g, &mut ops);
            if rng.coin() {
                ops.push(BOp::Next(v));
            }
        }
        ops.push(must.remove(0));
        if rng.coin() {
            ops.push(BOp::Next(v));
        }
        ops.push(must.remove(0));
        ops.push(BOp::Drain(v));
        ops.push(BOp::Next(g));
        Scn { name: "ghost-then-bystander", slots, ops }
    }

    /// The mirror image: the connection that opened LATER finishes first and turns stale while the earlier
    /// stream is still live and a third one is opened.
    fn t_mirror(cfg: &Cfg, rng: &mut Rng) -> Scn {
        let mode = pick_mode(cfg, rng);
        let zconn = rng.usize_below(3);
        let slots = vec![(0, mk_spec(cfg, rng, 4, 3)), (1, ghost_spec(cfg, rng, mode)), (zconn, mk_spec(cfg, rng, 3, 3))];
        let (x, y, z) = (0, 1, 2);
        let mut ops = vec![BOp::Open(x)];
        for _ in 0..1 + rng.below(2) {
            ops.push(BOp::Next(x));
        }
        ghost_ops(rng, y, mode, &mut ops);
        ops.push(BOp::Open(z));
        if rng.coin() {
            ops.push(BOp::Next(z));
        }
        if mode == Mode::Abandon {
            ops.push(BOp::Cancel(y, false));
        }
        for _ in 0..2 + rng.below(3) {
            burst(rng, y, &mut ops);
            ops.push(BOp::Next(if rng.coin() { x } else { z }));
        }
        ops.extend([BOp::Next(y), BOp::Cancel(y, false)]);
        if rng.coin() {
            ops.extend([BOp::Drain(x), BOp::Drain(z)]);
        } else {
            ops.extend([BOp::Drain(z), BOp::Drain(x)]);
        }
        Scn { name: "mirror-later-stream-finishes-first", slots, ops }
    }

    /// Three connections: two of them turn stale one after the other, the third (and the first again) open
    /// new streams; the stale traffic of both is interleaved with the pulls of both live streams.
    fn t_three(cfg: &Cfg, rng: &mut Rng) -> Scn {
        let (ma, mb) = (pick_mode(cfg, rng), pick_mode(cfg, rng));
        let slots = vec![(0, ghost_spec(cfg, rng, ma)), (1, ghost_spec(cfg, rng, mb)), (2, mk_spec(cfg, rng, 3, 3)), (0, mk_spec(cfg, rng, 3, 3))];
        let (a, b, c, d) = (0, 1, 2, 3);
        let mut ops = vec![];
        ghost_ops(rng, a, ma, &mut ops);
        if rng.coin() {
            // b opens only after a was released
            if ma == Mode::Abandon {
                ops.push(BOp::Cancel(a, false));
            }
            ghost_ops(rng, b, mb, &mut ops);
        } else {
            ghost_ops(rng, b, mb, &mut ops);
            if ma == Mode::Abandon {
                ops.push(BOp::Cancel(a, false));
            }
        }
        ops.push(BOp::Open(c));
        ops.push(BOp::Next(c));
        if mb == Mode::Abandon {
            ops.push(BOp::Cancel(b, false));
        }
        ops.push(BOp::Open(d));
        for _ in 0..3 + rng.below(3) {
            let g = if rng.coin() { a } else { b };
            burst(rng, g, &mut ops);
            ops.push(BOp::Next(if rng.coin() { c } else { d }));
        }
        ops.extend([BOp::Next(a), BOp::Next(b), BOp::Cancel(a, false), BOp::Cancel(b, false), BOp::Drain(c), BOp::Drain(d)]);
        Scn { name: "three-connections", slots, ops }
    }

    /// Many quick open/finish cycles over all connections: every new stream is opened while the ids of the
    /// earlier ones are stale, and the earlier owners keep talking about them.
    fn t_cycles(cfg: &Cfg, rng: &mut Rng, thorough: bool) -> Scn {
        let n = 6 + rng.usize_below(if thorough { 20 } else { 9 });
        let mut slots = vec![];
        let mut ops = vec![];
        let mut ghosts: Vec<usize> = vec![];
        let mut open_left: Vec<usize> = vec![];
        for i in 0..n {
            let fail = can_fail(cfg) && rng.chance(1, 8);
            let s = mk_spec(cfg, rng, 0, 4);
            slots.push((rng.usize_below(3), if fail { failing(cfg, rng, s) } else { s }));
            ops.push(BOp::Open(i));
            if rng.coin() {
                ops.push(BOp::Next(i));
            }
            for _ in 0..rng.below(3) {
                if !ghosts.is_empty() {
                    let g = *rng.pick(&ghosts);
                    burst(rng, g, &mut ops);
                    if rng.coin() {
                        ops.push(BOp::Next(i));
                    }
                }
            }
            match rng.below(7) {
                0 => open_left.push(i),
                1 | 2 => {
                    ops.push(BOp::Cancel(i, rng.coin()));
                    ghosts.push(i);
                }
                _ => {
                    ops.push(BOp::Drain(i));
                    ghosts.push(i);
                }
            }
        }
        for i in open_left {
            if let Some(&g) = ghosts.last() {
                burst(rng, g, &mut ops);
            }
            ops.push(BOp::Drain(i));
        }
        Scn { name: "open-finish-cycles", slots, ops }
    }

    fn t_random(cfg: &Cfg, rng: &mut Rng) -> Scn {
        let n = 4 + rng.usize_below(5);
        let mut slots = vec![];
        for _ in 0..n {
            let s = mk_spec(cfg, rng, 0, 6);
            slots.push((rng.usize_below(3), if can_fail(cfg) && rng.chance(1, 7) { failing(cfg, rng, s) } else { s }));
        }
        let mut ops = vec![BOp::Open(0)];
        let mut opened = 1usize;
        for _ in 0..30 + rng.below(40) {
            match rng.below(20) {
                0..=4 if opened < n => {
                    ops.push(BOp::Open(opened));
                    opened += 1;
                }
                5..=7 => ops.push(BOp::Cancel(rng.usize_below(opened), rng.coin())),
                8 => ops.push(BOp::Drain(rng.usize_below(opened))),
                _ => ops.push(BOp::Next(rng.usize_below(opened))),
            }
        }
        for i in 0..opened {
            ops.push(BOp::Drain(i));
        }
        Scn { name: "random-script", slots, ops }
    }

    fn run_scn<T: RawTransport>(conns: &mut [RawSvs<T>], cfg: &Cfg, scn: Scn, acc: &mut Acc) -> Result<(), String> {
        let mut m = Model::new(cfg, scn.name, scn.slots);
        for op in &scn.ops {
            m.exec(conns, op, acc)?;
        }
        m.finish(conns, acc)
    }

    fn raw_config<T: RawTransport>(conns: &mut [RawSvs<T>], cfg: &Cfg, seed: u64, thorough: bool, acc: &mut Acc) -> Result<(), String> {
        let mut rng = Rng::new(seed ^ 0xB15_7A9D);
        let reps = if thorough { 3 } else { 1 };
        for _ in 0..reps {
            for _ in 0..3 {
                run_scn(conns, cfg, t_ghost_victim(cfg, &mut rng), acc)?;
            }
            run_scn(conns, cfg, t_mirror(cfg, &mut rng), acc)?;
            run_scn(conns, cfg, t_three(cfg, &mut rng), acc)?;
            run_scn(conns, cfg, t_cycles(cfg, &mut rng, thorough), acc)?;
            for _ in 0..2 {
                run_scn(conns, cfg, t_random(cfg, &mut rng), acc)?;
            }
        }
        Ok(())
    }

    /// Stage raw, bystander family: one server, three raw connections.
    pub fn raw_work(cfg: &Cfg, seed: u64, thorough: bool, rt: &Arc<tokio::runtime::Runtime>, acc: &mut Acc) {
        let srv = match start_server(cfg, rt) {
            Ok(s) => s,
            Err(e) => {
                acc.inconclusive.push(format!("server start: {e}"));
                return;
            }
        };
        let r = match cfg.tr {
            Tr::Tcp => (0..3).map(|_| TcpRaw::connect(srv.addr).map(RawSvs::new)).collect::<Result<Vec<_>, _>>().and_then(|mut conns| {
                let r = raw_config(&mut conns, cfg, seed, thorough, acc);
                acc.count("frames_sent", conns.iter().map(|c| c.frames_sent).sum());
                acc.count("frames_received", conns.iter().map(|c| c.frames_received).sum());
                r
            }),
            Tr::Ws => (0..3).map(|_| WsRaw::connect(rt.clone(), &format!("ws://{}/repe", srv.addr)).map(RawSvs::new)).collect::<Result<Vec<_>, _>>().and_then(|mut conns| {
                let r = raw_config(&mut conns, cfg, seed, thorough, acc);
                acc.count("frames_sent", conns.iter().map(|c| c.frames_sent).sum());
                acc.count("frames_received", conns.iter().map(|c| c.frames_received).sum());
                r
            }),
        };
        if let Err(e) = r {
            acc.inconclusive.push(format!("bystander family: raw client trouble on {cfg:?}: {e}"));
        }
        acc.count("bystander_configs", 1);
    }

    pub fn raw_cfgs(args: &Args) -> Vec<Cfg> {
        let mut rng = Rng::new(args.seed ^ 0xC09_B157);
        let mut v = vec![];
        let mut i = 0usize;
        for tr in [Tr::Tcp, Tr::Ws] {
            for k in 0..5 {
                for chunk in [1usize, 3, 64, 4096, 65536] {
                    for zstd in [false, true] {
                        i += 1;
                        let kind = match k {
                            0 => Kind::Value,
                            1 => Kind::Typed(ELEMS[(i + args.seed as usize) % 5]),
                            2 => Kind::Complex(if (i + args.seed as usize) % 2 == 0 { Elem::F32 } else { Elem::F64 }),
                            3 => Kind::Reader,
                            _ => Kind::Writer,
                        };
                        let depths: Vec<usize> = if args.thorough() { vec![0, 1, 2 + rng.usize_below(7)] } else { vec![rng.usize_below(9)] };
                        for depth in depths {
                            v.push(Cfg { tr, kind, chunk, depth, zstd, fam: 2 });
                        }
                    }
                }
            }
        }
        v
    }

    // ================================================================== stage pullers

    #[derive(Default)]
    struct PauseSt {
        reached: bool,
        released: bool,
        pull_done: bool,
        timed_out: bool,
    }
    /// A point between two chunk fetches of a library pull: the `svs.chunk_fetched` probe of the pulling
    /// thread stops there after `after` fetches until the harness releases it.
    pub struct PausePt {
        after: u64,
        st: Mutex<PauseSt>,
        cv: Condvar,
    }
    impl PausePt {
        fn new(after: u64) -> Arc<PausePt> {
            Arc::new(PausePt { after, st: Mutex::new(PauseSt::default()), cv: Condvar::new() })
        }
        fn reach_and_wait(&self) {
            let mut g = self.st.lock().unwrap_or_else(|e| e.into_inner());
            g.reached = true;
            self.cv.notify_all();
            let (mut g, _) = self.cv.wait_timeout_while(g, Duration::from_secs(25), |s| !s.released).unwrap_or_else(|e| e.into_inner());
            if !g.released {
                g.timed_out = true;
            }
        }
        /// true when the pull is stopped at the point; false when the pull returned first (or nothing happened for `d`)
        fn wait_reached(&self, d: Duration) -> bool {
            let g = self.st.lock().unwrap_or_else(|e| e.into_inner());
            let (g, _) = self.cv.wait_timeout_while(g, d, |s| !s.reached && !s.pull_done).unwrap_or_else(|e| e.into_inner());
            g.reached
        }
        fn release(&self) {
            self.st.lock().unwrap_or_else(|e| e.into_inner()).released = true;
            self.cv.notify_all();
        }
        fn mark_done(&self) {
            self.st.lock().unwrap_or_else(|e| e.into_inner()).pull_done = true;
            self.cv.notify_all();
        }
        fn timed_out(&self) -> bool {
            self.st.lock().unwrap_or_else(|e| e.into_inner()).timed_out
        }
    }

    thread_local! {
        static PAUSE: RefCell<Option<(Arc<PausePt>, u64)>> = const { RefCell::new(None) };
    }

    /// Called by the stage's probe on `svs.chunk_fetched` (on the pulling thread).
    pub fn on_chunk_fetched() {
        let hit = PAUSE.with(|p| {
            let mut p = p.borrow_mut();
            if let Some((pt, n)) = p.as_mut() {
                *n += 1;
                if *n == pt.after {
                    return Some(pt.clone());
                }
            }
            None
        });
        if let Some(pt) = hit {
            pt.reach_and_wait();
        }
    }

    #[derive(Clone, Copy, Debug, PartialEq, Eq, Hash)]
    enum Role {
        /// the library puller finishes its stream (its trailing cancel is the stale traffic); a raw connection opens
        /// the bystander stream between the puller's last chunk and its return
        PullerIsGhost,
        /// the library puller is the bystander, stopped between two fetches while raw connections replay stale traffic
        PullerIsBystander,
    }

    struct PCtx<'a> {
        cfg: &'a Cfg,
        sniff: &'a Sniff,
        dir: &'a std::path::Path,
        seq: Cell<u64>,
    }

    fn judge_puller(acc: &mut Acc, cfg: &Cfg, who: &str, puller: &str, role: Role, expected: &[u8], got: &Result<Vec<u8>, String>, replay: Value) {
        acc.evals += 1;
        match got {
            Ok(b) if b == expected => acc.count("bystander_puller_results_exact", 1),
            Ok(b) => {
                let at = first_diff(b, expected);
                let what = if b.len() < expected.len() { "bytes-missing" } else { "bytes-differ" };
                acc.violation(
                    format!("C09:bystander:{puller}:{what}"),
                    format!("{who} ({role:?}, {}) returned Ok with {} logical bytes, the producer emitted {}; first difference at byte {at}", cfg.kind.name(), b.len(), expected.len()),
                    replay,
                );
            }
            Err(e) if e.starts_with("harness:") => acc.inconclusive.push(format!("bystander family, {who}: {e}")),
            Err(e) => acc.violation(
                format!("C09:bystander:{puller}:error-on-healthy-stream"),
                format!("{who} ({role:?}, {}) failed on a healthy {}-byte stream while only OTHER connections' released stream ids were addressed: {e}", cfg.kind.name(), expected.len()),
                replay,
            ),
        }
    }

    /// One scenario with a library puller. `run` executes the puller on this thread; `barrier` performs one
    /// request/response on the puller's connection (everything the puller sent before it has been handled then).
    #[allow(clippy::too_many_arguments)]
    fn puller_scenario<T: RawTransport + Send>(
        cx: &PCtx<'_>,
        raw: &mut [RawSvs<T>],
        role: Role,
        puller: &str,
        cname: &str,
        rng: &mut Rng,
        acc: &mut Acc,
        run: impl FnOnce(&str, &std::path::Path) -> Result<Vec<u8>, String>,
        barrier: impl FnOnce(),
    ) -> Result<(), String> {
        let cfg = cx.cfg;
        let who = format!("{puller} over {cname}");
        let sp = mk_spec(cfg, rng, 2, 4);
        let expected = logical_bytes(cfg.kind, &sp);
        let res = sp.res();
        cx.seq.set(cx.seq.get() + 1);
        let dest = cx.dir.join(format!("dest-{}.bin", cx.seq.get()));
        let opens0 = cx.sniff.opens_seen();
        match role {
            Role::PullerIsGhost => {
                // slot 0: a raw pull of the puller's resource (tells how many fetches the pull takes, and is a ghost itself);
                // slot 1: the bystander stream
                let mut m = Model::new(cfg, "library-puller-finishes-then-raw-bystander", vec![(0, sp.clone()), (1, mk_spec(cfg, rng, 3, 4))]);
                m.exec(raw, &BOp::Open(0), acc)?;
                m.exec(raw, &BOp::Drain(0), acc)?;
                let n = m.slots[0].chunks.len().max(1) as u64;
                let pt = PausePt::new(n);
                let pre = 1 + rng.below(2);
                let (result, helper) = std::thread::scope(|s| {
                    let (pt2, m2, raw2, acc2) = (pt.clone(), &mut m, &mut *raw, &mut *acc);
                    let h = s.spawn(move || -> Result<bool, String> {
                        let reached = pt2.wait_reached(Duration::from_secs(15));
                        let r = (|| -> Result<(), String> {
                            m2.exec(raw2, &BOp::Open(1), acc2)?;
                            for _ in 0..pre {
                                m2.exec(raw2, &BOp::Next(1), acc2)?;
                            }
                            Ok(())
                        })();
                        pt2.release();
                        r.map(|_| reached)
                    });
                    PAUSE.with(|p| *p.borrow_mut() = Some((pt.clone(), 0)));
                    let result = run(&res, &dest);
                    PAUSE.with(|p| *p.borrow_mut() = None);
                    pt.mark_done();
                    (result, h.join())
                });
                let _ = std::fs::remove_file(&dest);
                let reached = match helper {
                    Ok(Ok(r)) => r,
                    Ok(Err(e)) => return Err(format!("bystander helper: {e}")),
                    Err(_) => return Err("bystander helper panicked".into()),
                };
                if pt.timed_out() {
                    acc.inconclusive.push(format!("bystander family, {who}: the paused pull was not released within 25 s"));
                    return Ok(());
                }
                // the puller returned: whatever it sent after its last chunk (the trailing cancel) is handled once this is answered
                barrier();
                acc.count(if reached { "bystander_puller_paused_after_its_last_chunk" } else { "bystander_pause_not_reached" }, 1);
                let ids = cx.sniff.opens_since(opens0);
                let mut ghosts = vec![0usize];
                if ids.len() == 1 && result.is_ok() {
                    ghosts.push(m.adopt_released(0, sp.clone(), ids[0], Rel::End));
                    acc.count("bystander_puller_stream_id_observed_in_open_response", 1);
                }
                let mut ops = vec![];
                for _ in 0..1 + rng.below(3) {
                    ops.push(BOp::Next(1));
                    if rng.coin() {
                        let g = *rng.pick(&ghosts);
                        burst(rng, g, &mut ops);
                    }
                }
                ops.push(BOp::Drain(1));
                for op in &ops {
                    m.exec(raw, op, acc)?;
                }
                let replay = m.replay();
                m.finish(raw, acc)?;
                acc.count("bystander_puller_scenarios", 1);
                judge_puller(acc, cfg, &who, puller, role, &expected, &result, replay);
            }
            Role::PullerIsBystander => {
                let mode = pick_mode(cfg, rng);
                let mut m = Model::new(cfg, "raw-ghosts-then-library-puller-bystander", vec![(0, sp.clone()), (1, ghost_spec(cfg, rng, mode))]);
                m.exec(raw, &BOp::Open(0), acc)?;
                m.exec(raw, &BOp::Drain(0), acc)?;
                let n = m.slots[0].chunks.len().max(1);
                let mut ops = vec![];
                ghost_ops(rng, 1, mode, &mut ops);
                for op in &ops {
                    m.exec(raw, op, acc)?;
                }
                let after = if n >= 2 { 1 + rng.usize_below(n - 1) } else { 1 } as u64;
                let pt = PausePt::new(after);
                let mut stale = vec![];
                if mode == Mode::Abandon {
                    stale.push(BOp::Cancel(1, false));
                }
                // only late nexts, only trailing cancels, or a seeded mix of everything
                match rng.below(4) {
                    0 => {
                        let mut must = vec![BOp::Next(0), BOp::Next(1), BOp::Next(rng.usize_below(2))];
                        rng.shuffle(&mut must);
                        stale.extend(must);
                    }
                    1 => {
                        let mut must = vec![BOp::Cancel(0, rng.coin()), BOp::Cancel(1, false), BOp::Cancel(rng.usize_below(2), true)];
                        rng.shuffle(&mut must);
                        stale.extend(must);
                    }
                    _ => {
                        for _ in 0..1 + rng.below(3) {
                            let g = rng.usize_below(2);
                            burst(rng, g, &mut stale);
                        }
                        let mut must = vec![BOp::Next(0), BOp::Cancel(1, false), BOp::Next(1), BOp::Cancel(0, rng.coin())];
                        rng.shuffle(&mut must);
                        stale.extend(must);
                    }
                }
                let (result, helper) = std::thread::scope(|s| {
                    let (pt2, m2, raw2, acc2, stale2) = (pt.clone(), &mut m, &mut *raw, &mut *acc, &stale);
                    let h = s.spawn(move || -> Result<bool, String> {
                        let reached = pt2.wait_reached(Duration::from_secs(15));
                        let r = (|| -> Result<(), String> {
                            for op in stale2 {
                                m2.exec(raw2, op, acc2)?;
                            }
                            Ok(())
                        })();
                        pt2.release();
                        r.map(|_| reached)
                    });
                    PAUSE.with(|p| *p.borrow_mut() = Some((pt.clone(), 0)));
                    let result = run(&res, &dest);
                    PAUSE.with(|p| *p.borrow_mut() = None);
                    pt.mark_done();
                    (result, h.join())
                });
                let _ = std::fs::remove_file(&dest);
                let reached = match helper {
                    Ok(Ok(r)) => r,
                    Ok(Err(e)) => return Err(format!("bystander helper: {e}")),
                    Err(_) => return Err("bystander helper panicked".into()),
                };
                if pt.timed_out() {
                    acc.inconclusive.push(format!("bystander family, {who}: the paused pull was not released within 25 s"));
                    return Ok(());
                }
                barrier();
                acc.count(if reached { "bystander_puller_paused_mid_stream_during_stale_traffic" } else { "bystander_pause_not_reached" }, 1);
                let ids = cx.sniff.opens_since(opens0);
                if ids.len() == 1 && result.is_ok() {
                    // the puller's own stream is released now: asking for it from another connection is an error, too
                    let p = m.adopt_released(0, sp.clone(), ids[0], Rel::End);
                    acc.count("bystander_puller_stream_id_observed_in_open_response", 1);
                    m.exec(raw, &BOp::Next(p), acc)?;
                }
                let mut replay = m.replay();
                replay["puller"] = json!({"who": who, "paused_after_fetches": after, "fetches_of_a_full_pull": n, "pause_reached": reached});
                m.finish(raw, acc)?;
                acc.count("bystander_puller_scenarios", 1);
                judge_puller(acc, cfg, &who, puller, role, &expected, &result, replay);
            }
        }
        acc.distinct.push(hash_of(&("bystander-puller", cfg, role, puller, cname, expected.len().div_ceil(cfg.chunk).min(6))));
        Ok(())
    }

    const BOGUS_ID: u64 = u64::MAX - 7;

    fn puller_config<T: RawTransport + Send>(cfg: &Cfg, raw: &mut [RawSvs<T>], addr: SocketAddr, seed: u64, rt: &Arc<tokio::runtime::Runtime>, acc: &mut Acc) -> Result<(), String> {
        use repe::value_stream::AsyncSvsClient;
        let mut rng = Rng::new(seed ^ 0xB15_9011);
        let dir = svs::fresh_dir("c09-bystander");
        let sniff = Sniff::new();
        let (tcp_px, ws_px) = match cfg.tr {
            Tr::Tcp => (Some(proxy::tcp_proxy(addr, sniff.clone())?), None),
            Tr::Ws => (None, Some(proxy::ws_proxy(rt, format!("ws://{addr}/repe"), sniff.clone())?)),
        };
        let paddr = tcp_px.as_ref().map(|p| p.addr).or(ws_px.as_ref().map(|p| p.addr)).unwrap();
        let cx = PCtx { cfg, sniff: &sniff, dir: &dir, seq: Cell::new(0) };
        let mut pks = vec![Pk::ToVec, Pk::Consume, Pk::ToFile];
        if cfg.kind.beve() {
            pks.push(Pk::Decode);
        }
        let (kind, chunk) = (cfg.kind, cfg.chunk);
        let bogus = beve::to_vec(&svs::NextReq { stream_id: BOGUS_ID }).map_err(|e| e.to_string())?;
        let r = (|| -> Result<(), String> {
            match cfg.tr {
                Tr::Tcp => {
                    let client = Client::connect(paddr).map_err(|e| format!("Client::connect: {e}"))?;
                    let aclient = rt.block_on(AsyncClient::connect(paddr)).map_err(|e| format!("AsyncClient::connect: {e}"))?;
                    for &pk in &pks {
                        for role in [Role::PullerIsGhost, Role::PullerIsBystander] {
                            let s = rng.next_u64();
                            puller_scenario(&cx, raw, role, pk.name(kind, false), "Client", &mut rng, acc, |res, dest| slow::pull_bytes_sync(pk, kind, res, &client, dest, s, chunk), || {
                                let _ = client.call_with_formats(svs::ROUTE_NEXT, 1, Some(&bogus), 1);
                            })?;
                            puller_scenario(&cx, raw, role, pk.name(kind, true), "AsyncClient", &mut rng, acc, |res, dest| rt.block_on(slow::pull_bytes_async(pk, kind, res, &aclient, dest, s, chunk)), || {
                                let _ = rt.block_on(aclient.svs_call(svs::ROUTE_NEXT, 1, Some(&bogus), 1));
                            })?;
                        }
                    }
                    acc.count("configs_sync_client", 1);
                    acc.count("configs_async_client", 1);
                }
                Tr::Ws => {
                    let wclient = rt.block_on(WebSocketClient::connect(&format!("ws://{paddr}/repe"))).map_err(|e| format!("WebSocketClient::connect: {e}"))?;
                    for &pk in &pks {
                        for role in [Role::PullerIsGhost, Role::PullerIsBystander] {
                            let s = rng.next_u64();
                            puller_scenario(&cx, raw, role, pk.name(kind, true), "WebSocketClient", &mut rng, acc, |res, dest| rt.block_on(slow::pull_bytes_async(pk, kind, res, &wclient, dest, s, chunk)), || {
                                let _ = rt.block_on(wclient.svs_call(svs::ROUTE_NEXT, 1, Some(&bogus), 1));
                            })?;
                        }
                    }
                    acc.count("configs_websocket_client", 1);
                }
            }
            Ok(())
        })();
        let _ = std::fs::remove_dir_all(&dir);
        acc.count("frames_forwarded_by_sniffing_proxies", sniff.frames_forwarded.load(Ordering::Relaxed));
        if sniff.unparsed.load(Ordering::Relaxed) > 0 {
            acc.count("proxy_frames_not_parsed", sniff.unparsed.load(Ordering::Relaxed));
        }
        r
    }

    /// Stage pullers, bystander family.
    pub fn puller_work(cfg: &Cfg, seed: u64, rt: &Arc<tokio::runtime::Runtime>, acc: &mut Acc) {
        let srv = match start_server(cfg, rt) {
            Ok(s) => s,
            Err(e) => {
                acc.inconclusive.push(format!("server start: {e}"));
                return;
            }
        };
        let r = match cfg.tr {
            Tr::Tcp => (0..2).map(|_| TcpRaw::connect(srv.addr).map(RawSvs::new)).collect::<Result<Vec<_>, _>>().and_then(|mut conns| puller_config(cfg, &mut conns, srv.addr, seed, rt, acc)),
            Tr::Ws => (0..2).map(|_| WsRaw::connect(rt.clone(), &format!("ws://{}/repe", srv.addr)).map(RawSvs::new)).collect::<Result<Vec<_>, _>>().and_then(|mut conns| puller_config(cfg, &mut conns, srv.addr, seed, rt, acc)),
        };
        if let Err(e) = r {
            acc.inconclusive.push(format!("bystander family (pullers) trouble on {cfg:?}: {e}"));
        }
        acc.count("bystander_configs", 1);
    }

    pub fn puller_cfgs(args: &Args) -> Vec<Cfg> {
        let mut rng = Rng::new(args.seed ^ 0xC09_B159);
        let mut v = vec![];
        let mut i = 0usize;
        for tr in [Tr::Tcp, Tr::Ws] {
            for k in 0..5 {
                for chunk in [1usize, 3, 64, 4096, 65536] {
                    for zstd in [false, true] {
                        if zstd && !(chunk == 64 || chunk == 4096) {
                            continue;
                        }
                        i += 1;
                        let kind = match k {
                            0 => Kind::Value,
                            1 => Kind::Typed(ELEMS[(i + args.seed as usize) % 5]),
                            2 => Kind::Complex(if (i + args.seed as usize) % 2 == 0 { Elem::F32 } else { Elem::F64 }),
                            3 => Kind::Reader,
                            _ => Kind::Writer,
                        };
                        let dmax = if chunk >= 65536 { 2 } else { 8 };
                        let depths: Vec<usize> = if args.thorough() { vec![0, 1, 2.min(dmax) + rng.usize_below(dmax - 1)] } else { vec![rng.usize_below(dmax + 1)] };
                        for depth in depths {
                            v.push(Cfg { tr, kind, chunk, depth, zstd, fam: 2 });
                        }
                    }
                }
            }
        }
        v
    }
}
