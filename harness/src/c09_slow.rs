// C09 — slow-producer family of stage `pullers` (textually included into `mod imp` of c09.rs).
//
// A gated producer emits the first part of its stream, goes QUIET in the middle for a configured
// time (the harness opens the gate after the stall), then continues to the end. Every blocking and
// async library puller sits through the stall. The oracle is the usual one — the bytes the puller
// returns (or publishes as a file) are exactly the producer's bytes, or the pull fails — and does not
// depend on any timing: whatever a puller does while nothing arrives (wait, time out, ask again),
// `Ok` with other bytes is never acceptable.
//
// The scenarios run on their own threads next to the stage's pool, so the long stall overlaps with
// the rest of the stage.

mod slow {
    use super::*;

    /// Run one blocking puller and render its result as logical bytes.
    pub fn pull_bytes_sync(pk: Pk, kind: Kind, res: &str, client: &Client, dest: &std::path::Path, seed: u64, chunk: usize) -> Result<Vec<u8>, String> {
        let e = |e: RepeError| err_text(&e);
        let vt = Spec::parse(res).map(|s| if s.fail.is_some() { 0 } else { s.vt }).unwrap_or(0);
        match pk {
            Pk::ToVec => pull_to_vec(client, res).map_err(e),
            Pk::Consume => pull_consume(client, res, |r| slow_drain(r, seed, chunk)).map_err(e),
            Pk::ToFile => {
                pull_to_file(client, res, dest).map_err(e)?;
                std::fs::read(dest).map_err(|e| format!("harness: the published file cannot be read: {e}"))
            }
            Pk::Decode => match kind {
                Kind::Value if vt == 0 => pull_value::<String>(client, res).map(|v| beve::to_vec(&v).unwrap()).map_err(e),
                Kind::Value => pull_value::<Doc>(client, res).map(|v| beve::to_vec(&v).unwrap()).map_err(e),
                Kind::Typed(Elem::U8) => sync_typed::<u8>(client, res),
                Kind::Typed(Elem::U16) => sync_typed::<u16>(client, res),
                Kind::Typed(Elem::I64) => sync_typed::<i64>(client, res),
                Kind::Typed(Elem::F32) => sync_typed::<f32>(client, res),
                Kind::Typed(Elem::F64) => sync_typed::<f64>(client, res),
                Kind::Complex(Elem::F64) => sync_complex::<f64>(client, res),
                Kind::Complex(_) => sync_complex::<f32>(client, res),
                _ => Err("harness: no decoding puller for this kind".into()),
            },
        }
    }

    pub async fn pull_bytes_async<C: repe::value_stream::AsyncSvsClient>(pk: Pk, kind: Kind, res: &str, client: &C, dest: &std::path::Path, seed: u64, chunk: usize) -> Result<Vec<u8>, String> {
        let e = |e: RepeError| err_text(&e);
        let vt = Spec::parse(res).map(|s| if s.fail.is_some() { 0 } else { s.vt }).unwrap_or(0);
        match pk {
            Pk::ToVec => pull_to_vec_async(client, res).await.map_err(e),
            Pk::Consume => pull_consume_async(client, res, move |mut r| slow_drain(&mut *r, seed, chunk)).await.map_err(e),
            Pk::ToFile => {
                pull_to_file_async(client, res, dest).await.map_err(e)?;
                std::fs::read(dest).map_err(|e| format!("harness: the published file cannot be read: {e}"))
            }
            Pk::Decode => match kind {
                Kind::Value if vt == 0 => pull_value_async::<String, C>(client, res).await.map(|v| beve::to_vec(&v).unwrap()).map_err(e),
                Kind::Value => pull_value_async::<Doc, C>(client, res).await.map(|v| beve::to_vec(&v).unwrap()).map_err(e),
                Kind::Typed(Elem::U8) => async_typed::<u8, C>(client, res).await,
                Kind::Typed(Elem::U16) => async_typed::<u16, C>(client, res).await,
                Kind::Typed(Elem::I64) => async_typed::<i64, C>(client, res).await,
                Kind::Typed(Elem::F32) => async_typed::<f32, C>(client, res).await,
                Kind::Typed(Elem::F64) => async_typed::<f64, C>(client, res).await,
                Kind::Complex(Elem::F64) => async_complex::<f64, C>(client, res).await,
                Kind::Complex(_) => async_complex::<f32, C>(client, res).await,
                _ => Err("harness: no decoding puller for this kind".into()),
            },
        }
    }

    #[derive(Clone, Copy, Debug, PartialEq, Eq, Hash)]
    pub enum Cl {
        Sync,
        Async,
        Ws,
    }
    impl Cl {
        pub fn name(&self) -> &'static str {
            match self {
                Cl::Sync => "Client",
                Cl::Async => "AsyncClient",
                Cl::Ws => "WebSocketClient",
            }
        }
    }

    #[derive(Clone, Debug)]
    struct Plan {
        cfg: Cfg,
        cl: Cl,
        pk: Pk,
        /// the stalls pulled one after the other over the same connection
        stalls_ms: Vec<u64>,
        seed: u64,
    }

    pub struct Family {
        rx: mpsc::Receiver<Acc>,
        n: usize,
        deadline: Instant,
        long_stalls_ms: Vec<u64>,
    }

    pub enum AnyClient {
        Sync(Client),
        Async(AsyncClient),
        Ws(WebSocketClient),
    }

    /// One pull through one stall.
    fn one_pull(plan: &Plan, stall_ms: u64, table: &GateTable, client: &AnyClient, dir: &std::path::Path, n: usize, rng: &mut Rng, rt: &Arc<tokio::runtime::Runtime>, acc: &mut Acc) {
        let cfg = &plan.cfg;
        let is_async = plan.cl != Cl::Sync;
        let puller = plan.pk.name(cfg.kind, is_async);
        let who = format!("{puller} over {}", plan.cl.name());
        let stall = Duration::from_millis(stall_ms);
        let (data, park_at, sent) = cancel_payload(cfg, rng);
        let (res, gid, src) = table.add_with_park_max(data.clone(), Some(park_at), false, false, stall + Duration::from_secs(40));
        let dest = dir.join(format!("dest-{n}.bin"));
        let src2 = src.clone();
        let opener = std::thread::spawn(move || {
            let parked = src2.gate.wait_parked(Duration::from_secs(25));
            if parked {
                std::thread::sleep(stall);
            }
            src2.gate.open();
            parked
        });
        let fetched0 = FETCHED.with(|c| c.get());
        let s = rng.next_u64();
        let result = match client {
            AnyClient::Sync(c) => pull_bytes_sync(plan.pk, cfg.kind, &res, c, &dest, s, cfg.chunk),
            AnyClient::Async(c) => rt.block_on(pull_bytes_async(plan.pk, cfg.kind, &res, c, &dest, s, cfg.chunk)),
            AnyClient::Ws(c) => rt.block_on(pull_bytes_async(plan.pk, cfg.kind, &res, c, &dest, s, cfg.chunk)),
        };
        let returned_at = Instant::now();
        src.gate.abandon();
        let fetched = FETCHED.with(|c| c.get()) - fetched0;
        let parked = opener.join().unwrap_or(false);
        table.remove(gid);
        let published = std::fs::read(&dest).ok();
        let _ = std::fs::remove_file(&dest);
        let replay = |extra: Value| json!({"cfg": cfg.json(), "client": plan.cl.name(), "puller": puller, "logical_len": data.len(), "producer_goes_quiet_after_byte": park_at, "chunks_emitted_before_the_stall": sent, "stall_ms": stall_ms, "chunks_fetched": fetched, "observed": extra});
        if !parked || src.gate.timed_out() {
            match &result {
                // the producer is healthy and had not even gone quiet yet: the pull failed on its own
                Err(e) if !parked && !e.starts_with("harness:") => {
                    acc.evals += 1;
                    acc.violation(
                        format!("C09:puller-error-on-healthy-stream:{puller}:{}", cfg.kind.class()),
                        format!("{who} failed on a healthy {}-byte stream after {fetched} chunks, before the producer reached byte {park_at} where it goes quiet: {e}", data.len()),
                        replay(json!({"result": format!("Err({})", trunc(e, 100))})),
                    );
                }
                _ => acc.inconclusive.push(format!("slow-producer family, {who}: the producer never reached its stall point (result {:?})", result.as_ref().map(|b| b.len()).map_err(|e| trunc(e, 80)))),
            }
            return;
        }
        acc.evals += 1;
        acc.count("slow_producer_pulls", 1);
        acc.count("chunks_fetched_by_slow_producer_pulls", fetched);
        let (parked_at, opened_at) = src.gate.times();
        let quiet = match (parked_at, opened_at) {
            (Some(p), Some(o)) => o.saturating_duration_since(p),
            _ => Duration::ZERO,
        };
        let sat = quiet >= stall && opened_at.map(|o| returned_at > o).unwrap_or(false);
        if sat {
            acc.count("slow_producer_pullers_sat_through_stall", 1);
            if stall_ms >= 10_000 {
                acc.count("slow_producer_pullers_sat_through_stall_longer_than_10s", 1);
            }
            acc.count(&format!("slow_producer_pullers_sat_through_{stall_ms}ms_stall"), 1);
        }
        acc.distinct.push(hash_of(&("slow-producer", cfg, plan.cl, plan.pk, stall_ms, result.is_ok(), fetched.min(12))));
        match &result {
            Ok(b) if *b == data => {
                acc.count("slow_producer_pulls_exact", 1);
                if acc.samples.is_empty() && stall_ms >= 10_000 {
                    acc.samples.push(replay(json!({"result": format!("Ok({} bytes, exact)", b.len()), "producer_was_quiet_ms": quiet.as_millis() as u64})));
                }
            }
            Ok(b) => {
                let at = first_diff(b, &data);
                let (what, how) = if b.len() < data.len() {
                    let gap = data.len() - b.len();
                    let realigned = data[at + gap..] == b[at..];
                    (
                        "bytes-missing",
                        if realigned {
                            format!("exactly the {gap} bytes [{at}..{}) are missing, the rest is in place ({} chunk(s) of {} bytes)", at + gap, gap.div_ceil(cfg.chunk), cfg.chunk)
                        } else {
                            format!("{gap} bytes short, first difference at byte {at}")
                        },
                    )
                } else if b.len() > data.len() {
                    ("bytes-extra", format!("{} bytes too many, first difference at byte {at}", b.len() - data.len()))
                } else {
                    ("bytes-differ", format!("same length, first difference at byte {at}"))
                };
                acc.violation(
                    format!("C09:slow-producer:{puller}:{what}"),
                    format!(
                        "{who} returned Ok with {} logical bytes after the producer had gone quiet for {} ms in the middle of its {}-byte stream and then finished: {how}",
                        b.len(),
                        quiet.as_millis(),
                        data.len()
                    ),
                    replay(json!({"result": format!("Ok({} bytes)", b.len()), "first_difference_at": at})),
                );
            }
            Err(e) if e.starts_with("harness:") => acc.inconclusive.push(format!("slow-producer family, {who}: {e}")),
            Err(e) => {
                // a clean failure is not a wrong stream; a published file with other bytes would be
                acc.count("slow_producer_pulls_failed_cleanly", 1);
                if let Some(f) = &published {
                    if *f != data {
                        acc.violation(
                            format!("C09:slow-producer:{puller}:error-but-wrong-file-published"),
                            format!("{who} failed ({}) yet a destination file with {} bytes (producer: {}) exists", trunc(e, 100), f.len(), data.len()),
                            replay(json!({"result": format!("Err({})", trunc(e, 100))})),
                        );
                    }
                }
                if acc.samples.len() < 2 {
                    acc.samples.push(replay(json!({"result": format!("Err({})", trunc(e, 120)), "producer_was_quiet_ms": quiet.as_millis() as u64})));
                }
            }
        }
    }

    fn scenario(plan: &Plan, rt: &Arc<tokio::runtime::Runtime>, acc: &mut Acc) {
        let cfg = &plan.cfg;
        let table = Arc::new(GateTable::default());
        let srv = match start_server_with(build_gated_router(cfg.kind, cfg.opts(), table.clone()), cfg.tr, rt) {
            Ok(s) => s,
            Err(e) => {
                acc.inconclusive.push(format!("slow-producer family: server start: {e}"));
                return;
            }
        };
        let client = match plan.cl {
            Cl::Sync => Client::connect(srv.addr).map(AnyClient::Sync).map_err(|e| format!("Client::connect: {e}")),
            Cl::Async => rt.block_on(AsyncClient::connect(srv.addr)).map(AnyClient::Async).map_err(|e| format!("AsyncClient::connect: {e}")),
            Cl::Ws => rt.block_on(WebSocketClient::connect(&format!("ws://{}/repe", srv.addr))).map(AnyClient::Ws).map_err(|e| format!("WebSocketClient::connect: {e}")),
        };
        let client = match client {
            Ok(c) => c,
            Err(e) => {
                acc.inconclusive.push(format!("slow-producer family: {e}"));
                return;
            }
        };
        let dir = svs::fresh_dir("c09-slow");
        let mut rng = Rng::new(plan.seed);
        for (n, &stall_ms) in plan.stalls_ms.iter().enumerate() {
            one_pull(plan, stall_ms, &table, &client, &dir, n, &mut rng, rt, acc);
        }
        let _ = std::fs::remove_dir_all(&dir);
        acc.count("slow_producer_scenarios", 1);
        match plan.cl {
            Cl::Sync => acc.count("slow_producer_blocking_puller_scenarios", 1),
            _ => acc.count("slow_producer_async_puller_scenarios", 1),
        }
    }

    fn plans(args: &Args) -> (Vec<Plan>, Vec<u64>) {
        let mut rng = Rng::new(args.seed ^ 0xC09_510E);
        let long: Vec<u64> = if args.thorough() { vec![12_000, 35_000, 65_000] } else { vec![12_000] };
        let mut v = vec![];
        for cl in [Cl::Sync, Cl::Async, Cl::Ws] {
            // every puller kind: the three byte pullers on a seeded producer kind, the three decoding pullers on theirs
            for variant in 0..6u8 {
                for &l in &long {
                    let e = ELEMS[rng.usize_below(5)];
                    let (pk, kind) = match variant {
                        0 => (Pk::ToVec, *rng.pick(&[Kind::Reader, Kind::Writer, Kind::Value, Kind::Typed(e)])),
                        1 => (Pk::Consume, *rng.pick(&[Kind::Reader, Kind::Writer, Kind::Value, Kind::Typed(e)])),
                        2 => (Pk::ToFile, *rng.pick(&[Kind::Reader, Kind::Writer, Kind::Value, Kind::Typed(e)])),
                        3 => (Pk::Decode, Kind::Value),
                        4 => (Pk::Decode, Kind::Typed(e)),
                        _ => (Pk::Decode, Kind::Complex(if rng.coin() { Elem::F32 } else { Elem::F64 })),
                    };
                    let chunk = *rng.pick(&[1usize, 3, 64, 4096, 65536]);
                    let zstd = (chunk == 64 || chunk == 4096) && rng.chance(1, 4);
                    let depth = rng.usize_below(if chunk >= 65536 { 3 } else { 9 });
                    let short = *rng.pick(&[0u64, 150, 600, 1500]);
                    v.push(Plan { cfg: Cfg { tr: if cl == Cl::Ws { Tr::Ws } else { Tr::Tcp }, kind, chunk, depth, zstd, fam: 3 }, cl, pk, stalls_ms: vec![short, l], seed: rng.next_u64() });
                }
            }
        }
        let n = args.budget(v.len() as u64, v.len() as u64) as usize;
        if n < v.len() {
            rng.shuffle(&mut v);
            v.truncate(n.max(1));
        }
        (v, long)
    }

    /// Start the family on its own threads (one per scenario: they mostly sleep).
    pub fn spawn(args: &Args) -> Family {
        let (plans, long) = plans(args);
        let rt = Arc::new(tokio::runtime::Builder::new_multi_thread().worker_threads(4).enable_all().build().expect("tokio runtime"));
        let (tx, rx) = mpsc::channel::<Acc>();
        let n = plans.len();
        for plan in plans {
            let (tx, rt) = (tx.clone(), rt.clone());
            std::thread::spawn(move || {
                let mut acc = Acc::default();
                if let Err(p) = catching(|| scenario(&plan, &rt, &mut acc)) {
                    acc.inconclusive.push(format!("harness panic in slow-producer scenario {plan:?}: {p}"));
                }
                let _ = tx.send(acc);
            });
        }
        // leave the runtime to the process exit: dropping it would wait for blocked tasks
        std::mem::forget(rt);
        let longest = long.iter().copied().max().unwrap_or(0);
        Family { rx, n, deadline: Instant::now() + Duration::from_millis(longest + 2_000) + Duration::from_secs(45), long_stalls_ms: long }
    }

    /// Collect the family's results (bounded: a scenario that does not come back is inconclusive).
    pub fn join(fam: Family, rep: &mut Report) {
        let mut done = 0usize;
        while done < fam.n {
            let left = fam.deadline.saturating_duration_since(Instant::now());
            match fam.rx.recv_timeout(left.max(Duration::from_millis(1))) {
                Ok(acc) => {
                    acc.merge_into(rep);
                    done += 1;
                }
                Err(mpsc::RecvTimeoutError::Timeout) => {
                    rep.inconclusive(format!("slow-producer family: {} of {} scenarios did not return within the window", fam.n - done, fam.n));
                    break;
                }
                Err(mpsc::RecvTimeoutError::Disconnected) => break,
            }
        }
        rep.set("slow_producer_scenarios_total", json!(fam.n));
        rep.set("slow_producer_scenarios_completed", json!(done));
        rep.set("slow_producer_long_stalls_ms", json!(fam.long_stalls_ms));
    }
}
