//! C03 helper: TCP servers with SHORT read timeouts and raw peers that deliver frames in pieces.
//!
//! A blocking `Server` and an `AsyncServer` are started with `read_timeout(Some(d))` for d = 60, 100, 150 ms.
//! A scenario is one connection on which the peer sends, in order: 0..2 ordinary requests, one "outer" request cut
//! into pieces with pauses shorter than / several times longer than d, and 0..3 more ordinary requests; then it
//! half-closes and reads to end of stream. The bytes of the outer request that follow the cut are, depending on the
//! scenario, (i) one complete valid request frame for a registered route with its own id and token, (ii) several of
//! them, (iii) garbage. These embedded pseudo-frames are never sent as frames: they are payload of the outer request.
//!
//! Oracle (event log + wire, no timing): a server may end the connection whenever the peer pauses, so a missing
//! response at the END of a connection is never a violation. Violations are: a response or a handler run for an
//! embedded pseudo-frame (a request nobody sent), a response with an id no sent frame carried, two responses for
//! one request, a response for a notify, a request skipped while a later one on the same connection was answered,
//! responses out of arrival order, wrong response fields, handler runs that do not match the responses.

//!
//! PACED traffic (second class, same servers plus two with a 300 ms timeout): every frame arrives WHOLE, spaced at 10..70 %
//! of the configured read timeout (never closer than 40 ms to it), for several timeouts in total, with long stretches
//! (1.3..3 timeouts) of frames that are answered with nothing (notifies, rejected notifies) between requests. The read
//! timeout bounds how long the server waits for the peer's next bytes, so a connection on which the peer itself measured
//! no gap longer than 0.8 timeouts (from the start of one write to the completion of the next) must not be ended by
//! the server: every notify's handler runs exactly once, every request gets exactly one response, the stream stays open
//! until the peer half-closes. Connections whose measured gaps were longer (peer-side scheduling jitter), or a run in
//! which the machine stalled, get the lenient oracle above instead. Signatures `C03:<transport>:read-timeout:paced:*`.

use super::cli::{CONNECT_T, EOS_T, End, WAIT_T};
use super::srv::{self, EV_H, T, Tin, Tout};
use crate::common::*;
use crate::oracle::{self, Frame, SpecHeader, StreamTail};
use repe::{AsyncServer, Server};
use serde_json::{Value, json};
use std::net::SocketAddr;
use std::sync::Arc;
use std::sync::atomic::{AtomicBool, Ordering};
use std::time::{Duration, Instant};
use tokio::io::{AsyncReadExt, AsyncWriteExt};
use tokio::time::timeout;

// ------------------------------------------------------------------ servers

#[derive(Clone, Debug)]
pub struct RtSrv {
    pub sid: u8,
    pub blocking: bool,
    pub d_ms: u64,
    pub addr: SocketAddr,
    /// used by the paced class only (the cut-frame class keeps its three timeouts)
    pub paced_only: bool,
}

impl RtSrv {
    /// transport name used in signatures
    pub fn tr(&self) -> &'static str {
        if self.blocking { "blocking" } else { "async" }
    }
    pub fn name(&self) -> String {
        format!("{}-read-timeout-{}ms", if self.blocking { "server" } else { "async-server" }, self.d_ms)
    }
}

pub const TIMEOUTS_MS: [u64; 3] = [60, 100, 150];
/// longer timeouts for the paced class (room for spacings of 70 % with a wide margin)
pub const PACED_EXTRA_MS: [u64; 1] = [300];

pub fn start(rt: &tokio::runtime::Runtime) -> std::io::Result<Vec<RtSrv>> {
    let mut v = vec![];
    let mut sid = 32u8;
    for (blocking, d_ms, paced_only) in [true, false].into_iter().flat_map(|b| TIMEOUTS_MS.into_iter().map(move |d| (b, d, false))).chain([true, false].into_iter().flat_map(|b| PACED_EXTRA_MS.into_iter().map(move |d| (b, d, true)))) {
        {
            let router = srv::build_router(sid, false, false);
            let d = Some(Duration::from_millis(d_ms));
            let addr = if blocking {
                let l = std::net::TcpListener::bind("127.0.0.1:0")?;
                let addr = l.local_addr()?;
                std::thread::Builder::new().name("c03-rt-server".into()).spawn(move || {
                    let _ = Server::new(router).read_timeout(d).serve(l);
                })?;
                addr
            } else {
                let l = rt.block_on(tokio::net::TcpListener::bind("127.0.0.1:0"))?;
                let addr = l.local_addr()?;
                rt.spawn(async move {
                    let _ = AsyncServer::new(router).read_timeout(d).serve(l).await;
                });
                addr
            };
            v.push(RtSrv { sid, blocking, d_ms, addr, paced_only });
            sid += 1;
        }
    }
    Ok(v)
}

// ------------------------------------------------------------------ scenario

#[derive(Clone, Debug)]
enum Step {
    Send(Vec<u8>),
    Pause(u64),
}

#[derive(Clone, Debug, PartialEq)]
enum Exp {
    /// success from a JSON-record handler: body decodes to this record
    Record(Tout),
    /// the custom erased handler echoing its payload: exact (query_format, body_format, body)
    Echo { qf: u16, bf: u16, body: Vec<u8> },
    /// rejected: one of these codes, text not pinned
    Code(Vec<u32>),
}

#[derive(Clone, Debug)]
struct Sent {
    role: &'static str,
    id: u64,
    token: u64,
    notify: u8,
    query: Vec<u8>,
    /// the user handler body is reached exactly once when the request is served
    invoked: bool,
    route: Option<T>,
    exp: Exp,
    len: usize,
}

struct Scen {
    idx: u64,
    srv: usize,
    steps: Vec<Step>,
    sent: Vec<Sent>,
    /// (id, token, notify) of the pseudo-frames planted inside the outer request
    embedded: Vec<(u64, u64, u8)>,
    outer: usize,
    outer_kind: &'static str,
    tail_kind: &'static str,
    cut_class: &'static str,
    cuts: Vec<usize>,
    pauses: Vec<u64>,
    /// some pause inside the outer request lasted several times the read timeout
    long_stall: bool,
    /// index of the first Send step that follows a long pause
    first_send_after_long: Option<usize>,
}

impl Scen {
    fn desc(&self, s: &RtSrv) -> Value {
        json!({
            "scenario": self.idx, "server": s.name(), "outer_kind": self.outer_kind, "tail_kind": self.tail_kind, "cut_class": self.cut_class,
            "outer_request_index": self.outer, "outer_request_len": self.sent[self.outer].len, "cut_offsets_in_outer_request": self.cuts, "pauses_ms": self.pauses,
            "sent": self.sent.iter().map(|f| json!({"role": f.role, "id": f.id, "token": f.token, "notify": f.notify, "query": String::from_utf8_lossy(&f.query[..f.query.len().min(40)]), "len": f.len})).collect::<Vec<_>>(),
            "embedded_pseudo_frames": self.embedded.iter().map(|e| json!({"id": e.0, "token": e.1, "notify": e.2})).collect::<Vec<_>>(),
            "steps": self.steps.iter().map(|s| match s { Step::Send(b) => json!({"send_hex": hex_trunc(b, 160), "len": b.len()}), Step::Pause(ms) => json!({"pause_ms": ms}) }).collect::<Vec<_>>(),
        })
    }
}

fn hdr(id: u64, notify: u8, version: u8, qf: u16, bf: u16) -> SpecHeader {
    SpecHeader { spec: oracle::SPEC, version, notify, id, query_format: qf, body_format: bf, ..Default::default() }
}

fn small_pad(rng: &mut Rng) -> String {
    const A: &[u8] = b"abcdefghijklmnopqrstuvwxyz0123456789";
    (0..rng.usize_below(24)).map(|_| *rng.pick(A) as char).collect()
}

/// An ordinary well-formed request to a JSON-record route (or, sometimes, to an unknown path / a notify).
fn ordinary(role: &'static str, token: u64, rng: &mut Rng) -> (Vec<u8>, Sent) {
    let id = super::gen_::id_of(token);
    let t = *rng.pick(&[T::Json, T::Typed, T::Jth, T::JCtx, T::BJson]);
    let r = Tin { t: token, op: 0, c: 0, pad: small_pad(rng) };
    let body = serde_json::to_vec(&r).unwrap();
    match rng.below(8) {
        0 => {
            let q = b"/nosuch/rt".to_vec();
            let w = oracle::frame(hdr(id, 0, 1, 1, 2), &q, &body);
            let len = w.len();
            (w, Sent { role, id, token, notify: 0, query: q, invoked: false, route: None, exp: Exp::Code(vec![6]), len })
        }
        1 => {
            let q = t.path().as_bytes().to_vec();
            let w = oracle::frame(hdr(id, 1, 1, 1, 2), &q, &body);
            let len = w.len();
            (w, Sent { role, id, token, notify: 1, query: q, invoked: true, route: Some(t), exp: Exp::Code(vec![]), len })
        }
        _ => {
            let q = t.path().as_bytes().to_vec();
            let w = oracle::frame(hdr(id, 0, 1, 1, 2), &q, &body);
            let len = w.len();
            let out = Tout { t: token, r: t.path().to_string(), pad: r.pad.clone(), fail: 0 };
            (w, Sent { role, id, token, notify: 0, query: q, invoked: true, route: Some(t), exp: Exp::Record(out), len })
        }
    }
}

/// A complete valid request frame for a registered route, to be planted as payload. Distinctive id.
fn pseudo_frame(token: u64, ascii_id: bool, rng: &mut Rng) -> (Vec<u8>, (u64, u64, u8)) {
    // 0x99.. ids are used by nothing else; the ASCII variant keeps every header byte < 0x80 (so the frame can sit in a UTF-8 query)
    let id = if ascii_id { 0x0063_0000_0000_0000 | (token & 0x7f) | ((token >> 7 & 0x7f) << 8) | ((token >> 14 & 0x7f) << 16) | ((token >> 21 & 0x7f) << 24) } else { 0x9900_0000_0000_0000 | token };
    let t = *rng.pick(&[T::Json, T::Typed, T::Jth]);
    let notify = if rng.chance(1, 6) { 1 } else { 0 };
    let r = Tin { t: token, op: 0, c: 0, pad: small_pad(rng) };
    let w = oracle::frame(hdr(id, notify, 1, 1, 2), t.path().as_bytes(), &serde_json::to_vec(&r).unwrap());
    (w, (id, token, notify))
}

fn garbage(rng: &mut Rng) -> Vec<u8> {
    match rng.below(3) {
        0 => {
            let k = 1 + rng.usize_below(200);
            rng.bytes(k)
        }
        1 => {
            // right magic, inconsistent lengths
            let mut h = hdr(rng.next_u64(), 0, 1, 1, 2);
            h.length = 48 + rng.below(1000);
            h.query_length = rng.below(64);
            h.body_length = h.length + 1 + rng.below(9);
            let mut v = h.encode().to_vec();
            let k = rng.usize_below(64);
            v.extend(rng.bytes(k));
            v
        }
        _ => b"{\"t\":1,\"op\":0,\"c\":0,\"pad\":\"not a frame at all, just text that is long enough to cover one header\"}".to_vec(),
    }
}

/// Payload that follows the cut: returns (bytes, embedded, tail kind).
fn tail(tok: &mut u64, ascii: bool, rng: &mut Rng) -> (Vec<u8>, Vec<(u64, u64, u8)>, &'static str) {
    let kind = *rng.pick(&["one-frame", "one-frame", "several-frames", "several-frames", "frames-then-garbage", "garbage"]);
    let n = match kind {
        "one-frame" => 1,
        "garbage" => 0,
        _ => 2 + rng.usize_below(4),
    };
    let mut bytes = vec![];
    let mut emb = vec![];
    for _ in 0..n {
        let (w, e) = pseudo_frame(*tok, ascii, rng);
        *tok += 1;
        bytes.extend(w);
        emb.push(e);
    }
    if kind == "garbage" || kind == "frames-then-garbage" {
        let g = garbage(rng);
        bytes.extend(if ascii { g.iter().map(|b| b & 0x7f).collect::<Vec<u8>>() } else { g });
    }
    (bytes, emb, kind)
}

struct Outer {
    wire: Vec<u8>,
    sent: Sent,
    embedded: Vec<(u64, u64, u8)>,
    /// offset in `wire` where the planted payload starts (None: nothing planted)
    embed_at: Option<usize>,
    kind: &'static str,
    tail_kind: &'static str,
    ql: usize,
}

fn outer(tok: &mut u64, rng: &mut Rng) -> Outer {
    let token = *tok;
    *tok += 1;
    let id = super::gen_::id_of(token);
    let kind = *rng.pick(&["erased-echo", "erased-echo", "erased-notify", "unknown-path", "bad-version", "payload-in-query", "cut-in-header-at-16", "plain-json"]);
    match kind {
        "erased-echo" | "erased-notify" => {
            let notify = (kind == "erased-notify") as u8;
            let (pay, embedded, tail_kind) = tail(tok, false, rng);
            let bf = *rng.pick(&[0u16, 1, 2, 3]);
            let mut body = token.to_le_bytes().to_vec();
            body.push(0); // op 0: echo payload, request's formats, request's query
            body.push(0);
            body.extend_from_slice(&pay);
            let q = T::Erased.path().as_bytes().to_vec();
            let wire = oracle::frame(hdr(id, notify, 1, 1, bf), &q, &body);
            let len = wire.len();
            let exp = if notify == 1 { Exp::Code(vec![]) } else { Exp::Echo { qf: 1, bf, body: pay } };
            Outer { wire, sent: Sent { role: "outer", id, token, notify, query: q.clone(), invoked: true, route: Some(T::Erased), exp, len }, embedded, embed_at: Some(48 + q.len() + 10), kind, tail_kind, ql: q.len() }
        }
        "unknown-path" | "bad-version" => {
            let (pay, embedded, tail_kind) = tail(tok, false, rng);
            let (q, version, code) = if kind == "unknown-path" { (b"/nosuch/outer".to_vec(), 1u8, 6u32) } else { (b"/json".to_vec(), *rng.pick(&[0u8, 2, 0xff]), 1u32) };
            let wire = oracle::frame(hdr(id, 0, version, 1, *rng.pick(&[0u16, 2])), &q, &pay);
            let len = wire.len();
            Outer { wire, sent: Sent { role: "outer", id, token, notify: 0, query: q.clone(), invoked: false, route: None, exp: Exp::Code(vec![code]), len }, embedded, embed_at: Some(48 + q.len()), kind, tail_kind, ql: q.len() }
        }
        "payload-in-query" => {
            let ascii = rng.coin();
            let (pay, embedded, tail_kind) = tail(tok, ascii, rng);
            let mut q = b"/q".to_vec();
            q.extend_from_slice(&pay);
            // a JSON-pointer query: not UTF-8 -> invalid query (3); UTF-8 but unregistered -> unknown path (6)
            let code = if std::str::from_utf8(&q).is_ok() { 6 } else { 3 };
            let body = serde_json::to_vec(&Tin { t: token, op: 0, c: 0, pad: small_pad(rng) }).unwrap();
            let wire = oracle::frame(hdr(id, 0, 1, 1, 2), &q, &body);
            let len = wire.len();
            Outer { wire, sent: Sent { role: "outer", id, token, notify: 0, query: q.clone(), invoked: false, route: None, exp: Exp::Code(vec![code]), len }, embedded, embed_at: Some(48 + 2), kind, tail_kind, ql: q.len() }
        }
        "cut-in-header-at-16" => {
            // Outer header bytes 16..48 plus the first 16 query bytes form the header of a pseudo-frame P:
            //   P.length = outer.id; P.spec/version/notify/reserved = outer.query_length = 0x0001_1507 (70919 bytes of query);
            //   P.id = outer.body_length; P.query_length = outer.(query_format | body_format << 16 | ec << 32) = 5 ("/json");
            //   P.body_length, P.(query_format, body_format, ec) = the first 16 query bytes.
            // The outer request is a well-framed request with an unassigned query-format code (5): invalid query.
            const OUTER_QL: usize = 0x0001_1507;
            let ptoken = *tok;
            *tok += 1;
            let pbody = serde_json::to_vec(&Tin { t: ptoken, op: 0, c: 0, pad: small_pad(rng) }).unwrap();
            let mut q: Vec<u8> = vec![];
            q.extend_from_slice(&(pbody.len() as u64).to_le_bytes());
            q.extend_from_slice(&1u16.to_le_bytes());
            q.extend_from_slice(&2u16.to_le_bytes());
            q.extend_from_slice(&0u32.to_le_bytes());
            q.extend_from_slice(b"/json");
            q.extend_from_slice(&pbody);
            let outer_id = 48 + 5 + pbody.len() as u64;
            let body_len = 1000 + rng.usize_below(3000);
            let mut embedded = vec![(body_len as u64, ptoken, 0u8)];
            let tail_kind = if rng.coin() {
                let (pay, more, _) = tail(tok, false, rng);
                q.extend_from_slice(&pay);
                embedded.extend(more);
                "several-frames"
            } else {
                "one-frame"
            };
            assert!(q.len() < OUTER_QL);
            q.resize(OUTER_QL, 0);
            let body = rng.bytes(body_len);
            let wire = oracle::frame(hdr(outer_id, 0, 1, 5, 0), &q, &body);
            let len = wire.len();
            Outer { wire, sent: Sent { role: "outer", id: outer_id, token, notify: 0, query: q, invoked: false, route: None, exp: Exp::Code(vec![3]), len }, embedded, embed_at: Some(16), kind, tail_kind, ql: OUTER_QL }
        }
        _ => {
            let t = *rng.pick(&[T::Json, T::Typed, T::Jth]);
            let r = Tin { t: token, op: 0, c: 0, pad: (0..40 + rng.usize_below(400)).map(|_| 'p').collect() };
            let q = t.path().as_bytes().to_vec();
            let wire = oracle::frame(hdr(id, 0, 1, 1, 2), &q, &serde_json::to_vec(&r).unwrap());
            let len = wire.len();
            let out = Tout { t: token, r: t.path().to_string(), pad: r.pad, fail: 0 };
            Outer { wire, sent: Sent { role: "outer", id, token, notify: 0, query: q.clone(), invoked: true, route: Some(t), exp: Exp::Record(out), len }, embedded: vec![], embed_at: None, kind, tail_kind: "rest-of-frame", ql: q.len() }
        }
    }
}

fn gen_scen(idx: u64, n_srv: usize, servers: &[RtSrv], rng: &mut Rng) -> Scen {
    let srv = (idx as usize) % n_srv;
    let d = servers[srv].d_ms;
    let mut tok = (1u64 << 40) + idx * 64;
    let mut steps = vec![];
    let mut sent = vec![];
    let mut first = vec![];
    for _ in 0..rng.usize_below(3) {
        let (w, s) = ordinary("before", tok, rng);
        tok += 1;
        first.extend(w);
        sent.push(s);
    }
    let o = outer(&mut tok, rng);
    let n = o.wire.len();
    let e = o.embed_at;
    let oql = o.ql;
    let long = |rng: &mut Rng| d * (4 + rng.below(3));
    let short = |rng: &mut Rng| (d / (6 + rng.below(7))).max(1);
    let interesting = |rng: &mut Rng| -> usize {
        let mut c = vec![1, 7, 8, 9, 16, 24, 40, 47, 48, 49, 48 + oql - 1, 48 + oql, 48 + oql + 1, n / 2, n - 1, 1 + rng.usize_below(n - 1)];
        if let Some(e) = e {
            c.extend([e - 1, e + 1, e + 47, e + 48, e + 49]);
        }
        c.retain(|&k| k >= 1 && k < n);
        *rng.pick(&c)
    };
    // (cut offsets, pause after each cut)
    let (cut_class, mut cuts): (&'static str, Vec<(usize, u64)>) = match (rng.below(10), e) {
        (0..=3, Some(e)) => ("at-payload-start:long-pause", vec![(e, long(rng))]),
        (4, Some(e)) => ("at-payload-start:short-pause", vec![(e, short(rng))]),
        (5, Some(e)) => {
            // a second long pause inside the first planted frame
            let k2 = (e + 1 + rng.usize_below(60)).min(n - 1);
            ("at-payload-start-and-inside-payload:long-pauses", vec![(e, long(rng)), (k2, long(rng))])
        }
        (6, _) => ("interesting-offset:short-pause", vec![(interesting(rng), short(rng))]),
        (7, _) => {
            let mut v: Vec<(usize, u64)> = (0..2 + rng.usize_below(3)).map(|_| (interesting(rng), if rng.chance(1, 3) { long(rng) } else { short(rng) })).collect();
            if let Some(e) = e {
                v.push((e, if rng.coin() { long(rng) } else { short(rng) }));
            }
            ("several-cuts:mixed-pauses", v)
        }
        _ => ("interesting-offset:long-pause", vec![(interesting(rng), long(rng))]),
    };
    cuts.sort();
    cuts.dedup_by_key(|c| c.0);
    let mut at = 0usize;
    let mut long_stall = false;
    let mut first_send_after_long = None;
    for (k, p) in &cuts {
        first.extend_from_slice(&o.wire[at..*k]);
        steps.push(Step::Send(std::mem::take(&mut first)));
        steps.push(Step::Pause(*p));
        if *p >= 4 * d {
            long_stall = true;
            if first_send_after_long.is_none() {
                first_send_after_long = Some(steps.len());
            }
        }
        at = *k;
    }
    first.extend_from_slice(&o.wire[at..]);
    let outer_idx = sent.len();
    sent.push(o.sent);
    // followers: right behind the rest of the outer request, or after another short pause
    let n_after = rng.usize_below(4);
    let split_after = rng.chance(1, 4);
    for i in 0..n_after {
        if i == 0 && split_after {
            steps.push(Step::Send(std::mem::take(&mut first)));
            steps.push(Step::Pause(short(rng)));
        }
        let (w, s) = ordinary("after", tok, rng);
        tok += 1;
        first.extend(w);
        sent.push(s);
    }
    steps.push(Step::Send(first));
    Scen {
        idx,
        srv,
        steps,
        sent,
        embedded: o.embedded,
        outer: outer_idx,
        outer_kind: o.kind,
        tail_kind: o.tail_kind,
        cut_class,
        pauses: cuts.iter().map(|c| c.1).collect(),
        cuts: cuts.iter().map(|c| c.0).collect(),
        long_stall,
        first_send_after_long,
    }
}

// ------------------------------------------------------------------ peer

struct RtOut {
    frames: Vec<Frame>,
    end: End,
    tail: StreamTail,
    bytes: usize,
    /// per Send step: had the peer already seen the end of the stream when it started this write
    closed_before_send: Vec<(usize, bool)>,
    write_error: Option<(usize, String)>,
}

async fn rt_conn(addr: SocketAddr, steps: Vec<Step>) -> RtOut {
    let harness = |e: String| RtOut { frames: vec![], end: End::Harness(e), tail: StreamTail::Clean, bytes: 0, closed_before_send: vec![], write_error: None };
    let stream = match timeout(CONNECT_T, tokio::net::TcpStream::connect(addr)).await {
        Ok(Ok(s)) => s,
        Ok(Err(e)) => return harness(format!("connect: {e}")),
        Err(_) => return harness("connect timeout".into()),
    };
    let _ = stream.set_nodelay(true);
    let (mut rd, mut wr) = stream.into_split();
    let eos = Arc::new(AtomicBool::new(false));
    let done = Arc::new(AtomicBool::new(false));
    let (eos_w, done_w) = (eos.clone(), done.clone());
    let writer = async move {
        let mut closed_before_send = vec![];
        let mut write_error = None;
        for (i, st) in steps.iter().enumerate() {
            match st {
                Step::Pause(ms) => tokio::time::sleep(Duration::from_millis(*ms)).await,
                Step::Send(b) => {
                    closed_before_send.push((i, eos_w.load(Ordering::SeqCst)));
                    match timeout(WAIT_T, wr.write_all(b)).await {
                        Ok(Ok(())) => {}
                        Ok(Err(e)) => {
                            write_error = Some((i, e.to_string()));
                            break;
                        }
                        Err(_) => {
                            write_error = Some((i, "write blocked".to_string()));
                            break;
                        }
                    }
                }
            }
        }
        let _ = wr.shutdown().await;
        done_w.store(true, Ordering::SeqCst);
        (wr, closed_before_send, write_error)
    };
    let reader = async move {
        let mut buf: Vec<u8> = Vec::new();
        let mut tmp = vec![0u8; 16384];
        let mut done_at: Option<Instant> = None;
        let end;
        loop {
            match timeout(Duration::from_millis(200), rd.read(&mut tmp)).await {
                Err(_) => {
                    if done.load(Ordering::SeqCst) {
                        let t0 = *done_at.get_or_insert_with(Instant::now);
                        if t0.elapsed() > EOS_T {
                            end = End::Timeout;
                            break;
                        }
                    }
                }
                Ok(Ok(0)) => {
                    end = End::Eos;
                    break;
                }
                Ok(Ok(k)) => buf.extend_from_slice(&tmp[..k]),
                Ok(Err(e)) => {
                    end = End::Unclean(e.to_string());
                    break;
                }
            }
        }
        eos.store(true, Ordering::SeqCst);
        (buf, end)
    };
    let ((_wr, closed_before_send, write_error), (buf, end)) = tokio::join!(writer, reader);
    let (frames, tail) = oracle::parse_stream(&buf);
    RtOut { frames, end, tail, bytes: buf.len(), closed_before_send, write_error }
}

// ------------------------------------------------------------------ oracle

fn judge(rep: &mut Report, args: &Args, sc: &Scen, s: &RtSrv, out: &RtOut, stalled: bool) {
    let tr = s.tr();
    let name = s.name();
    let replay = || json!({"seed": args.seed, "read_timeout_ms": s.d_ms, "scenario": sc.desc(s)});
    if let End::Harness(e) = &out.end {
        rep.inconclusive(format!("{name}: read-timeout scenario {} not executed: {e}", sc.idx));
        return;
    }
    rep.eval();
    rep.distinct(&(s.sid, sc.outer_kind, sc.tail_kind, sc.cut_class, &sc.cuts, sc.sent.len(), sc.outer));
    rep.count("rt.scenarios", 1);
    rep.count(&format!("rt.connections.{name}"), 1);
    rep.count(&format!("rt.outer_kind.{}", sc.outer_kind), 1);
    rep.count(&format!("rt.tail_kind.{}", sc.tail_kind), 1);
    rep.count(&format!("rt.cut_class.{}", sc.cut_class), 1);
    rep.count("rt.cuts_made", sc.cuts.len() as u64);
    for &k in &sc.cuts {
        let o = &sc.sent[sc.outer];
        let ql = o.query.len();
        let region = if k < 48 { "inside-header" } else if k == 48 { "after-header" } else if k < 48 + ql { "inside-query" } else if k == 48 + ql { "after-query" } else { "inside-body" };
        rep.count(&format!("rt.cut_region.{region}"), 1);
    }
    rep.count("rt.requests_sent_as_frames", sc.sent.len() as u64);
    rep.count("rt.pseudo_frames_planted", sc.embedded.len() as u64);
    rep.count("rt.frames_received", out.frames.len() as u64);
    rep.count("rt.response_bytes_received", out.bytes as u64);
    let ended = match &out.end {
        End::Eos => {
            rep.count("rt.end.eos", 1);
            true
        }
        End::Unclean(_) => {
            rep.count("rt.end.reset_or_transport_error", 1);
            true
        }
        _ => {
            rep.count("rt.end.not_observed", 1);
            rep.inconclusive(format!("{name}: no end of stream within {EOS_T:?} after half-closing (read-timeout scenario {})", sc.idx));
            false
        }
    };
    if out.write_error.is_some() {
        rep.count("rt.peer_writes_refused_after_server_closed", 1);
    }
    if sc.long_stall {
        rep.count("rt.long_stalls", 1);
        if let Some(step) = sc.first_send_after_long {
            match out.closed_before_send.iter().find(|c| c.0 == step) {
                Some((_, true)) => rep.count("rt.long_stall.connection_ended_by_server_during_the_stall", 1),
                Some((_, false)) => rep.count("rt.long_stall.connection_still_open_when_the_rest_was_sent", 1),
                None => {}
            }
        }
    }
    match &out.tail {
        StreamTail::Clean => {}
        StreamTail::Partial { at, have, need, .. } => {
            if out.end == End::Eos {
                rep.violation(
                    format!("C03:{tr}:read-timeout:response-stream-ends-inside-frame"),
                    format!("{name}, scenario {}: the response stream ended cleanly inside a frame at offset {at} ({have} of {need:?} bytes)", sc.idx),
                    replay(),
                );
            } else {
                rep.count("rt.info_partial_frame_before_reset", 1);
            }
        }
        StreamTail::Corrupt { at, header } => rep.violation(
            format!("C03:{tr}:read-timeout:response-stream-not-frames"),
            format!("{name}, scenario {}: bytes at offset {at} of the response stream are not a consistent REPE header: {header:?}", sc.idx),
            replay(),
        ),
    }
    // ---- attribute frames
    let mut got: Vec<Vec<usize>> = vec![vec![]; sc.sent.len()];
    for (pos, f) in out.frames.iter().enumerate() {
        if let Some(i) = sc.sent.iter().position(|r| r.id == f.header.id) {
            got[i].push(pos);
        } else if let Some(e) = sc.embedded.iter().find(|e| e.0 == f.header.id) {
            rep.count(&format!("rt.seen.responses_for_unsent_frames.{tr}.{}", sc.outer_kind), 1);
            rep.violation(
                format!("C03:{tr}:read-timeout:response-for-unsent-frame"),
                format!(
                    "{name}, scenario {}: response frame #{pos} carries id {:#x}: that id exists only INSIDE the payload of request #{} ({}, id {:#x}), which was delivered in pieces (cuts at {:?}, pauses {:?} ms, read timeout {} ms); no frame with that id was sent. Response: ec={} body={:?}",
                    sc.idx, e.0, sc.outer, sc.outer_kind, sc.sent[sc.outer].id, sc.cuts, sc.pauses, s.d_ms, f.header.ec, String::from_utf8_lossy(&f.body[..f.body.len().min(100)])
                ),
                replay(),
            );
        } else {
            rep.violation(
                format!("C03:{tr}:read-timeout:response-with-unknown-id"),
                format!("{name}, scenario {}: response frame #{pos} carries id {:#x} which neither a sent frame nor planted payload used (cuts at {:?}); header {:?} body={:?}", sc.idx, f.header.id, sc.cuts, f.header, String::from_utf8_lossy(&f.body[..f.body.len().min(100)])),
                replay(),
            );
        }
    }
    // ---- per sent request
    let mut last_pos: Option<(usize, usize)> = None;
    let last_answered = (0..sc.sent.len()).rev().find(|&i| !got[i].is_empty());
    for (i, r) in sc.sent.iter().enumerate() {
        let (hcnt, hroute) = srv::ev_take(s.sid, EV_H, r.token);
        let what = format!("request #{i} ({}{}, id {:#x}, {:?})", r.role, if i == sc.outer { format!(" {}", sc.outer_kind) } else { String::new() }, r.id, String::from_utf8_lossy(&r.query[..r.query.len().min(24)]));
        if r.notify == 1 {
            if !got[i].is_empty() {
                rep.violation(format!("C03:{tr}:read-timeout:notify-got-response"), format!("{name}, scenario {}: {what} has notify=1 but {} response(s) carry its id", sc.idx, got[i].len()), replay());
            }
            if hcnt > 1 {
                rep.violation(format!("C03:{tr}:read-timeout:handler-invoked-twice"), format!("{name}, scenario {}: {what} (notify): handler body reached {hcnt} times", sc.idx), replay());
            }
            continue;
        }
        match got[i].len() {
            0 => {
                if !ended {
                    continue;
                }
                if let Some(l) = last_answered.filter(|&l| l > i) {
                    rep.count(&format!("rt.seen.requests_skipped.{tr}"), 1);
                    rep.violation(
                        format!("C03:{tr}:read-timeout:request-skipped"),
                        format!(
                            "{name}, scenario {}: {what} was sent completely and got no response, yet the later request #{l} on the same connection was answered (cuts in request #{} at {:?}, pauses {:?} ms, read timeout {} ms; {} frames received)",
                            sc.idx, sc.outer, sc.cuts, sc.pauses, s.d_ms, out.frames.len()
                        ),
                        replay(),
                    );
                } else {
                    rep.count("rt.unanswered_at_connection_end", 1);
                    if i == sc.outer {
                        rep.count(if sc.long_stall { "rt.interrupted_request.unanswered_connection_ended.long_stall" } else { "rt.interrupted_request.unanswered_connection_ended.short_pauses_only" }, 1);
                    }
                }
                if hcnt > r.invoked as u32 {
                    rep.violation(format!("C03:{tr}:read-timeout:handler-invocations-extra"), format!("{name}, scenario {}: {what}: handler body reached {hcnt} time(s), at most {} expected", sc.idx, r.invoked as u32), replay());
                } else if hcnt == 1 {
                    rep.count("rt.info_handler_ran_but_response_not_received", 1);
                }
                continue;
            }
            1 => rep.count("rt.requests_with_exactly_one_response", 1),
            k => {
                rep.violation(format!("C03:{tr}:read-timeout:duplicate-response"), format!("{name}, scenario {}: {what}: {k} responses carry its id (cuts at {:?})", sc.idx, sc.cuts), replay());
                continue;
            }
        }
        if i == sc.outer {
            rep.count(if sc.long_stall { "rt.interrupted_request.served_as_one_request.long_stall" } else { "rt.interrupted_request.served_as_one_request.short_pauses_only" }, 1);
        }
        let pos = got[i][0];
        let f = &out.frames[pos];
        if let Some((pi, ppos)) = last_pos {
            rep.count("rt.order_pairs_checked", 1);
            if pos < ppos {
                rep.violation(format!("C03:{tr}:read-timeout:arrival-order"), format!("{name}, scenario {}: response to {what} is frame #{pos} but the response to the earlier request #{pi} is frame #{ppos}", sc.idx), replay());
            }
        }
        last_pos = Some((i, pos));
        if hcnt != r.invoked as u32 {
            rep.violation(
                format!("C03:{tr}:read-timeout:handler-invocations-{}", if hcnt > r.invoked as u32 { "extra" } else { "missing" }),
                format!("{name}, scenario {}: {what} was answered, handler body reached {hcnt} time(s), expected {}", sc.idx, r.invoked as u32),
                replay(),
            );
        } else if hcnt == 1 && Some(hroute) != r.route.map(|t| t as u8) {
            rep.violation(format!("C03:{tr}:read-timeout:handler-route-mismatch"), format!("{name}, scenario {}: {what}: token recorded by route id {hroute}, addressed {:?}", sc.idx, r.route), replay());
        } else {
            rep.count("rt.handler_invocations_matched", 1);
        }
        // fields
        let bad: Option<String> = if f.query != r.query {
            Some(format!("response query {} differs from the request's {}", hex_trunc(&f.query, 40), hex_trunc(&r.query, 40)))
        } else {
            match &r.exp {
                Exp::Code(c) => (!c.contains(&f.header.ec)).then(|| format!("ec={} but the statement requires {c:?}; body {:?}", f.header.ec, String::from_utf8_lossy(&f.body[..f.body.len().min(100)]))),
                Exp::Echo { qf, bf, body } => (f.header.ec != 0 || (f.header.query_format, f.header.body_format) != (*qf, *bf) || &f.body != body).then(|| {
                    format!("(ec, query_format, body_format, body) = ({}, {}, {}, {} [{} bytes]), the handler returned (0, {qf}, {bf}, {} [{} bytes])", f.header.ec, f.header.query_format, f.header.body_format, hex_trunc(&f.body, 40), f.body.len(), hex_trunc(body, 40), body.len())
                }),
                Exp::Record(want) => match serde_json::from_slice::<Tout>(&f.body) {
                    Ok(t) if f.header.ec == 0 && &t == want => None,
                    other => Some(format!("ec={} body decodes to {other:?}, the handler returned {want:?}", f.header.ec)),
                },
            }
        };
        match bad {
            Some(b) => rep.violation(format!("C03:{tr}:read-timeout:wrong-response"), format!("{name}, scenario {}: {what} (cuts in request #{} at {:?}, pauses {:?} ms): {b}", sc.idx, sc.outer, sc.cuts, sc.pauses), replay()),
            None => rep.count("rt.responses_matched", 1),
        }
    }
    // ---- planted pseudo-frames: no handler may have run for them
    for e in &sc.embedded {
        let (hcnt, hroute) = srv::ev_take(s.sid, EV_H, e.1);
        if hcnt > 0 {
            rep.count(&format!("rt.seen.handler_runs_for_unsent_frames.{tr}.{}", sc.outer_kind), 1);
            rep.violation(
                format!("C03:{tr}:read-timeout:handler-ran-for-unsent-frame"),
                format!(
                    "{name}, scenario {}: the handler of route id {hroute} ran {hcnt} time(s) with token {} — that token exists only INSIDE the payload of request #{} ({}), delivered in pieces (cuts at {:?}, pauses {:?} ms, read timeout {} ms); pseudo-frame id {:#x}, notify={}",
                    sc.idx, e.1, sc.outer, sc.outer_kind, sc.cuts, sc.pauses, s.d_ms, e.0, e.2
                ),
                replay(),
            );
        } else if ended {
            rep.count("rt.pseudo_frames_without_response_or_handler_run", 1);
        }
    }
    if stalled {
        // no verdict above depends on time; recorded so a reader can discount the evidence counters of a stalled run
        rep.count("rt.scenarios_judged_after_a_machine_stall", 1);
    }
}

pub async fn run(rep: &mut Report, args: &Args, servers: &Arc<Vec<RtSrv>>, hb: &Heartbeat, n: u64, deadline: Duration) {
    let servers: Arc<Vec<RtSrv>> = Arc::new(servers.iter().filter(|s| !s.paced_only).cloned().collect());
    let servers = &servers;
    let mut rng = Rng::new(args.seed ^ 0xC03_0071);
    let in_flight = 160usize;
    let mut pending: std::collections::VecDeque<(Scen, tokio::task::JoinHandle<RtOut>)> = Default::default();
    let mut next = 0u64;
    let mut sampled = 0;
    loop {
        while pending.len() < in_flight && next < n && rep.elapsed() < deadline {
            let mut r = rng.fork(next);
            let sc = gen_scen(next, servers.len(), servers, &mut r);
            let h = tokio::spawn(rt_conn(servers[sc.srv].addr, sc.steps.clone()));
            pending.push_back((sc, h));
            next += 1;
        }
        let Some((sc, h)) = pending.pop_front() else { break };
        let out = match h.await {
            Ok(o) => o,
            Err(e) => {
                rep.inconclusive(format!("read-timeout scenario {} failed: {e}", sc.idx));
                continue;
            }
        };
        let s = &servers[sc.srv];
        if sampled < 2 && sc.long_stall && !sc.embedded.is_empty() {
            sampled += 1;
            rep.sample(json!({"read_timeout_scenario": sc.desc(s), "frames_received": out.frames.len(), "end": format!("{:?}", out.end)}));
        }
        judge(rep, args, &sc, s, &out, hb.max_gap_ms() > 1000);
    }
    rep.set("rt.scenarios_planned", json!(n));
    if next < n {
        rep.set("rt.stopped_by_wall_clock_budget", json!(true));
    }
    if rep.get_count("rt.scenarios") == 0 {
        rep.inconclusive("read-timeout class: no scenario executed");
    }
}

// ------------------------------------------------------------------ paced traffic (whole frames, spaced inside the timeout)

struct PFrame {
    /// planned pause before this frame is written
    gap_ms: u64,
    wire: Vec<u8>,
    sent: Sent,
}

struct PScen {
    idx: u64,
    srv: usize,
    frames: Vec<PFrame>,
    /// longest planned stretch (ms) without a frame that is answered
    longest_silent_stretch_ms: u64,
    planned_ms: u64,
}

impl PScen {
    fn desc(&self, s: &RtSrv) -> Value {
        json!({
            "paced_scenario": self.idx, "server": s.name(), "read_timeout_ms": s.d_ms, "planned_duration_ms": self.planned_ms,
            "longest_planned_stretch_without_answered_frame_ms": self.longest_silent_stretch_ms,
            "frames": self.frames.iter().map(|f| json!({"pause_before_ms": f.gap_ms, "role": f.sent.role, "id": f.sent.id, "token": f.sent.token, "notify": f.sent.notify, "query": String::from_utf8_lossy(&f.sent.query[..f.sent.query.len().min(40)]), "len": f.sent.len, "wire_hex": hex_trunc(&f.wire, 120)})).collect::<Vec<_>>(),
        })
    }
}

/// One whole frame of the given role: "request" (answered, handler runs), "rejected-request" (answered with an error code),
/// "notify" (handler runs, nothing answered), "rejected-notify" (unknown path / unsupported version with the notify flag
/// set: nothing runs, nothing is answered).
fn paced_frame(role: &'static str, token: u64, rng: &mut Rng) -> (Vec<u8>, Sent) {
    let id = super::gen_::id_of(token);
    let t = *rng.pick(&[T::Json, T::Typed, T::Jth, T::JCtx, T::BJson, T::RegFn]);
    let r = Tin { t: token, op: 0, c: 0, pad: small_pad(rng) };
    let body = serde_json::to_vec(&r).unwrap();
    let notify = (role == "notify" || role == "rejected-notify") as u8;
    match role {
        "request" | "notify" => {
            let q = t.path().as_bytes().to_vec();
            let w = oracle::frame(hdr(id, notify, 1, 1, 2), &q, &body);
            let len = w.len();
            let exp = if notify == 1 { Exp::Code(vec![]) } else { Exp::Record(Tout { t: token, r: t.path().to_string(), pad: r.pad.clone(), fail: 0 }) };
            (w, Sent { role, id, token, notify, query: q, invoked: true, route: Some(t), exp, len })
        }
        _ => {
            let (q, version, code) = if rng.coin() { (b"/nosuch/paced".to_vec(), 1u8, 6u32) } else { (t.path().as_bytes().to_vec(), *rng.pick(&[0u8, 2, 0xff]), 1u32) };
            let w = oracle::frame(hdr(id, notify, version, 1, 2), &q, &body);
            let len = w.len();
            (w, Sent { role, id, token, notify, query: q, invoked: false, route: None, exp: Exp::Code(if notify == 1 { vec![] } else { vec![code] }), len })
        }
    }
}

fn gen_paced(idx: u64, servers: &[RtSrv], rng: &mut Rng) -> PScen {
    let srv = (idx as usize) % servers.len();
    let d = servers[srv].d_ms;
    let mut tok = (1u64 << 41) + idx * 256;
    // one spacing class per stretch: 10..70 % of the timeout, never closer than 40 ms to it
    let spacing = |rng: &mut Rng| -> u64 { (d * (10 + rng.below(61)) / 100).min(d.saturating_sub(40)).max(4) };
    let mut frames: Vec<PFrame> = vec![];
    let mut push = |frames: &mut Vec<PFrame>, role: &'static str, gap_ms: u64, rng: &mut Rng| {
        let (wire, sent) = paced_frame(role, tok, rng);
        tok += 1;
        frames.push(PFrame { gap_ms, wire, sent });
    };
    let g0 = spacing(rng);
    for _ in 0..rng.usize_below(3) {
        let role = if rng.chance(1, 4) { "rejected-request" } else { "request" };
        push(&mut frames, role, g0, rng);
    }
    let mut longest = 0u64;
    for _ in 0..1 + rng.usize_below(2) {
        // a stretch of 1.3 .. 3 timeouts in which nothing is answered
        let want = d * (130 + rng.below(171)) / 100;
        let g = spacing(rng);
        let kind = rng.below(3); // 0: notifies, 1: rejected notifies, 2: both
        let mut t = 0u64;
        while t < want && frames.len() < 200 {
            let role = match kind {
                0 => "notify",
                1 => "rejected-notify",
                _ => {
                    if rng.coin() { "notify" } else { "rejected-notify" }
                }
            };
            push(&mut frames, role, g, rng);
            t += g;
        }
        longest = longest.max(t + g);
        let role = if rng.chance(1, 5) { "rejected-request" } else { "request" };
        push(&mut frames, role, g, rng);
        if rng.coin() {
            // paced request/response traffic in between
            for _ in 0..1 + rng.usize_below(3) {
                push(&mut frames, "request", g, rng);
            }
        }
    }
    let planned_ms = frames.iter().map(|f| f.gap_ms).sum();
    PScen { idx, srv, frames, longest_silent_stretch_ms: longest, planned_ms }
}

struct POut {
    out: RtOut,
    /// per frame: (ms offset at which its write started, ms offset at which it completed); offsets from just before connect()
    writes: Vec<(u64, u64)>,
    /// ms offset at which the peer saw the end of the stream (or a transport error)
    eos_ms: Option<u64>,
    /// ms offset at which the peer half-closed
    shutdown_ms: Option<u64>,
}

async fn paced_conn(addr: SocketAddr, frames: Vec<(u64, Vec<u8>)>) -> POut {
    let t0 = Instant::now();
    let ms = move || t0.elapsed().as_millis() as u64;
    let harness = |e: String| POut { out: RtOut { frames: vec![], end: End::Harness(e), tail: StreamTail::Clean, bytes: 0, closed_before_send: vec![], write_error: None }, writes: vec![], eos_ms: None, shutdown_ms: None };
    let stream = match timeout(CONNECT_T, tokio::net::TcpStream::connect(addr)).await {
        Ok(Ok(s)) => s,
        Ok(Err(e)) => return harness(format!("connect: {e}")),
        Err(_) => return harness("connect timeout".into()),
    };
    let _ = stream.set_nodelay(true);
    let (mut rd, mut wr) = stream.into_split();
    let eos = Arc::new(AtomicBool::new(false));
    let done = Arc::new(AtomicBool::new(false));
    let (eos_w, done_w) = (eos.clone(), done.clone());
    let writer = async move {
        let mut closed_before_send = vec![];
        let mut write_error = None;
        let mut writes = vec![];
        for (i, (gap, b)) in frames.iter().enumerate() {
            tokio::time::sleep(Duration::from_millis(*gap)).await;
            closed_before_send.push((i, eos_w.load(Ordering::SeqCst)));
            let a = ms();
            match timeout(WAIT_T, wr.write_all(b)).await {
                Ok(Ok(())) => writes.push((a, ms())),
                Ok(Err(e)) => {
                    write_error = Some((i, e.to_string()));
                    break;
                }
                Err(_) => {
                    write_error = Some((i, "write blocked".to_string()));
                    break;
                }
            }
        }
        let shutdown_ms = ms();
        let _ = wr.shutdown().await;
        done_w.store(true, Ordering::SeqCst);
        (wr, closed_before_send, write_error, writes, shutdown_ms)
    };
    let reader = async move {
        let mut buf: Vec<u8> = Vec::new();
        let mut tmp = vec![0u8; 16384];
        let mut done_at: Option<Instant> = None;
        let end;
        loop {
            match timeout(Duration::from_millis(200), rd.read(&mut tmp)).await {
                Err(_) => {
                    if done.load(Ordering::SeqCst) {
                        let t = *done_at.get_or_insert_with(Instant::now);
                        if t.elapsed() > EOS_T {
                            end = End::Timeout;
                            break;
                        }
                    }
                }
                Ok(Ok(0)) => {
                    end = End::Eos;
                    break;
                }
                Ok(Ok(k)) => buf.extend_from_slice(&tmp[..k]),
                Ok(Err(e)) => {
                    end = End::Unclean(e.to_string());
                    break;
                }
            }
        }
        let eos_ms = if end == End::Timeout { None } else { Some(ms()) };
        eos.store(true, Ordering::SeqCst);
        (buf, end, eos_ms)
    };
    let ((_wr, closed_before_send, write_error, writes, shutdown_ms), (buf, end, eos_ms)) = tokio::join!(writer, reader);
    let (frames, tail) = oracle::parse_stream(&buf);
    POut { out: RtOut { frames, end, tail, bytes: buf.len(), closed_before_send, write_error }, writes, eos_ms, shutdown_ms: Some(shutdown_ms) }
}

/// The paced connections in flight (they mostly sleep, so they run next to the cut-frame class).
pub struct Paced {
    servers: Arc<Vec<RtSrv>>,
    runs: Vec<(PScen, tokio::task::JoinHandle<POut>)>,
}

pub fn spawn_paced(args: &Args, servers: &Arc<Vec<RtSrv>>) -> Paced {
    let mut rng = Rng::new(args.seed ^ 0xC03_9ACE);
    let n = args.budget(72, 960);
    let mut runs = vec![];
    for idx in 0..n {
        let mut r = rng.fork(idx);
        let sc = gen_paced(idx, servers, &mut r);
        let frames: Vec<(u64, Vec<u8>)> = sc.frames.iter().map(|f| (f.gap_ms, f.wire.clone())).collect();
        let addr = servers[sc.srv].addr;
        // thorough: start in waves so that at most ~100 connections are paced at once
        let delay = Duration::from_millis((idx / 96) * 2600);
        let h = tokio::spawn(async move {
            tokio::time::sleep(delay).await;
            paced_conn(addr, frames).await
        });
        runs.push((sc, h));
    }
    Paced { servers: servers.clone(), runs }
}

pub async fn judge_paced(rep: &mut Report, args: &Args, paced: Paced, hb: &Heartbeat) {
    let servers = paced.servers;
    let mut sampled = false;
    for (sc, h) in paced.runs {
        let s = &servers[sc.srv];
        let po = match timeout(Duration::from_secs(90), h).await {
            Ok(Ok(o)) => o,
            Ok(Err(e)) => {
                rep.inconclusive(format!("paced scenario {} failed: {e}", sc.idx));
                continue;
            }
            Err(_) => {
                rep.inconclusive(format!("paced scenario {} did not finish", sc.idx));
                continue;
            }
        };
        if !sampled {
            sampled = true;
            rep.sample(json!({"paced_read_timeout_scenario": sc.desc(s), "frames_received": po.out.frames.len(), "end": format!("{:?}", po.out.end)}));
        }
        judge_paced_one(rep, args, &sc, s, &po, hb.max_gap_ms() > 1000);
    }
    if rep.get_count("rt.paced.scenarios") == 0 {
        rep.inconclusive("paced read-timeout class: no scenario executed");
    } else if rep.get_count("rt.paced.judged_strictly") * 4 < rep.get_count("rt.paced.scenarios") {
        rep.inconclusive(format!(
            "paced read-timeout class: only {} of {} connections kept their own pacing inside 0.8 timeouts (peer-side jitter / machine stall); too few to judge",
            rep.get_count("rt.paced.judged_strictly"),
            rep.get_count("rt.paced.scenarios")
        ));
    }
}

fn judge_paced_one(rep: &mut Report, args: &Args, sc: &PScen, s: &RtSrv, po: &POut, stalled: bool) {
    let tr = s.tr();
    let name = s.name();
    let out = &po.out;
    if let End::Harness(e) = &out.end {
        rep.inconclusive(format!("{name}: paced scenario {} not executed: {e}", sc.idx));
        return;
    }
    rep.eval();
    rep.distinct(&(s.sid, "paced", sc.frames.iter().map(|f| (f.sent.role, f.gap_ms * 10 / s.d_ms)).collect::<Vec<_>>()));
    rep.count("rt.paced.scenarios", 1);
    rep.count(&format!("rt.paced.connections.{name}"), 1);
    rep.count("rt.paced.frames_sent", po.writes.len() as u64);
    for f in &sc.frames {
        rep.count(&format!("rt.paced.frames.{}", f.sent.role), 1);
        rep.count(&format!("rt.paced.spacing_tenths_of_timeout.{}", (f.gap_ms * 10 / s.d_ms).min(9)), 1);
    }
    rep.count("rt.paced.planned_duration_in_timeouts_x10", sc.planned_ms * 10 / s.d_ms);
    rep.count("rt.paced.longest_silent_stretch_in_timeouts_x10", sc.longest_silent_stretch_ms * 10 / s.d_ms);
    // the peer's own measurement: from the start of one write (before connect() for the first) to the completion of the next
    let mut max_gap = 0u64;
    let mut prev_start = 0u64;
    for &(a, b) in &po.writes {
        max_gap = max_gap.max(b.saturating_sub(prev_start));
        prev_start = a;
    }
    if let Some(sd) = po.shutdown_ms {
        max_gap = max_gap.max(sd.saturating_sub(prev_start));
    }
    let strict = !stalled && max_gap * 10 <= s.d_ms * 8;
    rep.count(if strict { "rt.paced.judged_strictly" } else { "rt.paced.judged_leniently_peer_pacing_slipped_or_machine_stalled" }, 1);
    let replay = || json!({"seed": args.seed, "read_timeout_ms": s.d_ms, "scenario": sc.desc(s), "measured": {"writes_start_end_ms": po.writes, "longest_gap_ms": max_gap, "end_of_stream_seen_at_ms": po.eos_ms, "peer_half_closed_at_ms": po.shutdown_ms}});
    let ended = matches!(out.end, End::Eos | End::Unclean(_));
    if !ended {
        rep.inconclusive(format!("{name}: no end of stream within {EOS_T:?} after half-closing (paced scenario {})", sc.idx));
    }
    let timing = format!("read timeout {} ms, frames spaced {}..{} ms, longest gap the peer measured {} ms, {} of {} frames written", s.d_ms, sc.frames.iter().map(|f| f.gap_ms).min().unwrap_or(0), sc.frames.iter().map(|f| f.gap_ms).max().unwrap_or(0), max_gap, po.writes.len(), sc.frames.len());
    // ---- the connection must stay open while the peer keeps sending inside the window
    let closed_early = out.write_error.is_some() || out.closed_before_send.iter().any(|c| c.1) || matches!((po.eos_ms, po.shutdown_ms), (Some(e), Some(sd)) if e < sd);
    if closed_early {
        if strict {
            let at = out.closed_before_send.iter().find(|c| c.1).map(|c| c.0).or(out.write_error.as_ref().map(|e| e.0));
            rep.count(&format!("rt.paced.seen.connection_ended_by_server_while_peer_kept_sending.{tr}"), 1);
            rep.violation(
                format!("C03:{tr}:read-timeout:paced:connection-closed-while-frames-kept-arriving"),
                format!(
                    "{name}, paced scenario {}: the server ended the connection (end of stream seen at {:?} ms{}) although the peer never paused for longer than 0.8 read timeouts; {timing}; frames before the close: {}",
                    sc.idx,
                    po.eos_ms,
                    at.map(|i| format!(", before frame #{i} was written")).unwrap_or_default(),
                    sc.frames.iter().take(at.unwrap_or(sc.frames.len())).map(|f| f.sent.role.chars().next().unwrap_or('?').to_string() + if f.sent.role.starts_with("rejected") { "x" } else { "" }).collect::<Vec<_>>().join(" ")
                ),
                replay(),
            );
        } else {
            rep.count("rt.paced.info_connection_ended_early_on_a_leniently_judged_connection", 1);
        }
    } else if ended {
        rep.count("rt.paced.connections_open_until_the_peer_half_closed", 1);
    }
    match &out.tail {
        StreamTail::Clean => {}
        StreamTail::Partial { at, have, need, .. } => {
            if out.end == End::Eos {
                rep.violation(format!("C03:{tr}:read-timeout:response-stream-ends-inside-frame"), format!("{name}, paced scenario {}: the response stream ended cleanly inside a frame at offset {at} ({have} of {need:?} bytes)", sc.idx), replay());
            }
        }
        StreamTail::Corrupt { at, header } => rep.violation(format!("C03:{tr}:read-timeout:response-stream-not-frames"), format!("{name}, paced scenario {}: bytes at offset {at} of the response stream are not a consistent REPE header: {header:?}", sc.idx), replay()),
    }
    let mut got: Vec<Vec<usize>> = vec![vec![]; sc.frames.len()];
    for (pos, f) in out.frames.iter().enumerate() {
        match sc.frames.iter().position(|r| r.sent.id == f.header.id) {
            Some(i) => got[i].push(pos),
            None => rep.violation(format!("C03:{tr}:read-timeout:response-with-unknown-id"), format!("{name}, paced scenario {}: response frame #{pos} carries id {:#x} which no sent frame used; header {:?}", sc.idx, f.header.id, f.header), replay()),
        }
    }
    let last_answered = (0..sc.frames.len()).rev().find(|&i| !got[i].is_empty());
    let mut last_pos: Option<(usize, usize)> = None;
    for (i, pf) in sc.frames.iter().enumerate() {
        let r = &pf.sent;
        let (hcnt, hroute) = srv::ev_take(s.sid, EV_H, r.token);
        let written = i < po.writes.len();
        let what = format!("frame #{i} ({}, id {:#x}, {:?})", r.role, r.id, String::from_utf8_lossy(&r.query[..r.query.len().min(24)]));
        if hcnt > r.invoked as u32 {
            rep.violation(format!("C03:{tr}:read-timeout:handler-invocations-extra"), format!("{name}, paced scenario {}: {what}: handler body reached {hcnt} time(s), at most {} expected", sc.idx, r.invoked as u32), replay());
        } else if hcnt == 1 && Some(hroute) != r.route.map(|t| t as u8) {
            rep.violation(format!("C03:{tr}:read-timeout:handler-route-mismatch"), format!("{name}, paced scenario {}: {what}: token recorded by route id {hroute}, addressed {:?}", sc.idx, r.route), replay());
        }
        if r.notify == 1 {
            if !got[i].is_empty() {
                rep.violation(format!("C03:{tr}:read-timeout:notify-got-response"), format!("{name}, paced scenario {}: {what} has notify=1 but {} response(s) carry its id", sc.idx, got[i].len()), replay());
            }
            if r.invoked && hcnt == 0 && written && ended {
                if strict {
                    rep.count(&format!("rt.paced.seen.notify_handler_not_run.{tr}"), 1);
                    rep.violation(
                        format!("C03:{tr}:read-timeout:paced:notify-handler-not-run"),
                        format!("{name}, paced scenario {}: {what} was written completely, its handler never ran; {timing}; end of stream seen at {:?} ms, this frame written at {:?} ms", sc.idx, po.eos_ms, po.writes.get(i)),
                        replay(),
                    );
                } else {
                    rep.count("rt.paced.info_notify_not_handled_on_a_leniently_judged_connection", 1);
                }
            } else if hcnt == r.invoked as u32 && written {
                rep.count("rt.paced.notifies_handled_exactly_as_expected", 1);
            }
            continue;
        }
        match got[i].len() {
            0 => {
                if !ended || !written {
                    continue;
                }
                if let Some(l) = last_answered.filter(|&l| l > i) {
                    rep.violation(format!("C03:{tr}:read-timeout:request-skipped"), format!("{name}, paced scenario {}: {what} was sent completely and got no response, yet the later frame #{l} on the same connection was answered; {timing}", sc.idx), replay());
                } else if strict {
                    rep.count(&format!("rt.paced.seen.request_unanswered.{tr}"), 1);
                    let since = sc.frames[..i].iter().rposition(|f| f.sent.notify != 1).map(|j| j + 1).unwrap_or(0);
                    rep.violation(
                        format!("C03:{tr}:read-timeout:paced:request-unanswered"),
                        format!(
                            "{name}, paced scenario {}: {what} was written completely (at {:?} ms) and got no response up to the end of the stream (seen at {:?} ms); the {} frames before it were notifies / rejected notifies spread over {} ms; {timing}",
                            sc.idx,
                            po.writes.get(i),
                            po.eos_ms,
                            i - since,
                            sc.frames[since..=i].iter().map(|f| f.gap_ms).sum::<u64>()
                        ),
                        replay(),
                    );
                } else {
                    rep.count("rt.paced.info_request_unanswered_on_a_leniently_judged_connection", 1);
                }
                continue;
            }
            1 => rep.count("rt.paced.requests_with_exactly_one_response", 1),
            k => {
                rep.violation(format!("C03:{tr}:read-timeout:duplicate-response"), format!("{name}, paced scenario {}: {what}: {k} responses carry its id", sc.idx), replay());
                continue;
            }
        }
        let pos = got[i][0];
        let f = &out.frames[pos];
        if let Some((pi, ppos)) = last_pos {
            rep.count("rt.order_pairs_checked", 1);
            if pos < ppos {
                rep.violation(format!("C03:{tr}:read-timeout:arrival-order"), format!("{name}, paced scenario {}: response to {what} is frame #{pos} but the response to the earlier frame #{pi} is frame #{ppos}", sc.idx), replay());
            }
        }
        last_pos = Some((i, pos));
        if hcnt < r.invoked as u32 {
            rep.violation(format!("C03:{tr}:read-timeout:handler-invocations-missing"), format!("{name}, paced scenario {}: {what} was answered, handler body reached {hcnt} time(s), expected {}", sc.idx, r.invoked as u32), replay());
        }
        let bad: Option<String> = if f.query != r.query {
            Some(format!("response query {} differs from the request's {}", hex_trunc(&f.query, 40), hex_trunc(&r.query, 40)))
        } else {
            match &r.exp {
                Exp::Code(c) => (!c.contains(&f.header.ec)).then(|| format!("ec={} but the statement requires {c:?}; body {:?}", f.header.ec, String::from_utf8_lossy(&f.body[..f.body.len().min(100)]))),
                Exp::Record(want) => match serde_json::from_slice::<Tout>(&f.body) {
                    Ok(t) if f.header.ec == 0 && &t == want => None,
                    other => Some(format!("ec={} body decodes to {other:?}, the handler returned {want:?}", f.header.ec)),
                },
                Exp::Echo { .. } => None,
            }
        };
        match bad {
            Some(b) => rep.violation(format!("C03:{tr}:read-timeout:wrong-response"), format!("{name}, paced scenario {}: {what}: {b}", sc.idx), replay()),
            None => rep.count("rt.paced.responses_matched", 1),
        }
    }
}
