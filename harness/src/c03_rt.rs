//! C03 helper: TCP servers with SHORT read timeouts and raw peers that deliver frames in pieces.
//!
//! A blocking `Server` and an `AsyncServer` are started with `read_timeout(Some(d))` for d = 60, 100, 150 ms.
//! A scenario is one connection on which the peer sends, in order: 0..2 ordinary requests, one "outer" request cut
//! into pieces with pauses shorter than / several times longer than d, and 0..3 more ordinary requests; then it
//! half-closes and reads to end of stream. The bytes of the outer request that follow the cut are, depending on the
//! scenario, (i) one complete valid request frame for a registered route with its own id and token, (ii) several of
//! them, (iii) garbage. These embedded pseudo-frames are never sent as frames: they are payload of the outer request.
//!
//! Oracle (event log + wire, no timing): a server may end the connection whenever the peer pauses, so a missing
//! response at the END of a connection is never a violation. Violations are: a response or a handler run for an
//! embedded pseudo-frame (a request nobody sent), a response with an id no sent frame carried, two responses for
//! one request, a response for a notify, a request skipped while a later one on the same connection was answered,
//! responses out of arrival order, wrong response fields, handler runs that do not match the responses.

use super::cli::{CONNECT_T, EOS_T, End, WAIT_T};
use super::srv::{self, EV_H, T, Tin, Tout};
use crate::common::*;
use crate::oracle::{self, Frame, SpecHeader, StreamTail};
use repe::{AsyncServer, Server};
use serde_json::{Value, json};
use std::net::SocketAddr;
use std::sync::Arc;
use std::sync::atomic::{AtomicBool, Ordering};
use std::time::{Duration, Instant};
use tokio::io::{AsyncReadExt, AsyncWriteExt};
use tokio::time::timeout;

// ------------------------------------------------------------------ servers

#[derive(Clone, Debug)]
pub struct RtSrv {
    pub sid: u8,
    pub blocking: bool,
    pub d_ms: u64,
    pub addr: SocketAddr,
}

impl RtSrv {
    /// transport name used in signatures
    pub fn tr(&self) -> &'static str {
        if self.blocking { "blocking" } else { "async" }
    }
    pub fn name(&self) -> String {
        format!("{}-read-timeout-{}ms", if self.blocking { "server" } else { "async-server" }, self.d_ms)
    }
}

pub const TIMEOUTS_MS: [u64; 3] = [60, 100, 150];

pub fn start(rt: &tokio::runtime::Runtime) -> std::io::Result<Vec<RtSrv>> {
    let mut v = vec![];
    let mut sid = 32u8;
    for blocking in [true, false] {
        for d_ms in TIMEOUTS_MS {
            let router = srv::build_router(sid, false, false);
            let d = Some(Duration::from_millis(d_ms));
            let addr = if blocking {
                let l = std::net::TcpListener::bind("127.0.0.1:0")?;
                let addr = l.local_addr()?;
                std::thread::Builder::new().name("c03-rt-server".into()).spawn(move || {
                    let _ = Server::new(router).read_timeout(d).serve(l);
                })?;
                addr
            } else {
                let l = rt.block_on(tokio::net::TcpListener::bind("127.0.0.1:0"))?;
                let addr = l.local_addr()?;
                rt.spawn(async move {
                    let _ = AsyncServer::new(router).read_timeout(d).serve(l).await;
                });
                addr
            };
            v.push(RtSrv { sid, blocking, d_ms, addr });
            sid += 1;
        }
    }
    Ok(v)
}

// ------------------------------------------------------------------ scenario

#[derive(Clone, Debug)]
enum Step {
    Send(Vec<u8>),
    Pause(u64),
}

#[derive(Clone, Debug, PartialEq)]
enum Exp {
    /// success from a JSON-record handler: body decodes to this record
    Record(Tout),
    /// the custom erased handler echoing its payload: exact (query_format, body_format, body)
    Echo { qf: u16, bf: u16, body: Vec<u8> },
    /// rejected: one of these codes, text not pinned
    Code(Vec<u32>),
}

#[derive(Clone, Debug)]
struct Sent {
    role: &'static str,
    id: u64,
    token: u64,
    notify: u8,
    query: Vec<u8>,
    /// the user handler body is reached exactly once when the request is served
    invoked: bool,
    route: Option<T>,
    exp: Exp,
    len: usize,
}

struct Scen {
    idx: u64,
    srv: usize,
    steps: Vec<Step>,
    sent: Vec<Sent>,
    /// (id, token, notify) of the pseudo-frames planted inside the outer request
    embedded: Vec<(u64, u64, u8)>,
    outer: usize,
    outer_kind: &'static str,
    tail_kind: &'static str,
    cut_class: &'static str,
    cuts: Vec<usize>,
    pauses: Vec<u64>,
    /// some pause inside the outer request lasted several times the read timeout
    long_stall: bool,
    /// index of the first Send step that follows a long pause
    first_send_after_long: Option<usize>,
}

impl Scen {
    fn desc(&self, s: &RtSrv) -> Value {
        json!({
            "scenario": self.idx, "server": s.name(), "outer_kind": self.outer_kind, "tail_kind": self.tail_kind, "cut_class": self.cut_class,
            "outer_request_index": self.outer, "outer_request_len": self.sent[self.outer].len, "cut_offsets_in_outer_request": self.cuts, "pauses_ms": self.pauses,
            "sent": self.sent.iter().map(|f| json!({"role": f.role, "id": f.id, "token": f.token, "notify": f.notify, "query": String::from_utf8_lossy(&f.query[..f.query.len().min(40)]), "len": f.len})).collect::<Vec<_>>(),
            "embedded_pseudo_frames": self.embedded.iter().map(|e| json!({"id": e.0, "token": e.1, "notify": e.2})).collect::<Vec<_>>(),
            "steps": self.steps.iter().map(|s| match s { Step::Send(b) => json!({"send_hex": hex_trunc(b, 160), "len": b.len()}), Step::Pause(ms) => json!({"pause_ms": ms}) }).collect::<Vec<_>>(),
        })
    }
}

fn hdr(id: u64, notify: u8, version: u8, qf: u16, bf: u16) -> SpecHeader {
    SpecHeader { spec: oracle::SPEC, version, notify, id, query_format: qf, body_format: bf, ..Default::default() }
}

fn small_pad(rng: &mut Rng) -> String {
    const A: &[u8] = b"abcdefghijklmnopqrstuvwxyz0123456789";
    (0..rng.usize_below(24)).map(|_| *rng.pick(A) as char).collect()
}

/// An ordinary well-formed request to a JSON-record route (or, sometimes, to an unknown path / a notify).
fn ordinary(role: &'static str, token: u64, rng: &mut Rng) -> (Vec<u8>, Sent) {
    let id = super::gen_::id_of(token);
    let t = *rng.pick(&[T::Json, T::Typed, T::Jth, T::JCtx, T::BJson]);
    let r = Tin { t: token, op: 0, c: 0, pad: small_pad(rng) };
    let body = serde_json::to_vec(&r).unwrap();
    match rng.below(8) {
        0 => {
            let q = b"/nosuch/rt".to_vec();
            let w = oracle::frame(hdr(id, 0, 1, 1, 2), &q, &body);
            let len = w.len();
            (w, Sent { role, id, token, notify: 0, query: q, invoked: false, route: None, exp: Exp::Code(vec![6]), len })
        }
        1 => {
            let q = t.path().as_bytes().to_vec();
            let w = oracle::frame(hdr(id, 1, 1, 1, 2), &q, &body);
            let len = w.len();
            (w, Sent { role, id, token, notify: 1, query: q, invoked: true, route: Some(t), exp: Exp::Code(vec![]), len })
        }
        _ => {
            let q = t.path().as_bytes().to_vec();
            let w = oracle::frame(hdr(id, 0, 1, 1, 2), &q, &body);
            let len = w.len();
            let out = Tout { t: token, r: t.path().to_string(), pad: r.pad.clone(), fail: 0 };
            (w, Sent { role, id, token, notify: 0, query: q, invoked: true, route: Some(t), exp: Exp::Record(out), len })
        }
    }
}

/// A complete valid request frame for a registered route, to be planted as payload. Distinctive id.
fn pseudo_frame(token: u64, ascii_id: bool, rng: &mut Rng) -> (Vec<u8>, (u64, u64, u8)) {
    // 0x99.. ids are used by nothing else; the ASCII variant keeps every header byte < 0x80 (so the frame can sit in a UTF-8 query)
    let id = if ascii_id { 0x0063_0000_0000_0000 | (token & 0x7f) | ((token >> 7 & 0x7f) << 8) | ((token >> 14 & 0x7f) << 16) | ((token >> 21 & 0x7f) << 24) } else { 0x9900_0000_0000_0000 | token };
    let t = *rng.pick(&[T::Json, T::Typed, T::Jth]);
    let notify = if rng.chance(1, 6) { 1 } else { 0 };
    let r = Tin { t: token, op: 0, c: 0, pad: small_pad(rng) };
    let w = oracle::frame(hdr(id, notify, 1, 1, 2), t.path().as_bytes(), &serde_json::to_vec(&r).unwrap());
    (w, (id, token, notify))
}

fn garbage(rng: &mut Rng) -> Vec<u8> {
    match rng.below(3) {
        0 => {
            let k = 1 + rng.usize_below(200);
            rng.bytes(k)
        }
        1 => {
            // right magic, inconsistent lengths
            let mut h = hdr(rng.next_u64(), 0, 1, 1, 2);
            h.length = 48 + rng.below(1000);
            h.query_length = rng.below(64);
            h.body_length = h.length + 1 + rng.below(9);
            let mut v = h.encode().to_vec();
            let k = rng.usize_below(64);
            v.extend(rng.bytes(k));
            v
        }
        _ => b"{\"t\":1,\"op\":0,\"c\":0,\"pad\":\"not a frame at all, just text that is long enough to cover one header\"}".to_vec(),
    }
}

/// Payload that follows the cut: returns (bytes, embedded, tail kind).
fn tail(tok: &mut u64, ascii: bool, rng: &mut Rng) -> (Vec<u8>, Vec<(u64, u64, u8)>, &'static str) {
    let kind = *rng.pick(&["one-frame", "one-frame", "several-frames", "several-frames", "frames-then-garbage", "garbage"]);
    let n = match kind {
        "one-frame" => 1,
        "garbage" => 0,
        _ => 2 + rng.usize_below(4),
    };
    let mut bytes = vec![];
    let mut emb = vec![];
    for _ in 0..n {
        let (w, e) = pseudo_frame(*tok, ascii, rng);
        *tok += 1;
        bytes.extend(w);
        emb.push(e);
    }
    if kind == "garbage" || kind == "frames-then-garbage" {
        let g = garbage(rng);
        bytes.extend(if ascii { g.iter().map(|b| b & 0x7f).collect::<Vec<u8>>() } else { g });
    }
    (bytes, emb, kind)
}

struct Outer {
    wire: Vec<u8>,
    sent: Sent,
    embedded: Vec<(u64, u64, u8)>,
    /// offset in `wire` where the planted payload starts (None: nothing planted)
    embed_at: Option<usize>,
    kind: &'static str,
    tail_kind: &'static str,
    ql: usize,
}

fn outer(tok: &mut u64, rng: &mut Rng) -> Outer {
    let token = *tok;
    *tok += 1;
    let id = super::gen_::id_of(token);
    let kind = *rng.pick(&["erased-echo", "erased-echo", "erased-notify", "unknown-path", "bad-version", "payload-in-query", "cut-in-header-at-16", "plain-json"]);
    match kind {
        "erased-echo" | "erased-notify" => {
            let notify = (kind == "erased-notify") as u8;
            let (pay, embedded, tail_kind) = tail(tok, false, rng);
            let bf = *rng.pick(&[0u16, 1, 2, 3]);
            let mut body = token.to_le_bytes().to_vec();
            body.push(0); // op 0: echo payload, request's formats, request's query
            body.push(0);
            body.extend_from_slice(&pay);
            let q = T::Erased.path().as_bytes().to_vec();
            let wire = oracle::frame(hdr(id, notify, 1, 1, bf), &q, &body);
            let len = wire.len();
            let exp = if notify == 1 { Exp::Code(vec![]) } else { Exp::Echo { qf: 1, bf, body: pay } };
            Outer { wire, sent: Sent { role: "outer", id, token, notify, query: q.clone(), invoked: true, route: Some(T::Erased), exp, len }, embedded, embed_at: Some(48 + q.len() + 10), kind, tail_kind, ql: q.len() }
        }
        "unknown-path" | "bad-version" => {
            let (pay, embedded, tail_kind) = tail(tok, false, rng);
            let (q, version, code) = if kind == "unknown-path" { (b"/nosuch/outer".to_vec(), 1u8, 6u32) } else { (b"/json".to_vec(), *rng.pick(&[0u8, 2, 0xff]), 1u32) };
            let wire = oracle::frame(hdr(id, 0, version, 1, *rng.pick(&[0u16, 2])), &q, &pay);
            let len = wire.len();
            Outer { wire, sent: Sent { role: "outer", id, token, notify: 0, query: q.clone(), invoked: false, route: None, exp: Exp::Code(vec![code]), len }, embedded, embed_at: Some(48 + q.len()), kind, tail_kind, ql: q.len() }
        }
        "payload-in-query" => {
            let ascii = rng.coin();
            let (pay, embedded, tail_kind) = tail(tok, ascii, rng);
            let mut q = b"/q".to_vec();
            q.extend_from_slice(&pay);
            // a JSON-pointer query: not UTF-8 -> invalid query (3); UTF-8 but unregistered -> unknown path (6)
            let code = if std::str::from_utf8(&q).is_ok() { 6 } else { 3 };
            let body = serde_json::to_vec(&Tin { t: token, op: 0, c: 0, pad: small_pad(rng) }).unwrap();
            let wire = oracle::frame(hdr(id, 0, 1, 1, 2), &q, &body);
            let len = wire.len();
            Outer { wire, sent: Sent { role: "outer", id, token, notify: 0, query: q.clone(), invoked: false, route: None, exp: Exp::Code(vec![code]), len }, embedded, embed_at: Some(48 + 2), kind, tail_kind, ql: q.len() }
        }
        "cut-in-header-at-16" => {
            // Outer header bytes 16..48 plus the first 16 query bytes form the header of a pseudo-frame P:
            //   P.length = outer.id; P.spec/version/notify/reserved = outer.query_length = 0x0001_1507 (70919 bytes of query);
            //   P.id = outer.body_length; P.query_length = outer.(query_format | body_format << 16 | ec << 32) = 5 ("/json");
            //   P.body_length, P.(query_format, body_format, ec) = the first 16 query bytes.
            // The outer request is a well-framed request with an unassigned query-format code (5): invalid query.
            const OUTER_QL: usize = 0x0001_1507;
            let ptoken = *tok;
            *tok += 1;
            let pbody = serde_json::to_vec(&Tin { t: ptoken, op: 0, c: 0, pad: small_pad(rng) }).unwrap();
            let mut q: Vec<u8> = vec![];
            q.extend_from_slice(&(pbody.len() as u64).to_le_bytes());
            q.extend_from_slice(&1u16.to_le_bytes());
            q.extend_from_slice(&2u16.to_le_bytes());
            q.extend_from_slice(&0u32.to_le_bytes());
            q.extend_from_slice(b"/json");
            q.extend_from_slice(&pbody);
            let outer_id = 48 + 5 + pbody.len() as u64;
            let body_len = 1000 + rng.usize_below(3000);
            let mut embedded = vec![(body_len as u64, ptoken, 0u8)];
            let tail_kind = if rng.coin() {
                let (pay, more, _) = tail(tok, false, rng);
                q.extend_from_slice(&pay);
                embedded.extend(more);
                "several-frames"
            } else {
                "one-frame"
            };
            assert!(q.len() < OUTER_QL);
            q.resize(OUTER_QL, 0);
            let body = rng.bytes(body_len);
            let wire = oracle::frame(hdr(outer_id, 0, 1, 5, 0), &q, &body);
            let len = wire.len();
            Outer { wire, sent: Sent { role: "outer", id: outer_id, token, notify: 0, query: q, invoked: false, route: None, exp: Exp::Code(vec![3]), len }, embedded, embed_at: Some(16), kind, tail_kind, ql: OUTER_QL }
        }
        _ => {
            let t = *rng.pick(&[T::Json, T::Typed, T::Jth]);
            let r = Tin { t: token, op: 0, c: 0, pad: (0..40 + rng.usize_below(400)).map(|_| 'p').collect() };
            let q = t.path().as_bytes().to_vec();
            let wire = oracle::frame(hdr(id, 0, 1, 1, 2), &q, &serde_json::to_vec(&r).unwrap());
            let len = wire.len();
            let out = Tout { t: token, r: t.path().to_string(), pad: r.pad, fail: 0 };
            Outer { wire, sent: Sent { role: "outer", id, token, notify: 0, query: q.clone(), invoked: true, route: Some(t), exp: Exp::Record(out), len }, embedded: vec![], embed_at: None, kind, tail_kind: "rest-of-frame", ql: q.len() }
        }
    }
}

fn gen_scen(idx: u64, n_srv: usize, servers: &[RtSrv], rng: &mut Rng) -> Scen {
    let srv = (idx as usize) % n_srv;
    let d = servers[srv].d_ms;
    let mut tok = (1u64 << 40) + idx * 64;
    let mut steps = vec![];
    let mut sent = vec![];
    let mut first = vec![];
    for _ in 0..rng.usize_below(3) {
        let (w, s) = ordinary("before", tok, rng);
        tok += 1;
        first.extend(w);
        sent.push(s);
    }
    let o = outer(&mut tok, rng);
    let n = o.wire.len();
    let e = o.embed_at;
    let oql = o.ql;
    let long = |rng: &mut Rng| d * (4 + rng.below(3));
    let short = |rng: &mut Rng| (d / (6 + rng.below(7))).max(1);
    let interesting = |rng: &mut Rng| -> usize {
        let mut c = vec![1, 7, 8, 9, 16, 24, 40, 47, 48, 49, 48 + oql - 1, 48 + oql, 48 + oql + 1, n / 2, n - 1, 1 + rng.usize_below(n - 1)];
        if let Some(e) = e {
            c.extend([e - 1, e + 1, e + 47, e + 48, e + 49]);
        }
        c.retain(|&k| k >= 1 && k < n);
        *rng.pick(&c)
    };
    // (cut offsets, pause after each cut)
    let (cut_class, mut cuts): (&'static str, Vec<(usize, u64)>) = match (rng.below(10), e) {
        (0..=3, Some(e)) => ("at-payload-start:long-pause", vec![(e, long(rng))]),
        (4, Some(e)) => ("at-payload-start:short-pause", vec![(e, short(rng))]),
        (5, Some(e)) => {
            // a second long pause inside the first planted frame
            let k2 = (e + 1 + rng.usize_below(60)).min(n - 1);
            ("at-payload-start-and-inside-payload:long-pauses", vec![(e, long(rng)), (k2, long(rng))])
        }
        (6, _) => ("interesting-offset:short-pause", vec![(interesting(rng), short(rng))]),
        (7, _) => {
            let mut v: Vec<(usize, u64)> = (0..2 + rng.usize_below(3)).map(|_| (interesting(rng), if rng.chance(1, 3) { long(rng) } else { short(rng) })).collect();
            if let Some(e) = e {
                v.push((e, if rng.coin() { long(rng) } else { short(rng) }));
            }
            ("several-cuts:mixed-pauses", v)
        }
        _ => ("interesting-offset:long-pause", vec![(interesting(rng), long(rng))]),
    };
    cuts.sort();
    cuts.dedup_by_key(|c| c.0);
    let mut at = 0usize;
    let mut long_stall = false;
    let mut first_send_after_long = None;
    for (k, p) in &cuts {
        first.extend_from_slice(&o.wire[at..*k]);
        steps.push(Step::Send(std::mem::take(&mut first)));
        steps.push(Step::Pause(*p));
        if *p >= 4 * d {
            long_stall = true;
            if first_send_after_long.is_none() {
                first_send_after_long = Some(steps.len());
            }
        }
        at = *k;
    }
    first.extend_from_slice(&o.wire[at..]);
    let outer_idx = sent.len();
    sent.push(o.sent);
    // followers: right behind the rest of the outer request, or after another short pause
    let n_after = rng.usize_below(4);
    let split_after = rng.chance(1, 4);
    for i in 0..n_after {
        if i == 0 && split_after {
            steps.push(Step::Send(std::mem::take(&mut first)));
            steps.push(Step::Pause(short(rng)));
        }
        let (w, s) = ordinary("after", tok, rng);
        tok += 1;
        first.extend(w);
        sent.push(s);
    }
    steps.push(Step::Send(first));
    Scen {
        idx,
        srv,
        steps,
        sent,
        embedded: o.embedded,
        outer: outer_idx,
        outer_kind: o.kind,
        tail_kind: o.tail_kind,
        cut_class,
        pauses: cuts.iter().map(|c| c.1).collect(),
        cuts: cuts.iter().map(|c| c.0).collect(),
        long_stall,
        first_send_after_long,
    }
}

// ------------------------------------------------------------------ peer

struct RtOut {
    frames: Vec<Frame>,
    end: End,
    tail: StreamTail,
    bytes: usize,
    /// per Send step: had the peer already seen the end of the stream when it started this write
    closed_before_send: Vec<(usize, bool)>,
    write_error: Option<(usize, String)>,
}

async fn rt_conn(addr: SocketAddr, steps: Vec<Step>) -> RtOut {
    let harness = |e: String| RtOut { frames: vec![], end: End::Harness(e), tail: StreamTail::Clean, bytes: 0, closed_before_send: vec![], write_error: None };
    let stream = match timeout(CONNECT_T, tokio::net::TcpStream::connect(addr)).await {
        Ok(Ok(s)) => s,
        Ok(Err(e)) => return harness(format!("connect: {e}")),
        Err(_) => return harness("connect timeout".into()),
    };
    let _ = stream.set_nodelay(true);
    let (mut rd, mut wr) = stream.into_split();
    let eos = Arc::new(AtomicBool::new(false));
    let done = Arc::new(AtomicBool::new(false));
    let (eos_w, done_w) = (eos.clone(), done.clone());
    let writer = async move {
        let mut closed_before_send = vec![];
        let mut write_error = None;
        for (i, st) in steps.iter().enumerate() {
            match st {
                Step::Pause(ms) => tokio::time::sleep(Duration::from_millis(*ms)).await,
                Step::Send(b) => {
                    closed_before_send.push((i, eos_w.load(Ordering::SeqCst)));
                    match timeout(WAIT_T, wr.write_all(b)).await {
                        Ok(Ok(())) => {}
                        Ok(Err(e)) => {
                            write_error = Some((i, e.to_string()));
                            break;
                        }
                        Err(_) => {
                            write_error = Some((i, "write blocked".to_string()));
                            break;
                        }
                    }
                }
            }
        }
        let _ = wr.shutdown().await;
        done_w.store(true, Ordering::SeqCst);
        (wr, closed_before_send, write_error)
    };
    let reader = async move {
        let mut buf: Vec<u8> = Vec::new();
        let mut tmp = vec![0u8; 16384];
        let mut done_at: Option<Instant> = None;
        let end;
        loop {
            match timeout(Duration::from_millis(200), rd.read(&mut tmp)).await {
                Err(_) => {
                    if done.load(Ordering::SeqCst) {
                        let t0 = *done_at.get_or_insert_with(Instant::now);
                        if t0.elapsed() > EOS_T {
                            end = End::Timeout;
                            break;
                        }
                    }
                }
                Ok(Ok(0)) => {
                    end = End::Eos;
                    break;
                }
                Ok(Ok(k)) => buf.extend_from_slice(&tmp[..k]),
                Ok(Err(e)) => {
                    end = End::Unclean(e.to_string());
                    break;
                }
            }
        }
        eos.store(true, Ordering::SeqCst);
        (buf, end)
    };
    let ((_wr, closed_before_send, write_error), (buf, end)) = tokio::join!(writer, reader);
    let (frames, tail) = oracle::parse_stream(&buf);
    RtOut { frames, end, tail, bytes: buf.len(), closed_before_send, write_error }
}

// ------------------------------------------------------------------ oracle

fn judge(rep: &mut Report, args: &Args, sc: &Scen, s: &RtSrv, out: &RtOut, stalled: bool) {
    let tr = s.tr();
    let name = s.name();
    let replay = || json!({"seed": args.seed, "read_timeout_ms": s.d_ms, "scenario": sc.desc(s)});
    if let End::Harness(e) = &out.end {
        rep.inconclusive(format!("{name}: read-timeout scenario {} not executed: {e}", sc.idx));
        return;
    }
    rep.eval();
    rep.distinct(&(s.sid, sc.outer_kind, sc.tail_kind, sc.cut_class, &sc.cuts, sc.sent.len(), sc.outer));
    rep.count("rt.scenarios", 1);
    rep.count(&format!("rt.connections.{name}"), 1);
    rep.count(&format!("rt.outer_kind.{}", sc.outer_kind), 1);
    rep.count(&format!("rt.tail_kind.{}", sc.tail_kind), 1);
    rep.count(&format!("rt.cut_class.{}", sc.cut_class), 1);
    rep.count("rt.cuts_made", sc.cuts.len() as u64);
    for &k in &sc.cuts {
        let o = &sc.sent[sc.outer];
        let ql = o.query.len();
        let region = if k < 48 { "inside-header" } else if k == 48 { "after-header" } else if k < 48 + ql { "inside-query" } else if k == 48 + ql { "after-query" } else { "inside-body" };
        rep.count(&format!("rt.cut_region.{region}"), 1);
    }
    rep.count("rt.requests_sent_as_frames", sc.sent.len() as u64);
    rep.count("rt.pseudo_frames_planted", sc.embedded.len() as u64);
    rep.count("rt.frames_received", out.frames.len() as u64);
    rep.count("rt.response_bytes_received", out.bytes as u64);
    let ended = match &out.end {
        End::Eos => {
            rep.count("rt.end.eos", 1);
            true
        }
        End::Unclean(_) => {
            rep.count("rt.end.reset_or_transport_error", 1);
            true
        }
        _ => {
            rep.count("rt.end.not_observed", 1);
            rep.inconclusive(format!("{name}: no end of stream within {EOS_T:?} after half-closing (read-timeout scenario {})", sc.idx));
            false
        }
    };
    if out.write_error.is_some() {
        rep.count("rt.peer_writes_refused_after_server_closed", 1);
    }
    if sc.long_stall {
        rep.count("rt.long_stalls", 1);
        if let Some(step) = sc.first_send_after_long {
            match out.closed_before_send.iter().find(|c| c.0 == step) {
                Some((_, true)) => rep.count("rt.long_stall.connection_ended_by_server_during_the_stall", 1),
                Some((_, false)) => rep.count("rt.long_stall.connection_still_open_when_the_rest_was_sent", 1),
                None => {}
            }
        }
    }
    match &out.tail {
        StreamTail::Clean => {}
        StreamTail::Partial { at, have, need, .. } => {
            if out.end == End::Eos {
                rep.violation(
                    format!("C03:{tr}:read-timeout:response-stream-ends-inside-frame"),
                    format!("{name}, scenario {}: the response stream ended cleanly inside a frame at offset {at} ({have} of {need:?} bytes)", sc.idx),
                    replay(),
                );
            } else {
                rep.count("rt.info_partial_frame_before_reset", 1);
            }
        }
        StreamTail::Corrupt { at, header } => rep.violation(
            format!("C03:{tr}:read-timeout:response-stream-not-frames"),
            format!("{name}, scenario {}: bytes at offset {at} of the response stream are not a consistent REPE header: {header:?}", sc.idx),
            replay(),
        ),
    }
    // ---- attribute frames
    let mut got: Vec<Vec<usize>> = vec![vec![]; sc.sent.len()];
    for (pos, f) in out.frames.iter().enumerate() {
        if let Some(i) = sc.sent.iter().position(|r| r.id == f.header.id) {
            got[i].push(pos);
        } else if let Some(e) = sc.embedded.iter().find(|e| e.0 == f.header.id) {
            rep.count(&format!("rt.seen.responses_for_unsent_frames.{tr}.{}", sc.outer_kind), 1);
            rep.violation(
                format!("C03:{tr}:read-timeout:response-for-unsent-frame"),
                format!(
                    "{name}, scenario {}: response frame #{pos} carries id {:#x}: that id exists only INSIDE the payload of request #{} ({}, id {:#x}), which was delivered in pieces (cuts at {:?}, pauses {:?} ms, read timeout {} ms); no frame with that id was sent. Response: ec={} body={:?}",
                    sc.idx, e.0, sc.outer, sc.outer_kind, sc.sent[sc.outer].id, sc.cuts, sc.pauses, s.d_ms, f.header.ec, String::from_utf8_lossy(&f.body[..f.body.len().min(100)])
                ),
                replay(),
            );
        } else {
            rep.violation(
                format!("C03:{tr}:read-timeout:response-with-unknown-id"),
                format!("{name}, scenario {}: response frame #{pos} carries id {:#x} which neither a sent frame nor planted payload used (cuts at {:?}); header {:?} body={:?}", sc.idx, f.header.id, sc.cuts, f.header, String::from_utf8_lossy(&f.body[..f.body.len().min(100)])),
                replay(),
            );
        }
    }
    // ---- per sent request
    let mut last_pos: Option<(usize, usize)> = None;
    let last_answered = (0..sc.sent.len()).rev().find(|&i| !got[i].is_empty());
    for (i, r) in sc.sent.iter().enumerate() {
        let (hcnt, hroute) = srv::ev_take(s.sid, EV_H, r.token);
        let what = format!("request #{i} ({}{}, id {:#x}, {:?})", r.role, if i == sc.outer { format!(" {}", sc.outer_kind) } else { String::new() }, r.id, String::from_utf8_lossy(&r.query[..r.query.len().min(24)]));
        if r.notify == 1 {
            if !got[i].is_empty() {
                rep.violation(format!("C03:{tr}:read-timeout:notify-got-response"), format!("{name}, scenario {}: {what} has notify=1 but {} response(s) carry its id", sc.idx, got[i].len()), replay());
            }
            if hcnt > 1 {
                rep.violation(format!("C03:{tr}:read-timeout:handler-invoked-twice"), format!("{name}, scenario {}: {what} (notify): handler body reached {hcnt} times", sc.idx), replay());
            }
            continue;
        }
        match got[i].len() {
            0 => {
                if !ended {
                    continue;
                }
                if let Some(l) = last_answered.filter(|&l| l > i) {
                    rep.count(&format!("rt.seen.requests_skipped.{tr}"), 1);
                    rep.violation(
                        format!("C03:{tr}:read-timeout:request-skipped"),
                        format!(
                            "{name}, scenario {}: {what} was sent completely and got no response, yet the later request #{l} on the same connection was answered (cuts in request #{} at {:?}, pauses {:?} ms, read timeout {} ms; {} frames received)",
                            sc.idx, sc.outer, sc.cuts, sc.pauses, s.d_ms, out.frames.len()
                        ),
                        replay(),
                    );
                } else {
                    rep.count("rt.unanswered_at_connection_end", 1);
                    if i == sc.outer {
                        rep.count(if sc.long_stall { "rt.interrupted_request.unanswered_connection_ended.long_stall" } else { "rt.interrupted_request.unanswered_connection_ended.short_pauses_only" }, 1);
                    }
                }
                if hcnt > r.invoked as u32 {
                    rep.violation(format!("C03:{tr}:read-timeout:handler-invocations-extra"), format!("{name}, scenario {}: {what}: handler body reached {hcnt} time(s), at most {} expected", sc.idx, r.invoked as u32), replay());
                } else if hcnt == 1 {
                    rep.count("rt.info_handler_ran_but_response_not_received", 1);
                }
                continue;
            }
            1 => rep.count("rt.requests_with_exactly_one_response", 1),
            k => {
                rep.violation(format!("C03:{tr}:read-timeout:duplicate-response"), format!("{name}, scenario {}: {what}: {k} responses carry its id (cuts at {:?})", sc.idx, sc.cuts), replay());
                continue;
            }
        }
        if i == sc.outer {
            rep.count(if sc.long_stall { "rt.interrupted_request.served_as_one_request.long_stall" } else { "rt.interrupted_request.served_as_one_request.short_pauses_only" }, 1);
        }
        let pos = got[i][0];
        let f = &out.frames[pos];
        if let Some((pi, ppos)) = last_pos {
            rep.count("rt.order_pairs_checked", 1);
            if pos < ppos {
                rep.violation(format!("C03:{tr}:read-timeout:arrival-order"), format!("{name}, scenario {}: response to {what} is frame #{pos} but the response to the earlier request #{pi} is frame #{ppos}", sc.idx), replay());
            }
        }
        last_pos = Some((i, pos));
        if hcnt != r.invoked as u32 {
            rep.violation(
                format!("C03:{tr}:read-timeout:handler-invocations-{}", if hcnt > r.invoked as u32 { "extra" } else { "missing" }),
                format!("{name}, scenario {}: {what} was answered, handler body reached {hcnt} time(s), expected {}", sc.idx, r.invoked as u32),
                replay(),
            );
        } else if hcnt == 1 && Some(hroute) != r.route.map(|t| t as u8) {
            rep.violation(format!("C03:{tr}:read-timeout:handler-route-mismatch"), format!("{name}, scenario {}: {what}: token recorded by route id {hroute}, addressed {:?}", sc.idx, r.route), replay());
        } else {
            rep.count("rt.handler_invocations_matched", 1);
        }
        // fields
        let bad: Option<String> = if f.query != r.query {
            Some(format!("response query {} differs from the request's {}", hex_trunc(&f.query, 40), hex_trunc(&r.query, 40)))
        } else {
            match &r.exp {
                Exp::Code(c) => (!c.contains(&f.header.ec)).then(|| format!("ec={} but the statement requires {c:?}; body {:?}", f.header.ec, String::from_utf8_lossy(&f.body[..f.body.len().min(100)]))),
                Exp::Echo { qf, bf, body } => (f.header.ec != 0 || (f.header.query_format, f.header.body_format) != (*qf, *bf) || &f.body != body).then(|| {
                    format!("(ec, query_format, body_format, body) = ({}, {}, {}, {} [{} bytes]), the handler returned (0, {qf}, {bf}, {} [{} bytes])", f.header.ec, f.header.query_format, f.header.body_format, hex_trunc(&f.body, 40), f.body.len(), hex_trunc(body, 40), body.len())
                }),
                Exp::Record(want) => match serde_json::from_slice::<Tout>(&f.body) {
                    Ok(t) if f.header.ec == 0 && &t == want => None,
                    other => Some(format!("ec={} body decodes to {other:?}, the handler returned {want:?}", f.header.ec)),
                },
            }
        };
        match bad {
            Some(b) => rep.violation(format!("C03:{tr}:read-timeout:wrong-response"), format!("{name}, scenario {}: {what} (cuts in request #{} at {:?}, pauses {:?} ms): {b}", sc.idx, sc.outer, sc.cuts, sc.pauses), replay()),
            None => rep.count("rt.responses_matched", 1),
        }
    }
    // ---- planted pseudo-frames: no handler may have run for them
    for e in &sc.embedded {
        let (hcnt, hroute) = srv::ev_take(s.sid, EV_H, e.1);
        if hcnt > 0 {
            rep.count(&format!("rt.seen.handler_runs_for_unsent_frames.{tr}.{}", sc.outer_kind), 1);
            rep.violation(
                format!("C03:{tr}:read-timeout:handler-ran-for-unsent-frame"),
                format!(
                    "{name}, scenario {}: the handler of route id {hroute} ran {hcnt} time(s) with token {} — that token exists only INSIDE the payload of request #{} ({}), delivered in pieces (cuts at {:?}, pauses {:?} ms, read timeout {} ms); pseudo-frame id {:#x}, notify={}",
                    sc.idx, e.1, sc.outer, sc.outer_kind, sc.cuts, sc.pauses, s.d_ms, e.0, e.2
                ),
                replay(),
            );
        } else if ended {
            rep.count("rt.pseudo_frames_without_response_or_handler_run", 1);
        }
    }
    if stalled {
        // no verdict above depends on time; recorded so a reader can discount the evidence counters of a stalled run
        rep.count("rt.scenarios_judged_after_a_machine_stall", 1);
    }
}

pub async fn run(rep: &mut Report, args: &Args, servers: &Arc<Vec<RtSrv>>, hb: &Heartbeat, n: u64, deadline: Duration) {
    let mut rng = Rng::new(args.seed ^ 0xC03_0071);
    let in_flight = 160usize;
    let mut pending: std::collections::VecDeque<(Scen, tokio::task::JoinHandle<RtOut>)> = Default::default();
    let mut next = 0u64;
    let mut sampled = 0;
    loop {
        while pending.len() < in_flight && next < n && rep.elapsed() < deadline {
            let mut r = rng.fork(next);
            let sc = gen_scen(next, servers.len(), servers, &mut r);
            let h = tokio::spawn(rt_conn(servers[sc.srv].addr, sc.steps.clone()));
            pending.push_back((sc, h));
            next += 1;
        }
        let Some((sc, h)) = pending.pop_front() else { break };
        let out = match h.await {
            Ok(o) => o,
            Err(e) => {
                rep.inconclusive(format!("read-timeout scenario {} failed: {e}", sc.idx));
                continue;
            }
        };
        let s = &servers[sc.srv];
        if sampled < 2 && sc.long_stall && !sc.embedded.is_empty() {
            sampled += 1;
            rep.sample(json!({"read_timeout_scenario": sc.desc(s), "frames_received": out.frames.len(), "end": format!("{:?}", out.end)}));
        }
        judge(rep, args, &sc, s, &out, hb.max_gap_ms() > 1000);
    }
    rep.set("rt.scenarios_planned", json!(n));
    if next < n {
        rep.set("rt.stopped_by_wall_clock_budget", json!(true));
    }
    if rep.get_count("rt.scenarios") == 0 {
        rep.inconclusive("read-timeout class: no scenario executed");
    }
}
