//! C18 — the peer registry and its aliases stay mutually consistent.
//! Reference model (present peers; key -> peer; per-peer ordered key list) written from the
//! statement. Sequential: every observer compared after every checked operation (all sequences up to
//! length L over 3 peers x 3 keys, a model-state cover to depth 10, random long histories).
//! Concurrent: recorded call/return histories of up to 4 threads checked for linearizability against
//! the model with an exact memoised search; broadcasts are operations whose result set must equal the
//! present set at one instant inside the call interval.

use crate::common::*;
use repe::{BodyFormat, NotifyBody, PeerHandle, PeerId, PeerRegistry, PeerSendError, PeerSink};
use serde_json::{Value, json};
use std::collections::{HashMap, HashSet};
use std::sync::atomic::{AtomicU64, Ordering};
use std::sync::{Arc, Mutex};

const NP: usize = 3;
const NK: usize = 3;

#[derive(Clone, Debug, PartialEq, Eq, Hash)]
pub enum Op {
    Insert(u8),
    Remove(u8),
    Alias(u8, u8),
    Get(u8),
    GetBy(u8),
    KeyFor(u8),
    AliasesFor(u8),
    Len,
    Broadcast(u64),
}

#[derive(Clone, Debug, PartialEq, Eq, Hash)]
pub enum Ret {
    Unit,
    Bool(bool),
    OptPeer(Option<u8>),
    OptKey(Option<u8>),
    Keys(Vec<u8>),
    N(usize),
    Set(Vec<u8>),
}

#[derive(Clone, Debug, PartialEq, Eq, Hash, Default)]
struct Model {
    present: [bool; NP],
    owner: [Option<u8>; NK],
    lists: [Vec<u8>; NP],
}

impl Model {
    fn apply(&mut self, op: &Op) -> Ret {
        match *op {
            Op::Insert(p) => {
                self.present[p as usize] = true;
                Ret::Unit
            }
            Op::Remove(p) => {
                let was = self.present[p as usize];
                self.present[p as usize] = false;
                for k in 0..NK {
                    if self.owner[k] == Some(p) {
                        self.owner[k] = None;
                    }
                }
                self.lists[p as usize].clear();
                Ret::Bool(was)
            }
            Op::Alias(p, k) => {
                if !self.present[p as usize] {
                    return Ret::Bool(false);
                }
                if let Some(prev) = self.owner[k as usize] {
                    if prev != p {
                        self.lists[prev as usize].retain(|x| *x != k);
                    }
                }
                self.owner[k as usize] = Some(p);
                if !self.lists[p as usize].contains(&k) {
                    self.lists[p as usize].push(k);
                }
                Ret::Bool(true)
            }
            Op::Get(p) => Ret::Bool(self.present[p as usize]),
            Op::GetBy(k) => Ret::OptPeer(self.owner[k as usize].filter(|p| self.present[*p as usize])),
            Op::KeyFor(p) => Ret::OptKey(self.lists[p as usize].first().copied()),
            Op::AliasesFor(p) => Ret::Keys(self.lists[p as usize].clone()),
            Op::Len => Ret::N(self.present.iter().filter(|x| **x).count()),
            Op::Broadcast(_) => Ret::Set((0..NP as u8).filter(|p| self.present[*p as usize]).collect()),
        }
    }
}

type Captured = Arc<Mutex<Vec<(String, Vec<u8>, u16)>>>;

struct CapSink {
    got: Captured,
    /// what `is_connected()` reports; membership in the registry, not this flag, decides who gets a broadcast
    connected: bool,
    /// 0: accept; 1/2/3: refuse the push with Full / Disconnected / Other (back-pressure or a transport that is going away:
    /// the peer is still a member until it is removed, a refused push changes nothing in the registry)
    refuse: bool,
}

/// Which refusal (0 none, 1 Full, 2 Disconnected, 3 Other) the refusing sink answers a broadcast with: a pure function of the
/// broadcast's token (the first run of digits in its path), so concurrent broadcasts do not need shared state.
fn refusal_for(path: &str) -> u8 {
    let digits: String = path.chars().skip_while(|c| !c.is_ascii_digit()).take_while(|c| c.is_ascii_digit()).collect();
    match digits.parse::<u64>() {
        Ok(tok) if tok % 5 == 1 => 1 + (tok / 5 % 3) as u8,
        _ => 0,
    }
}
impl PeerSink for CapSink {
    fn is_connected(&self) -> bool {
        self.connected
    }
    fn send_notify(&self, method: &str, body: NotifyBody) -> Result<(), PeerSendError> {
        match if self.refuse { refusal_for(method) } else { 0 } {
            1 => return Err(PeerSendError::Full),
            2 => return Err(PeerSendError::Disconnected),
            3 => return Err(PeerSendError::Other("harness: refused".into())),
            _ => {}
        }
        let fmt = body.body_format() as u16;
        // widen the window in which a broadcast is sending outside the registry lock
        for _ in 0..200 {
            std::hint::spin_loop();
        }
        self.got.lock().unwrap().push((method.to_string(), body.into_bytes(), fmt));
        Ok(())
    }
}

struct Sys {
    reg: PeerRegistry,
    sinks: Vec<Captured>,
}

/// Alias keys are opaque strings: key 1 is key 0 plus a trailing space, key 2 carries a tab in front and CRLF behind (a
/// handshake-derived token). They are three DIFFERENT keys.
const KEYS: [&str; 3] = ["key-0", "key-0 ", "\tkey-2\r\n"];
fn key(k: u8) -> String {
    KEYS[k as usize % KEYS.len()].to_string()
}
fn unkey(s: &str) -> Option<u8> {
    KEYS.iter().position(|k| *k == s).map(|i| i as u8)
}
/// Peer ids are the embedder's choice: an ordinary one and the two ends of the range.
const PIDS: [u64; 3] = [100, u64::MAX, 0];
fn pid(p: u8) -> PeerId {
    PeerId(if (p as usize) < PIDS.len() { PIDS[p as usize] } else { 100 + p as u64 })
}
fn unpid(id: PeerId) -> u8 {
    PIDS.iter().position(|x| *x == id.0).map(|i| i as u8).unwrap_or_else(|| (id.0 - 100) as u8)
}

impl Sys {
    fn new() -> Sys {
        Sys { reg: PeerRegistry::new(), sinks: (0..NP).map(|_| Arc::new(Mutex::new(vec![]))).collect() }
    }
    /// Returns (result, broadcast-delivery problem if any)
    fn apply(&self, op: &Op) -> (Ret, Option<String>) {
        match *op {
            Op::Insert(p) => {
                // peer 2's sink always reports "not connected" (e.g. the window between its channel closing and the
                // disconnect path removing it): it is still present, so it still gets every broadcast and a result
                self.reg.insert(PeerHandle::new(pid(p), Arc::new(CapSink { got: self.sinks[p as usize].clone(), connected: p != 2, refuse: p == 1 })));
                (Ret::Unit, None)
            }
            Op::Remove(p) => (Ret::Bool(self.reg.remove(pid(p)).is_some()), None),
            Op::Alias(p, k) => (Ret::Bool(self.reg.alias(pid(p), key(k))), None),
            Op::Get(p) => (Ret::Bool(self.reg.get(pid(p)).map(|h| h.peer_id() == pid(p)).unwrap_or(false)), None),
            Op::GetBy(k) => (Ret::OptPeer(self.reg.get_by(key(k).as_str()).map(|h| unpid(h.peer_id()))), None),
            Op::KeyFor(p) => (Ret::OptKey(self.reg.key_for(pid(p)).and_then(|s| unkey(&s))), None),
            Op::AliasesFor(p) => (Ret::Keys(self.reg.aliases_for(pid(p)).iter().filter_map(|s| unkey(s)).collect()), None),
            Op::Len => (Ret::N(self.reg.len()), None),
            Op::Broadcast(tok) => {
                // the given path is delivered verbatim, whatever it looks like (rooted, unrooted, with escapes, non-ASCII)
                let path = match tok % 7 {
                    4 => format!("bcast.{tok}"),
                    5 => format!("é/{tok}/~1x"),
                    _ => format!("/bcast/{tok}"),
                };
                // now and then a broadcast whose body fails to serialize part-way (JSON object with non-string keys) runs
                // first on the same thread: it must deliver nothing and must not affect the following broadcast
                let mut bad_problem: Option<String> = None;
                if tok % 3 == 0 {
                    let mut bad: std::collections::BTreeMap<(u8, u8), u64> = Default::default();
                    bad.insert((1, 2), tok);
                    let bad_path = format!("/bcast/bad/{tok}");
                    let r = self.reg.broadcast_notify_json(&bad_path, &BadBody { seq: tok, bad: bad_wrapper(&bad) });
                    let delivered: usize = self.sinks.iter().map(|s| s.lock().unwrap().iter().filter(|(m, _, _)| *m == bad_path).count()).sum();
                    if r.is_ok() || delivered != 0 {
                        bad_problem = Some(format!("a broadcast whose body cannot be serialized returned Ok={} and was delivered {delivered} times", r.is_ok()));
                    }
                }
                // every fifth broadcast peer 1's sink refuses the push (queue full, going away, other): it gets an Err in the
                // result map, nothing is delivered to it, and it stays a member (the model's next operations check that)
                let refusal: u8 = refusal_for(&path);
                let (res, body, fmt): (HashMap<PeerId, Result<(), PeerSendError>>, Vec<u8>, u16) = match tok % 4 {
                    0 => {
                        let v = json!({"tok": tok});
                        (self.reg.broadcast_notify_json(&path, &v).unwrap(), serde_json::to_vec(&v).unwrap(), BodyFormat::Json as u16)
                    }
                    1 => {
                        // body shapes on which BEVE encoders may legitimately differ in strategy but not in bytes: mixed tuple,
                        // homogeneous tuple, fixed-size array, heterogeneous JSON array, map, struct with a flattened part
                        #[derive(serde::Serialize)]
                        struct Inner {
                            a: u64,
                            b: [f32; 2],
                        }
                        #[derive(serde::Serialize)]
                        struct Flat {
                            id: u64,
                            #[serde(flatten)]
                            rest: Inner,
                        }
                        let (res, want) = match tok / 4 % 6 {
                            0 => { let v = (tok, "x".to_string()); (self.reg.broadcast_notify_beve(&path, &v), beve::to_vec(&v)) }
                            1 => { let v = (tok as u32, 7u32); (self.reg.broadcast_notify_beve(&path, &v), beve::to_vec(&v)) }
                            2 => { let v = [tok as f64, 1.5, -0.0]; (self.reg.broadcast_notify_beve(&path, &v), beve::to_vec(&v)) }
                            3 => { let v = json!([1, "two", 3.0, tok]); (self.reg.broadcast_notify_beve(&path, &v), beve::to_vec(&v)) }
                            4 => { let v = json!({"tok": tok, "list": [1, 2, 3], "nested": {"k": [tok]}}); (self.reg.broadcast_notify_beve(&path, &v), beve::to_vec(&v)) }
                            _ => { let v = Flat { id: tok, rest: Inner { a: tok, b: [1.0, 2.0] } }; (self.reg.broadcast_notify_beve(&path, &v), beve::to_vec(&v)) }
                        };
                        match (res, want) {
                            (Ok(r), Ok(w)) => (r, w, BodyFormat::Beve as u16),
                            (r, w) => {
                                // the reference encoder and the broadcast must agree on whether the body is encodable at all
                                let agree = r.is_err() && w.is_err();
                                let p = if agree { None } else { Some(format!("BEVE broadcast of body shape {} returned ok={}, the reference encoder ok={}", tok / 4 % 6, r.is_ok(), w.is_ok())) };
                                return (Ret::Set((0..NP as u8).filter(|p| self.reg.get(pid(*p)).is_some()).collect()), p);
                            }
                        }
                    }
                    2 => {
                        let t = format!("text-{tok}");
                        (self.reg.broadcast_notify_utf8(&path, &t), t.into_bytes(), BodyFormat::Utf8 as u16)
                    }
                    _ => {
                        // the raw flavour under every format tag, with bytes that are NOT well-formed for the tag (Latin-1 text, a
                        // multi-byte character cut in half, arbitrary binary): the given body is delivered bit for bit
                        let mut b = tok.to_le_bytes().to_vec();
                        b.extend_from_slice(&[b'c', b'a', b'f', 0xE9, b'\n', 0xE2, 0x82, 0xFF, 0x80]);
                        let f = [BodyFormat::RawBinary, BodyFormat::Utf8, BodyFormat::Json, BodyFormat::Beve][(tok / 4 % 4) as usize];
                        (self.reg.broadcast_notify_raw(&path, f, &b), b, f as u16)
                    }
                };
                let mut set: Vec<u8> = res.keys().map(|id| unpid(*id)).collect();
                set.sort();
                let mut problem = bad_problem;
                for (id, r) in &res {
                    let refused_here = refusal != 0 && unpid(*id) == 1;
                    let fits = match (r, refusal) {
                        (Ok(()), _) => !refused_here,
                        (Err(PeerSendError::Full), 1) | (Err(PeerSendError::Disconnected), 2) | (Err(PeerSendError::Other(_)), 3) => refused_here,
                        _ => false,
                    };
                    if !fits {
                        problem = Some(format!("result for peer {} is {r:?} (its sink {})", unpid(*id), if refused_here { format!("refused with mode {refusal}") } else { "accepted".into() }));
                    }
                }
                for p in 0..NP as u8 {
                    let got = self.sinks[p as usize].lock().unwrap();
                    let mine: Vec<_> = got.iter().filter(|(m, _, _)| *m == path).collect();
                    let want = if set.contains(&p) && !(refusal != 0 && p == 1) { 1 } else { 0 };
                    if mine.len() != want {
                        problem = Some(format!("peer {p}: {} deliveries of broadcast {tok}, result map says {want}", mine.len()));
                    } else if let Some((_, b, f)) = mine.first() {
                        if *b != body || *f != fmt {
                            problem = Some(format!("peer {p}: delivered body/format differ from what was broadcast (fmt {f} want {fmt}, body_eq={})", *b == body));
                        }
                    }
                }
                (Ret::Set(set), problem)
            }
        }
    }
}

/// Serializes as a map with tuple keys: serde_json emits the opening bytes and then fails ("key must be a string").
struct BadMap<'a>(&'a std::collections::BTreeMap<(u8, u8), u64>);
impl serde::Serialize for BadMap<'_> {
    fn serialize<S: serde::Serializer>(&self, ser: S) -> Result<S::Ok, S::Error> {
        use serde::ser::SerializeMap;
        let mut m = ser.serialize_map(Some(self.0.len()))?;
        for (k, v) in self.0 {
            m.serialize_entry(k, v)?;
        }
        m.end()
    }
}
#[derive(serde::Serialize)]
struct BadBody<'a> {
    seq: u64,
    bad: BadMap<'a>,
}
fn bad_wrapper(b: &std::collections::BTreeMap<(u8, u8), u64>) -> BadMap<'_> {
    BadMap(b)
}

fn observers() -> Vec<Op> {
    let mut v = vec![Op::Len];
    for p in 0..NP as u8 {
        v.push(Op::Get(p));
        v.push(Op::KeyFor(p));
        v.push(Op::AliasesFor(p));
    }
    for k in 0..NK as u8 {
        v.push(Op::GetBy(k));
    }
    v
}

fn mutators() -> Vec<Op> {
    let mut v = vec![];
    for p in 0..NP as u8 {
        v.push(Op::Insert(p));
        v.push(Op::Remove(p));
        for k in 0..NK as u8 {
            v.push(Op::Alias(p, k));
        }
    }
    v
}

/// Run `ops` (mutators/broadcasts) on a fresh registry + model; compare all observers after each op
/// from index `check_from`. Insert of a present peer is skipped (documented precondition).
fn run_seq(ops: &[Op], check_from: usize) -> Option<(usize, String, String)> {
    let sys = Sys::new();
    let mut m = Model::default();
    let obs = observers();
    for (i, op) in ops.iter().enumerate() {
        if let Op::Insert(p) = op {
            if m.present[*p as usize] {
                continue;
            }
        }
        let (ri, problem) = sys.apply(op);
        let rm = m.apply(op);
        if i < check_from {
            continue;
        }
        let name = format!("{op:?}");
        let name = name.split('(').next().unwrap_or("").to_string();
        if ri != rm {
            return Some((i, format!("C18:result:{name}"), format!("{op:?} returned {ri:?}, model {rm:?}")));
        }
        if let Some(p) = problem {
            return Some((i, "C18:broadcast-delivery".into(), p));
        }
        for o in &obs {
            let (oi, _) = sys.apply(o);
            let om = m.apply(o);
            if oi != om {
                let on = format!("{o:?}");
                let on = on.split('(').next().unwrap_or("").to_string();
                return Some((i, format!("C18:observer:{on}:after:{name}"), format!("after {op:?}: {o:?} = {oi:?}, model {om:?}")));
            }
        }
    }
    None
}

fn opj(ops: &[Op]) -> Value {
    json!(ops.iter().map(|o| format!("{o:?}")).collect::<Vec<_>>())
}

// ------------------------------------------------------------------ linearizability

#[derive(Clone, Debug)]
struct Ev {
    op: Op,
    ret: Ret,
    call: u64,
    done: u64,
    thread: usize,
}

/// Exact search: is there a total order consistent with real time whose model results match?
fn linearizable(h: &[Ev], budget: &mut u64) -> Option<bool> {
    fn rec(h: &[Ev], mask: u32, m: &Model, memo: &mut HashSet<(u32, u64)>, budget: &mut u64) -> Option<bool> {
        if mask == (1u32 << h.len()) - 1 {
            return Some(true);
        }
        if *budget == 0 {
            return None;
        }
        *budget -= 1;
        if !memo.insert((mask, hash_of(m))) {
            return Some(false);
        }
        // minimal ops: not linearized, and no other unlinearized op finished before it was called
        let min_done = (0..h.len()).filter(|i| mask & (1 << i) == 0).map(|i| h[i].done).min().unwrap();
        for i in 0..h.len() {
            if mask & (1 << i) != 0 || h[i].call > min_done {
                continue;
            }
            let mut m2 = m.clone();
            if m2.apply(&h[i].op) == h[i].ret {
                match rec(h, mask | (1 << i), &m2, memo, budget) {
                    Some(true) => return Some(true),
                    None => return None,
                    Some(false) => {}
                }
            }
        }
        Some(false)
    }
    let mut memo = HashSet::new();
    rec(h, 0, &Model::default(), &mut memo, budget)
}

fn concurrent_history(rng: &mut Rng, threads: usize, per: usize) -> (Vec<Ev>, Option<String>) {
    let sys = Arc::new(Sys::new());
    let clock = Arc::new(AtomicU64::new(0));
    let hist = Arc::new(Mutex::new(Vec::<Ev>::new()));
    let problems = Arc::new(Mutex::new(None::<String>));
    let tokc = Arc::new(AtomicU64::new(rng.below(1 << 40) * 4));
    let barrier = Arc::new(std::sync::Barrier::new(threads));
    let mut handles = vec![];
    for t in 0..threads {
        let mut r = rng.fork(t as u64);
        let (sys, clock, hist, problems, tokc) = (sys.clone(), clock.clone(), hist.clone(), problems.clone(), tokc.clone());
        let barrier = barrier.clone();
        handles.push(std::thread::spawn(move || {
            barrier.wait();
            // thread t < NP owns insert/remove of peer t (keeps the insert precondition under concurrency)
            let mut mine_present = false;
            for _ in 0..per {
                let op = match r.below(10) {
                    0 | 1 if t < NP => {
                        if mine_present {
                            mine_present = false;
                            Op::Remove(t as u8)
                        } else {
                            mine_present = true;
                            Op::Insert(t as u8)
                        }
                    }
                    2..=4 => Op::Alias(r.below(NP as u64) as u8, r.below(NK as u64) as u8),
                    5 => Op::GetBy(r.below(NK as u64) as u8),
                    6 => Op::AliasesFor(r.below(NP as u64) as u8),
                    7 => Op::Broadcast(tokc.fetch_add(1, Ordering::SeqCst)),
                    8 => Op::Get(r.below(NP as u64) as u8),
                    _ => {
                        if r.coin() {
                            Op::Len
                        } else {
                            Op::KeyFor(r.below(NP as u64) as u8)
                        }
                    }
                };
                match r.below(4) {
                    0 => std::thread::yield_now(),
                    1 => {
                        for _ in 0..r.below(400) {
                            std::hint::spin_loop();
                        }
                    }
                    _ => {}
                }
                let call = clock.fetch_add(1, Ordering::SeqCst);
                let (ret, problem) = sys.apply(&op);
                let done = clock.fetch_add(1, Ordering::SeqCst);
                if let Some(p) = problem {
                    *problems.lock().unwrap() = Some(p);
                }
                hist.lock().unwrap().push(Ev { op, ret, call, done, thread: t });
            }
        }));
    }
    for h in handles {
        let _ = h.join();
    }
    let h = hist.lock().unwrap().clone();
    let p = problems.lock().unwrap().clone();
    (h, p)
}

pub fn run(args: &Args) -> Report {
    let mut rep = Report::new(
        args,
        "c18-model",
        "PeerRegistry vs reference model over 3 peers x 3 keys: (a) ALL mutator sequences (insert-when-absent, remove, alias) \
         up to length L, all observers compared after the last op; (b) model-state cover: for one representative path to every \
         model state reachable within 10 ops, every mutator is executed and checked; (c) random histories up to 200 ops incl. \
         broadcasts with capturing sinks; (d) concurrent histories (<=4 threads, <=16 ops) checked for linearizability by exact \
         search; distinct = distinct operation sequences / histories",
    );
    let miri = args.stage.starts_with("miri");
    let muts = mutators();
    quiet_panics(true);
    let found = Mutex::new(Vec::<(String, String, Value)>::new());

    // (a) exhaustive sequences
    let max_len = if miri { 2 } else if args.thorough() { 7 } else { 5 };
    let counted = AtomicU64::new(0);
    let threads = if miri { 1 } else { 16 };
    std::thread::scope(|s| {
        for t in 0..threads {
            let (muts, found, counted) = (&muts, &found, &counted);
            s.spawn(move || {
                fn rec(idx: &mut Vec<usize>, muts: &[Op], max_len: usize, t: usize, threads: usize, n: &mut u64, found: &Mutex<Vec<(String, String, Value)>>) {
                    if !idx.is_empty() {
                        let key = idx[0] * muts.len() + idx.get(1).copied().unwrap_or(0);
                        let mine = if idx.len() == 1 { idx[0] % threads == t } else { key % threads == t };
                        if mine {
                            let ops: Vec<Op> = idx.iter().map(|&i| muts[i].clone()).collect();
                            *n += 1;
                            match catching(|| run_seq(&ops, ops.len() - 1)) {
                                Ok(None) => {}
                                Ok(Some((_, sig, d))) => {
                                    let mut f = found.lock().unwrap();
                                    if f.len() < 300 {
                                        f.push((sig, d, json!({"ops": opj(&ops)})));
                                    }
                                }
                                Err(p) => {
                                    let mut f = found.lock().unwrap();
                                    if f.len() < 300 {
                                        f.push((format!("C18:panic:{}", panic_site(&p)), p, json!({"ops": opj(&ops)})));
                                    }
                                }
                            }
                        }
                    }
                    if idx.len() == max_len {
                        return;
                    }
                    for i in 0..muts.len() {
                        idx.push(i);
                        rec(idx, muts, max_len, t, threads, n, found);
                        idx.pop();
                    }
                }
                let mut idx = vec![];
                let mut n = 0u64;
                rec(&mut idx, muts, max_len, t, threads, &mut n, found);
                counted.fetch_add(n, Ordering::Relaxed);
            });
        }
    });
    let ex = counted.load(Ordering::Relaxed);
    let expect: u64 = (1..=max_len as u32).map(|l| (muts.len() as u64).pow(l)).sum();
    rep.evaluations += ex;
    rep.set("exhaustive_sequences", json!(ex));
    rep.set("exhaustive_max_len", json!(max_len));
    rep.set("small_scope_exhaustive", json!(ex == expect));
    rep.exhaustive = Some(false);
    if ex != expect {
        rep.inconclusive(format!("enumeration visited {ex} sequences, expected {expect}"));
    }
    for i in 0..ex.min(3_000_000) {
        rep.distinct(&("x", i));
    }
    rep.sample(json!({"kind": "exhaustive", "alphabet": opj(&muts), "max_len": max_len}));

    // (b) model-state cover to depth 10
    if !miri {
        let mut seen: HashMap<Model, Vec<Op>> = HashMap::new();
        let mut frontier = vec![(Model::default(), Vec::<Op>::new())];
        seen.insert(Model::default(), vec![]);
        let mut checked = 0u64;
        for _depth in 0..10 {
            let mut next = vec![];
            for (m, path) in &frontier {
                for op in &muts {
                    if let Op::Insert(p) = op {
                        if m.present[*p as usize] {
                            continue;
                        }
                    }
                    let mut ops = path.clone();
                    ops.push(op.clone());
                    checked += 1;
                    rep.eval();
                    match catching(|| run_seq(&ops, ops.len() - 1)) {
                        Ok(None) => {}
                        Ok(Some((_, sig, d))) => found.lock().unwrap().push((sig, d, json!({"ops": opj(&ops)}))),
                        Err(p) => found.lock().unwrap().push((format!("C18:panic:{}", panic_site(&p)), p, json!({"ops": opj(&ops)}))),
                    }
                    let mut m2 = m.clone();
                    m2.apply(op);
                    if !seen.contains_key(&m2) {
                        seen.insert(m2.clone(), ops.clone());
                        next.push((m2, ops));
                    }
                }
            }
            if next.is_empty() {
                break;
            }
            frontier = next;
        }
        rep.set("model_states_reached", json!(seen.len()));
        rep.set("state_cover_transitions_checked", json!(checked));
    }

    // (c) random long histories with broadcasts
    let n = args.budget(2_000, 100_000);
    let mut rng = Rng::new(args.seed ^ 0xC18);
    let mut total_ops = 0u64;
    for case in 0..n {
        let mut r = rng.fork(case);
        let len = if miri { 1 + r.usize_below(10) } else { 1 + r.usize_below(200) };
        let ops: Vec<Op> = (0..len)
            .map(|j| if r.chance(1, 8) { Op::Broadcast(case * 1000 + j as u64) } else { r.pick(&muts).clone() })
            .collect();
        total_ops += len as u64;
        rep.eval();
        rep.distinct(&ops);
        if case < 2 {
            rep.sample(json!({"kind": "random", "len": len, "ops": opj(&ops[..len.min(10)])}));
        }
        match catching(|| run_seq(&ops, 0)) {
            Ok(None) => {}
            Ok(Some((i, sig, d))) => {
                let small = shrink_seq(ops[..=i.min(len - 1)].to_vec(), |t| matches!(catching(|| run_seq(t, 0)), Ok(Some((_, s2, _))) if s2 == sig));
                let d2 = match catching(|| run_seq(&small, 0)) {
                    Ok(Some((j, _, d2))) => format!("op #{j}: {d2}"),
                    _ => format!("op #{i}: {d}"),
                };
                found.lock().unwrap().push((sig, d2, json!({"ops": opj(&small), "shrunk_from_len": i + 1})))
            }
            Err(p) => found.lock().unwrap().push((format!("C18:panic:{}", panic_site(&p)), p, json!({"ops": opj(&ops)}))),
        }
    }
    rep.set("random_operations_checked", json!(total_ops));

    // (c2) membership changes from inside a sink while a broadcast is in flight (sends run outside the
    // registry lock, so this is legal): peers present at the moment of the call still get exactly one
    // notification and one result; a peer inserted mid-flight gets none
    {
        struct ReSink {
            id: u8,
            reg: PeerRegistry,
            got: Arc<Mutex<Vec<(u8, String)>>>,
            armed: Arc<std::sync::atomic::AtomicBool>,
            insert_new: bool,
        }
        impl PeerSink for ReSink {
            fn send_notify(&self, method: &str, _b: NotifyBody) -> Result<(), PeerSendError> {
                self.got.lock().unwrap().push((self.id, method.to_string()));
                if self.armed.swap(false, Ordering::SeqCst) {
                    // first sink reached: remove every other peer, optionally insert a newcomer
                    for p in 0..5u8 {
                        if p != self.id {
                            self.reg.remove(pid(p));
                        }
                    }
                    if self.insert_new {
                        let got = self.got.clone();
                        self.reg.insert(PeerHandle::new(pid(9), Arc::new(ReSink { id: 9, reg: self.reg.clone(), got, armed: Arc::new(std::sync::atomic::AtomicBool::new(false)), insert_new: false })));
                    }
                }
                Ok(())
            }
        }
        for npeers in 2..=5u8 {
            for insert_new in [false, true] {
                let reg = PeerRegistry::new();
                let got = Arc::new(Mutex::new(vec![]));
                let armed = Arc::new(std::sync::atomic::AtomicBool::new(true));
                for p in 0..npeers {
                    reg.insert(PeerHandle::new(pid(p), Arc::new(ReSink { id: p, reg: reg.clone(), got: got.clone(), armed: armed.clone(), insert_new })));
                }
                rep.eval();
                rep.distinct(&("reentrant", npeers, insert_new));
                // on its own thread with a bounded wait: a broadcast that keeps the registry locked while it sends never
                // comes back from a sink that calls into the registry
                let (tx, rx) = std::sync::mpsc::channel();
                let reg2 = reg.clone();
                let hb = Heartbeat::start();
                let th = std::thread::spawn(move || {
                    let _ = tx.send(catching(|| reg2.broadcast_notify_utf8("/bcast/reentrant", "x")));
                });
                let res = match rx.recv_timeout(std::time::Duration::from_secs(if miri { 600 } else { 15 })) {
                    Ok(r) => {
                        let _ = th.join();
                        // the sinks hold the registry: take them out again so nothing is left cyclic
                        for p in 0..10u8 {
                            reg.remove(pid(p));
                        }
                        r
                    }
                    Err(_) => {
                        if hb.max_gap_ms() > 1000 {
                            rep.inconclusive("re-entrant broadcast did not return in 15 s, but the machine stalled");
                        } else {
                            rep.violation(
                                "C18:broadcast:never-returned:sink-calls-registry",
                                format!("{npeers} peers; the first sink reached calls PeerRegistry::remove{} from inside send_notify (legal: sends run outside the registry lock); the broadcast had not returned after 15 s", if insert_new { "/insert" } else { "" }),
                                json!({"peers": npeers, "insert_new": insert_new}),
                            );
                        }
                        continue;
                    }
                };
                match res {
                    Ok(map) => {
                        let mut ids: Vec<u8> = map.keys().map(|k| unpid(*k)).collect();
                        ids.sort();
                        let mut delivered: Vec<u8> = got.lock().unwrap().iter().map(|(i, _)| *i).collect();
                        delivered.sort();
                        let want: Vec<u8> = (0..npeers).collect();
                        if ids != want || delivered != want {
                            rep.violation(
                                "C18:broadcast:membership-change-in-flight",
                                format!("{npeers} peers present at the call; the first sink reached removed the others{}: results for {ids:?}, deliveries to {delivered:?}, expected exactly {want:?}", if insert_new { " and inserted peer 9" } else { "" }),
                                json!({"peers": npeers, "insert_new": insert_new}),
                            );
                        }
                    }
                    Err(p) => rep.violation(format!("C18:panic:{}", panic_site(&p)), p, json!({"peers": npeers})),
                }
            }
        }
    }

    // (c3) alias racing the peer's removal, with the window between "is the peer present?" and "record the alias" held open by
    // the key's own conversion (alias takes K: Into<String>; the conversion is the only caller-controlled step). Whatever the
    // order, once both calls returned the departed peer owns no alias, and the key either still belongs to its previous owner
    // (alias rejected) or to nobody (alias accepted, then purged with the peer).
    {
        use std::sync::atomic::AtomicBool;
        struct SlowKey {
            s: String,
            entered: Arc<AtomicBool>,
            go: Arc<AtomicBool>,
        }
        impl From<SlowKey> for String {
            fn from(k: SlowKey) -> String {
                k.entered.store(true, Ordering::SeqCst);
                let t0 = std::time::Instant::now();
                while !k.go.load(Ordering::SeqCst) && t0.elapsed() < std::time::Duration::from_millis(40) {
                    std::thread::yield_now();
                }
                k.s
            }
        }
        let trials = if miri { 2 } else { args.budget(150, 2_000) };
        let (mut removed_inside_conversion, mut accepted, mut rejected) = (0u64, 0u64, 0u64);
        for t in 0..trials {
            let prior_owner = t % 2 == 1;
            let reg = PeerRegistry::new();
            let sink = || Arc::new(CapSink { got: Arc::new(Mutex::new(vec![])), connected: true, refuse: false });
            reg.insert(PeerHandle::new(pid(0), sink()));
            reg.insert(PeerHandle::new(pid(1), sink()));
            if prior_owner {
                reg.alias(pid(1), "session");
            }
            reg.alias(pid(0), "other-key");
            let (entered, go) = (Arc::new(AtomicBool::new(false)), Arc::new(AtomicBool::new(false)));
            let (r2, e2, g2) = (reg.clone(), entered.clone(), go.clone());
            let th = std::thread::spawn(move || r2.alias(pid(0), SlowKey { s: "session".into(), entered: e2, go: g2 }));
            let t0 = std::time::Instant::now();
            while !entered.load(Ordering::SeqCst) && t0.elapsed() < std::time::Duration::from_secs(5) {
                std::thread::yield_now();
            }
            let inside = entered.load(Ordering::SeqCst) && !th.is_finished();
            let was = reg.remove(pid(0)).is_some();
            go.store(true, Ordering::SeqCst);
            let alias_ret = th.join().unwrap_or(false);
            if inside {
                removed_inside_conversion += 1;
            }
            if alias_ret { accepted += 1 } else { rejected += 1 }
            rep.eval();
            rep.distinct(&("alias-vs-remove", prior_owner, alias_ret, inside));
            let left = reg.aliases_for(pid(0));
            let by = reg.get_by("session").map(|h| unpid(h.peer_id()));
            let q_list = reg.aliases_for(pid(1));
            let want_by = if prior_owner && !alias_ret { Some(1u8) } else { None };
            let q_has = q_list.iter().any(|k| k == "session");
            if !was || !left.is_empty() || reg.key_for(pid(0)).is_some() || by != want_by || q_has != want_by.is_some() || reg.get(pid(0)).is_some() {
                rep.violation(
                    "C18:alias-racing-remove:departed-peer-keeps-alias",
                    format!(
                        "alias(peer0, \"session\") raced remove(peer0) (remove ran while the key was being converted: {inside}; key previously owned by peer1: {prior_owner}): alias returned {alias_ret}, remove returned {was}; afterwards aliases_for(peer0)={left:?}, key_for(peer0)={:?}, get_by(session)={by:?} (expected {want_by:?}), aliases_for(peer1)={q_list:?}",
                        reg.key_for(pid(0))
                    ),
                    json!({"trial": t, "prior_owner": prior_owner, "ops": []}),
                );
                break;
            }
        }
        rep.set("alias_vs_remove_trials", json!({"remove_ran_during_key_conversion": removed_inside_conversion, "alias_accepted": accepted, "alias_rejected": rejected}));
    }

    // (d) concurrent histories, linearizability
    let nh = if miri { 3 } else { args.budget(1_500, 60_000) };
    let mut lin_ok = 0u64;
    let mut overlapping = 0u64;
    let mut timeouts = 0u64;
    for case in 0..nh {
        let mut r = rng.fork(0xABC000 + case);
        let threads = if miri { 2 } else { 2 + r.usize_below(3) };
        let per = if miri { 3 } else { 16 / threads };
        let (h, problem) = concurrent_history(&mut r, threads, per);
        rep.eval();
        let key: Vec<_> = {
            let mut hh = h.clone();
            hh.sort_by_key(|e| e.call);
            hh.iter().map(|e| (e.thread, e.op.clone(), e.ret.clone())).collect()
        };
        rep.distinct(&key);
        // real overlap present?
        let mut s = h.clone();
        s.sort_by_key(|e| e.call);
        if s.windows(2).any(|w| w[1].call < w[0].done) {
            overlapping += 1;
        }
        let hj = || json!(s.iter().map(|e| format!("t{} [{}..{}] {:?} -> {:?}", e.thread, e.call, e.done, e.op, e.ret)).collect::<Vec<_>>());
        if let Some(p) = problem {
            found.lock().unwrap().push(("C18:broadcast-delivery:concurrent".into(), p, json!({"history": hj()})));
        }
        let mut budget = 2_000_000u64;
        match linearizable(&h, &mut budget) {
            Some(true) => lin_ok += 1,
            Some(false) => found.lock().unwrap().push(("C18:not-linearizable".into(), "no sequential order of the recorded concurrent history matches the model".into(), json!({"history": hj()}))),
            None => timeouts += 1,
        }
        if case == 0 {
            rep.sample(json!({"kind": "concurrent", "history": hj()}));
        }
    }
    quiet_panics(false);
    rep.set("concurrent_histories_linearizable", json!(lin_ok));
    rep.set("concurrent_histories_with_overlapping_ops", json!(overlapping));
    rep.set("linearizability_checker_timeouts", json!(timeouts));
    if timeouts > nh / 10 {
        rep.inconclusive(format!("linearizability checker timed out on {timeouts} of {nh} histories"));
    }
    if !miri && overlapping == 0 {
        rep.inconclusive("no concurrent history had overlapping operations");
    }
    let mut f = found.into_inner().unwrap();
    f.sort_by_key(|(_, _, v)| v["ops"].as_array().map(|a| a.len()).unwrap_or(99));
    for (sig, d, v) in f {
        rep.violation(sig, d, v);
    }
    rep
}
