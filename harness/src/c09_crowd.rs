// C09 — many-open-sessions family (textually included into `mod imp` of c09.rs), both stages.
//
// Everywhere else at most a handful of sessions are open on a producer at the same time. Here one or
// a few SLOW BUT HEALTHY transfers are in progress (the consumer pulls a chunk, pauses, pulls the
// next one) while N OTHER sessions are opened around them — on the same producer registration and on
// another registration (a second server with its own producer), on the slow transfer's own
// connection and on other connections — and are left open, pulled a little and left open, abandoned
// (their connection goes away without a cancel), cancelled, or completed, for N in
// {1, 10, 100, 300, 1000} (thorough: also 5000) sessions that stay open, plus N/4 that come and go.
// The slow transfers are then pulled to their end, and so is a sample of the sessions that were only
// left open (their consumers are healthy too, just slower still).
// Oracle: the statement's — every healthy stream delivers exactly its producer's bytes and ends with
// exactly one end marker, however many other sessions exist; a `next` on a live stream that nobody
// released is never answered with an error.
// Stage raw runs the bystander interpreter (c09_bystander.rs: one model of which streams are live /
// released how, every response judged) over five raw connections to one server and two to a second
// one. Stage pullers puts a library puller in the slow consumer's place: the closure handed to
// pull_consume / pull_consume_async reads a part, stops until the harness has opened the N other
// sessions over raw connections (bounded), then reads on.
//
// The unchanged library documents no cap on open sessions and no idle-session watchdog
// (value_stream.rs: a session leaves the table on its final chunk, on the producer's failure, or on
// cancel), so nothing in this workload may legitimately release a stream; the pauses are the time
// the other opens take (well under a few seconds).

mod crowd {
    use super::bystander::{BOp, Model};
    use super::sidecar;
    use super::slow::{AnyClient, Cl};
    use super::*;

    const FAM: &str = "many-open-sessions";

    #[derive(Clone, Debug)]
    pub struct Plan {
        raw: bool,
        tr: Tr,
        cl: Option<Cl>,
        kind: Kind,
        chunk: usize,
        depth: usize,
        zstd: bool,
        /// other sessions that stay open while the slow transfers go on
        n: usize,
        seed: u64,
    }
    impl Plan {
        fn cfg(&self) -> Cfg {
            Cfg { tr: self.tr, kind: self.kind, chunk: self.chunk, depth: self.depth, zstd: self.zstd, fam: 4 }
        }
        fn json(&self) -> Value {
            json!({"family": FAM, "client": self.cl.map(|c| c.name()).unwrap_or("raw client"), "transport": format!("{:?}", self.tr), "kind": self.kind.name(), "chunk_bytes": self.chunk,
                   "session_depth": self.depth, "zstd": self.zstd, "other_sessions_left_open": self.n})
        }
    }

    /// A healthy payload of about `chunks` wire chunks.
    fn spec_chunks(cfg: &Cfg, rng: &mut Rng, chunks: usize) -> Spec {
        let mut s = Spec { p: 0, seed: rng.below(1 << 40), compressible: false, fail: None, panic: false, delay: rng.chance(1, 6), vt: rng.below(2) as u8 };
        s.p = param_for(cfg.kind, cfg.zstd, chunks * cfg.chunk + rng.usize_below(cfg.chunk), &s);
        s
    }

    #[derive(Clone, Copy, Debug, PartialEq)]
    enum Mode {
        /// opened, never touched again
        Open,
        /// opened, one chunk pulled, left
        OpenNext,
        /// like the two above, on a connection that goes away without a cancel
        Abandon,
        Complete,
        CancelMid,
    }

    // ------------------------------------------------------------------ stage raw

    fn raw_scenario<T: RawTransport>(plan: &Plan, connect: &dyn Fn(SocketAddr) -> Result<RawSvs<T>, String>, rt: &Arc<tokio::runtime::Runtime>, acc: &mut Acc) -> Result<(), String> {
        let cfg = plan.cfg();
        let mut rng = Rng::new(plan.seed ^ 0xC0_7D);
        let srv_a = start_server(&cfg, rt).map_err(|e| format!("server start: {e}"))?;
        let srv_b = start_server(&cfg, rt).map_err(|e| format!("server start: {e}"))?;
        // server A: connection 0 and 1 own the slow transfers (0 also carries a share of the other sessions), 2 and 3 carry
        // other sessions, 4 is the connection that goes away. Server B (another registration): one slow transfer, a few others.
        let mut ca: Vec<RawSvs<T>> = (0..5).map(|_| connect(srv_a.addr)).collect::<Result<_, _>>()?;
        let mut cb: Vec<RawSvs<T>> = (0..2).map(|_| connect(srv_b.addr)).collect::<Result<_, _>>()?;
        const DOOMED: usize = 4;

        let (n0, n1, nb) = (16 + rng.usize_below(6), 14 + rng.usize_below(6), 14 + rng.usize_below(6));
        let mut slots: Vec<(usize, Spec)> = vec![(0, spec_chunks(&cfg, &mut rng, n0)), (1, spec_chunks(&cfg, &mut rng, n1))];
        let slow = [0usize, 1];
        let come_and_go = (plan.n / 4).max(1);
        let mut modes: Vec<Mode> = vec![];
        for _ in 0..plan.n {
            modes.push(match rng.below(5) {
                0 | 1 => Mode::Open,
                2 | 3 => Mode::OpenNext,
                _ => Mode::Abandon,
            });
        }
        for _ in 0..come_and_go {
            modes.push(if rng.chance(2, 3) { Mode::Complete } else { Mode::CancelMid });
        }
        rng.shuffle(&mut modes);
        for m in &modes {
            let conn = match m {
                Mode::Abandon => DOOMED,
                _ => *rng.pick(&[0usize, 2, 2, 3, 3]),
            };
            // three chunks or more: one pulled chunk does not end the stream
            let chunks = if matches!(m, Mode::Complete) { rng.usize_below(4) } else { 3 + rng.usize_below(2) };
            slots.push((conn, spec_chunks(&cfg, &mut rng, chunks)));
        }
        let nb_others = 3usize;
        let mut slots_b: Vec<(usize, Spec)> = vec![(0, spec_chunks(&cfg, &mut rng, nb))];
        for _ in 0..nb_others {
            slots_b.push((1, spec_chunks(&cfg, &mut rng, 3)));
        }

        let mut ma = Model::new_in(FAM, &cfg, "slow-transfers-among-many-open-sessions", slots);
        let mut mb = Model::new_in(FAM, &cfg, "slow-transfer-on-another-registration", slots_b);
        for &s in &slow {
            ma.exec(&mut ca, &BOp::Open(s), acc)?;
            ma.exec(&mut ca, &BOp::Next(s), acc)?;
        }
        mb.exec(&mut cb, &BOp::Open(0), acc)?;
        mb.exec(&mut cb, &BOp::Next(0), acc)?;

        let batches = 6usize;
        let per = modes.len().div_ceil(batches).max(1);
        let mut open_now = 0usize;
        let mut peak = 0usize;
        let mut left_open: Vec<usize> = vec![];
        let mut abandoned = 0u64;
        for (b, batch) in modes.chunks(per).enumerate() {
            for (j, m) in batch.iter().enumerate() {
                let slot = 2 + b * per + j;
                ma.exec(&mut ca, &BOp::Open(slot), acc)?;
                open_now += 1;
                match m {
                    Mode::Open => left_open.push(slot),
                    Mode::OpenNext => {
                        ma.exec(&mut ca, &BOp::Next(slot), acc)?;
                        left_open.push(slot);
                    }
                    Mode::Abandon => {
                        if rng.coin() {
                            ma.exec(&mut ca, &BOp::Next(slot), acc)?;
                        }
                        abandoned += 1;
                    }
                    Mode::Complete => {
                        ma.exec(&mut ca, &BOp::Drain(slot), acc)?;
                        open_now -= 1;
                    }
                    Mode::CancelMid => {
                        ma.exec(&mut ca, &BOp::Next(slot), acc)?;
                        ma.exec(&mut ca, &BOp::Cancel(slot, rng.coin()), acc)?;
                        open_now -= 1;
                    }
                }
                peak = peak.max(open_now);
            }
            ma.context = format!("{open_now} other sessions had been opened on the same registration and not released (the scenario keeps {} open)", plan.n);
            mb.context = format!("{open_now} sessions were open on ANOTHER registration (another server of the process), {} on its own", 1 + b.min(nb_others));
            // the consumers of the abandoned sessions go away: their connection is closed without a cancel
            if b % 2 == 1 || b + 1 == modes.chunks(per).len() {
                ca[DOOMED] = connect(srv_a.addr)?;
                acc.count("many_open_sessions_connections_dropped_with_open_sessions", 1);
            }
            // the slow consumers pull one more chunk each
            for &s in &slow {
                ma.exec(&mut ca, &BOp::Next(s), acc)?;
            }
            if b < nb_others {
                mb.exec(&mut cb, &BOp::Open(1 + b), acc)?;
            }
            mb.exec(&mut cb, &BOp::Next(0), acc)?;
        }
        let live_through: Vec<bool> = slow.iter().map(|&s| ma.live(s)).collect();
        let live_b = mb.live(0);
        // now the slow transfers run to their end, and so does a sample of the sessions that were only left open
        for &s in &slow {
            ma.exec(&mut ca, &BOp::Drain(s), acc)?;
        }
        mb.exec(&mut cb, &BOp::Drain(0), acc)?;
        let mut sample = left_open.clone();
        rng.shuffle(&mut sample);
        sample.truncate(12);
        sample.sort();
        // the longest-open and the most recent of them are always in
        if let (Some(&f), Some(&l)) = (left_open.first(), left_open.last()) {
            for x in [f, l] {
                if !sample.contains(&x) {
                    sample.push(x);
                }
            }
        }
        for &s in &sample {
            ma.exec(&mut ca, &BOp::Drain(s), acc)?;
        }
        acc.evals += 1;
        acc.count("many_open_sessions_raw_scenarios", 1);
        acc.count(&format!("many_open_sessions_raw_scenarios[n={}]", plan.n), 1);
        acc.count("many_open_sessions_other_sessions_open_at_the_peak", peak as u64);
        acc.count("many_open_sessions_sessions_abandoned_without_cancel", abandoned);
        for (i, &s) in slow.iter().enumerate() {
            if live_through[i] {
                acc.count("many_open_sessions_slow_transfers_live_while_all_others_were_open", 1);
                if ma.ended(s) && ma.exact(s) {
                    acc.count("many_open_sessions_slow_transfers_exact", 1);
                    acc.count(&format!("many_open_sessions_slow_transfers_exact[n={}]", plan.n), 1);
                }
            } else if !ma.disturbed(s) {
                acc.count("many_open_sessions_slow_transfers_that_ended_before_all_others_were_open", 1);
            }
        }
        if live_b {
            acc.count("many_open_sessions_slow_transfers_live_while_all_others_were_open", 1);
            if mb.ended(0) && mb.exact(0) {
                acc.count("many_open_sessions_slow_transfers_exact", 1);
                acc.count("many_open_sessions_slow_transfers_exact_on_another_registration", 1);
            }
        }
        acc.count("many_open_sessions_left_open_sessions_pulled_to_their_end_afterwards", sample.iter().filter(|&&s| ma.ended(s)).count() as u64);
        acc.distinct.push(hash_of(&("many-open-raw", &cfg, plan.n, live_through.clone(), live_b)));
        if acc.samples.is_empty() && plan.n >= 100 {
            let mut j = plan.json();
            j["observed"] = json!({"other_sessions_open_at_the_peak": peak, "come_and_go_sessions": come_and_go, "abandoned_without_cancel": abandoned, "slow_transfer_chunks": slow.iter().map(|&s| ma.progress(s).1).collect::<Vec<_>>(),
                                   "slow_transfers_live_while_all_others_were_open": live_through, "left_open_sessions_pulled_to_their_end_afterwards": sample.len()});
            acc.samples.push(j);
        }
        // release everything that is still open (the producers' threads go away), judge every stream
        ma.finish(&mut ca, acc)?;
        mb.finish(&mut cb, acc)?;
        acc.count("frames_sent", ca.iter().chain(cb.iter()).map(|c| c.frames_sent).sum());
        acc.count("frames_received", ca.iter().chain(cb.iter()).map(|c| c.frames_received).sum());
        Ok(())
    }

    // ------------------------------------------------------------------ stage pullers

    #[derive(Default)]
    struct GateSt {
        paused_after: Option<usize>,
        open: bool,
        timed_out: bool,
        total: usize,
    }
    #[derive(Default)]
    struct PauseGate {
        st: Mutex<GateSt>,
        cv: Condvar,
    }
    const GATE_MAX: Duration = Duration::from_secs(60);

    /// The slow consumer: reads `stall_after` bytes in seeded pieces, waits for the harness, reads on to the end.
    fn pausing_drain(reader: &mut dyn Read, seed: u64, chunk: usize, stall_after: usize, gate: &PauseGate) -> Result<Vec<u8>, RepeError> {
        let mut r = Rng::new(seed ^ 0xC4_0D);
        let mut out = Vec::new();
        let mut buf = vec![0u8; 2 * chunk + 3];
        let mut paused = false;
        loop {
            let want = 1 + r.usize_below(buf.len());
            let n = reader.read(&mut buf[..want])?;
            if n == 0 {
                gate.st.lock().unwrap_or_else(|e| e.into_inner()).total = out.len();
                return Ok(out);
            }
            out.extend_from_slice(&buf[..n]);
            if !paused && out.len() >= stall_after {
                paused = true;
                let mut g = gate.st.lock().unwrap_or_else(|e| e.into_inner());
                g.paused_after = Some(out.len());
                gate.cv.notify_all();
                let (mut g, _) = gate.cv.wait_timeout_while(g, GATE_MAX, |s| !s.open).unwrap_or_else(|e| e.into_inner());
                if !g.open {
                    g.timed_out = true;
                }
            }
        }
    }

    fn puller_scenario(plan: &Plan, rt: &Arc<tokio::runtime::Runtime>, acc: &mut Acc) -> Result<(), String> {
        let cfg = plan.cfg();
        let cl = plan.cl.unwrap_or(Cl::Sync);
        let mut rng = Rng::new(plan.seed ^ 0xC0_7E);
        let srv = start_server(&cfg, rt).map_err(|e| format!("server start: {e}"))?;
        let srv_b = start_server(&cfg, rt).map_err(|e| format!("server start: {e}"))?;
        let client = match cl {
            Cl::Sync => Client::connect(srv.addr).map(AnyClient::Sync).map_err(|e| format!("Client::connect: {e}")),
            Cl::Async => rt.block_on(AsyncClient::connect(srv.addr)).map(AnyClient::Async).map_err(|e| format!("AsyncClient::connect: {e}")),
            Cl::Ws => rt.block_on(WebSocketClient::connect(&format!("ws://{}/repe", srv.addr))).map(AnyClient::Ws).map_err(|e| format!("WebSocketClient::connect: {e}")),
        }?;
        // many chunks still to come when the consumer stops: no queue between the wire and the consumer can hold the rest
        let n_chunks = if plan.zstd { 90 + rng.usize_below(20) } else { 300 + rng.usize_below(300) };
        let spec = spec_chunks(&cfg, &mut rng, n_chunks);
        let expected = logical_bytes(plan.kind, &spec);
        let res = spec.res();
        let stall_after = (expected.len() * (50 + rng.usize_below(250)) / 1000).max(1);
        let gate = Arc::new(PauseGate::default());
        let puller = if cl == Cl::Sync { "pull_consume" } else { "pull_consume_async" };
        let (tx, rx) = mpsc::channel::<Result<Vec<u8>, String>>();
        {
            let (gate, res, rt, seed, chunk) = (gate.clone(), res.clone(), rt.clone(), plan.seed, plan.chunk);
            std::thread::Builder::new()
                .name("c09-slow-consumer".into())
                .spawn(move || {
                    let et = |e: RepeError| err_text(&e);
                    let g2 = gate.clone();
                    let r = catching(|| match &client {
                        AnyClient::Sync(c) => pull_consume(c, &res, |r| pausing_drain(r, seed, chunk, stall_after, &gate)).map_err(et),
                        AnyClient::Async(c) => rt.block_on(pull_consume_async(c, &res, move |mut r| pausing_drain(&mut *r, seed, chunk, stall_after, &g2))).map_err(et),
                        AnyClient::Ws(c) => rt.block_on(pull_consume_async(c, &res, move |mut r| pausing_drain(&mut *r, seed, chunk, stall_after, &g2))).map_err(et),
                    });
                    let _ = tx.send(r.unwrap_or_else(|p| Err(format!("harness: panic in the pulling thread: {p}"))));
                })
                .map_err(|e| format!("spawn: {e}"))?;
        }
        // wait until the consumer has stopped (or the pull ended without getting there)
        let paused = {
            let g = gate.st.lock().unwrap_or_else(|e| e.into_inner());
            let (g, _) = gate.cv.wait_timeout_while(g, Duration::from_secs(30), |s| s.paused_after.is_none()).unwrap_or_else(|e| e.into_inner());
            g.paused_after
        };
        // the other sessions: on the same registration over two raw connections (one of them goes away), a few on another registration
        let mut opened: Vec<u64> = vec![];
        let mut opened_b: Vec<u64> = vec![];
        let mut crowd_err: Option<String> = None;
        let mut refused: Option<(u32, String)> = None;
        let mut raw_keep: Option<RawSvs<TcpRaw>> = None;
        let mut ws_keep: Option<RawSvs<WsRaw>> = None;
        let small = spec_chunks(&cfg, &mut rng, 3);
        if paused.is_some() {
            let mut go = || -> Result<(), String> {
                macro_rules! open_all {
                    ($mk:expr, $keep:ident) => {{
                        let mk = $mk;
                        let mut keep = mk(srv.addr)?;
                        let mut doomed = mk(srv.addr)?;
                        let mut other = mk(srv_b.addr)?;
                        for i in 0..plan.n {
                            let c = if i % 3 == 2 { &mut doomed } else { &mut keep };
                            match c.open(&small.res())? {
                                Ok(o) => {
                                    opened.push(o.stream_id);
                                    if i % 4 == 1 {
                                        let _ = c.next(o.stream_id)?;
                                    }
                                }
                                Err(e) => {
                                    refused = Some(e);
                                    break;
                                }
                            }
                        }
                        for _ in 0..3 {
                            if let Ok(o) = other.open(&small.res())? {
                                opened_b.push(o.stream_id);
                            }
                        }
                        for id in &opened_b {
                            let _ = other.cancel(*id, false)?;
                        }
                        drop(doomed);
                        $keep = Some(keep);
                    }};
                }
                match plan.tr {
                    Tr::Tcp => open_all!(|a: SocketAddr| TcpRaw::connect(a).map(RawSvs::new), raw_keep),
                    Tr::Ws => open_all!(|a: SocketAddr| WsRaw::connect(rt.clone(), &format!("ws://{a}/repe")).map(RawSvs::new), ws_keep),
                }
                Ok(())
            };
            if let Err(e) = go() {
                crowd_err = Some(e);
            }
        }
        // the consumer reads on
        {
            let mut g = gate.st.lock().unwrap_or_else(|e| e.into_inner());
            g.open = true;
            gate.cv.notify_all();
        }
        let got = rx.recv_timeout(Duration::from_secs(90));
        // release the other sessions (their producers' threads go away)
        for id in &opened {
            if let Some(c) = raw_keep.as_mut() {
                let _ = c.cancel(*id, false);
            }
            if let Some(c) = ws_keep.as_mut() {
                let _ = c.cancel(*id, false);
            }
        }
        let who = format!("{puller} over {}", cl.name());
        let got = match got {
            Ok(g) => g,
            Err(_) => {
                acc.inconclusive.push(format!("many-open-sessions family, {who}: the pull did not return within its window ({plan:?})"));
                return Ok(());
            }
        };
        if let Some(e) = crowd_err {
            return Err(format!("raw client trouble while opening the other sessions: {e}"));
        }
        let (timed_out, total) = {
            let g = gate.st.lock().unwrap_or_else(|e| e.into_inner());
            (g.timed_out, g.total)
        };
        if timed_out {
            acc.inconclusive.push(format!("many-open-sessions family, {who}: the harness did not open its gate within {GATE_MAX:?}"));
            return Ok(());
        }
        if let Err(e) = &got {
            if e.starts_with("harness:") {
                acc.inconclusive.push(format!("many-open-sessions family, {who}: {e}"));
                return Ok(());
            }
        }
        let mut j = plan.json();
        j["resource"] = json!(res);
        j["logical_len"] = json!(expected.len());
        j["observed"] = json!({"consumer_had_read_bytes_when_it_stopped": paused, "other_sessions_opened_meanwhile": opened.len(), "consumer_read_bytes_in_total": total,
                               "result": match &got { Ok(b) => format!("Ok({} bytes)", b.len()), Err(e) => format!("Err({})", trunc(e, 120)) }});
        if let Some((ec, msg)) = refused {
            acc.evals += 1;
            acc.violation(
                format!("C09:{FAM}:open-refused"),
                format!("open #{} on a producer with {} sessions open was answered ec={ec} '{}'", opened.len() + 1, opened.len() + 1, trunc(&msg, 120)),
                j.clone(),
            );
        }
        acc.evals += 1;
        acc.count("many_open_sessions_puller_scenarios", 1);
        acc.count(&format!("many_open_sessions_puller_scenarios[n={}]", plan.n), 1);
        acc.distinct.push(hash_of(&("many-open-puller", &cfg, cl, plan.n, paused.is_some(), got.is_ok())));
        let Some(paused_after) = paused else {
            acc.count("many_open_sessions_pulls_that_ended_before_the_consumer_stopped", 1);
            return Ok(());
        };
        acc.count("many_open_sessions_other_sessions_open_at_the_peak", opened.len() as u64);
        acc.count("many_open_sessions_consumers_stopped_mid_stream_while_the_others_were_opened", 1);
        match sidecar::pull_defect(&got, &expected, None, plan.chunk) {
            None => {
                acc.count("pulls_matching", 1);
                acc.count("many_open_sessions_slow_pulls_exact", 1);
                acc.count(&format!("many_open_sessions_slow_pulls_exact[{}]", cl.name()), 1);
                if acc.samples.is_empty() && plan.n >= 100 {
                    acc.samples.push(j);
                }
            }
            Some((what, detail)) => acc.violation(
                format!("C09:{FAM}:{puller}:{what}"),
                format!(
                    "{who} {detail}; its consumer had read {paused_after} of {} logical bytes and stopped, {} other sessions were opened on the same registration (none of them touched this stream), then the consumer read on",
                    expected.len(),
                    opened.len()
                ),
                j,
            ),
        }
        Ok(())
    }

    fn work(plan: &Plan, rt: &Arc<tokio::runtime::Runtime>, acc: &mut Acc) {
        let r = if plan.raw {
            match plan.tr {
                Tr::Tcp => raw_scenario(plan, &|a| TcpRaw::connect(a).map(RawSvs::new), rt, acc),
                Tr::Ws => raw_scenario(plan, &|a| WsRaw::connect(rt.clone(), &format!("ws://{a}/repe")).map(RawSvs::new), rt, acc),
            }
        } else {
            puller_scenario(plan, rt, acc)
        };
        if let Err(e) = r {
            acc.inconclusive.push(format!("many-open-sessions family trouble on {}: {e}", trunc(&format!("{plan:?}"), 240)));
        }
        acc.count("many_open_sessions_family_scenarios", 1);
    }

    pub fn crowd_sizes(args: &Args) -> Vec<usize> {
        if args.scale < 0.5 {
            // a slow engine (memcheck): thousands of producer threads are out of its reach
            return vec![1, 10, 100];
        }
        if args.thorough() { vec![1, 10, 100, 300, 1000, 5000] } else { vec![1, 10, 100, 300, 1000] }
    }

    fn plans(args: &Args, raw: bool) -> Vec<Plan> {
        let mut rng = Rng::new(args.seed ^ 0xC09_C40D ^ raw as u64);
        let mut v = vec![];
        // small chunks: thousands of payloads of a few chunks each stay small
        let small = |rng: &mut Rng| *rng.pick(&[1usize, 3, 16, 64, 200]);
        let kinds = [Kind::Reader, Kind::Writer, Kind::Value, Kind::Typed(Elem::U8), Kind::Typed(Elem::F64), Kind::Complex(Elem::F32)];
        let reps = if args.thorough() { 2 } else { 1 };
        for rep in 0..reps {
            for (i, &n) in crowd_sizes(args).iter().enumerate() {
                if raw {
                    for tr in [Tr::Tcp, Tr::Ws] {
                        if n >= 5000 && (tr == Tr::Ws || rep > 0) {
                            continue;
                        }
                        let zstd = rng.chance(1, 3);
                        let kind = if zstd { *rng.pick(&[Kind::Reader, Kind::Writer]) } else { *rng.pick(&kinds) };
                        let chunk = if zstd { 64 } else { small(&mut rng) };
                        v.push(Plan { raw, tr, cl: None, kind, chunk, depth: rng.usize_below(9), zstd, n, seed: rng.next_u64() });
                    }
                } else {
                    let cls: Vec<Cl> = if n >= 300 || args.thorough() { vec![Cl::Sync, Cl::Async, Cl::Ws] } else { vec![[Cl::Sync, Cl::Async, Cl::Ws][(i + args.seed as usize) % 3]] };
                    for cl in cls {
                        if n >= 5000 && cl != Cl::Sync {
                            continue;
                        }
                        let zstd = rng.chance(1, 4);
                        let kind = if zstd { *rng.pick(&[Kind::Reader, Kind::Writer]) } else { *rng.pick(&[Kind::Reader, Kind::Writer, Kind::Value, Kind::Typed(Elem::U8)]) };
                        let chunk = if zstd { 4096 } else { small(&mut rng).max(3) };
                        v.push(Plan { raw, tr: if cl == Cl::Ws { Tr::Ws } else { Tr::Tcp }, cl: Some(cl), kind, chunk, depth: rng.usize_below(9), zstd, n, seed: rng.next_u64() });
                    }
                }
            }
        }
        // the largest crowds first: they take longest
        v.sort_by_key(|p| std::cmp::Reverse(p.n));
        let k = args.budget(v.len() as u64, v.len() as u64) as usize;
        if k < v.len() {
            rng.shuffle(&mut v);
            v.truncate(k.max(1));
        }
        v
    }

    pub fn spawn(args: &Args, raw: bool) -> sidecar::Family {
        sidecar::spawn(FAM, plans(args, raw), 3, Duration::from_secs(if args.thorough() { 420 } else { 45 }), work)
    }

    /// "Observed nothing" for this family.
    pub fn summary(rep: &mut Report, raw: bool) {
        if !rep.inconclusive.is_empty() {
            return;
        }
        let seen = if raw { rep.get_count("many_open_sessions_slow_transfers_live_while_all_others_were_open") } else { rep.get_count("many_open_sessions_consumers_stopped_mid_stream_while_the_others_were_opened") };
        if seen == 0 {
            rep.inconclusive("many-open-sessions family: no slow transfer was in progress while the other sessions were open");
        }
    }
}
