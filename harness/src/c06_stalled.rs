//! C06 workload class "fault while the writer is stalled".
//!
//! Every other C06 scenario delivers its fault while the client's writer is idle (or parked at a probe
//! for a few milliseconds). Here ANOTHER task is in the middle of a large send that is stalled on
//! backpressure when the fault arrives: the raw peer stopped reading (small SO_RCVBUF, request body
//! larger than everything the kernel can buffer), so the sender sits inside the write holding the
//! writer lock (blocking `Client`: the writer mutex, with and without `set_write_timeout`;
//! `AsyncClient`: the tokio writer lock held across an await; `WebSocketClient`: the sink mutex).
//! The peer then writes the fault (it can write although it does not read) and LINGERS: it neither
//! reads nor closes for `LINGER`. Only then it releases (close or RST).
//!
//! Observed, each with the instant at which it ended (taken by the ending task itself):
//!   * the push-only notify subscriber (WebSocket): end-of-stream,
//!   * calls in flight (written and read by the peer before it stopped reading): error,
//!   * calls queued behind the stalled sender (registered, waiting for the writer): error,
//!   * calls issued after the fault: error,
//!   * the stalled sender itself: an error once the peer is gone (bounded), never Ok,
//!   * one more call after the release: error; pending table empty at quiescence.
//!
//! Verdicts are decided on the ORDER of two events: "X ended" against "the peer released". What must
//! fail promptly has to have ended before the release (6 s after the fault); `BOUND` (3 s) catches a
//! result that comes late but before the release. Both are discarded (inconclusive) when the
//! heartbeat saw a scheduling stall. Peer close / RST while the writer is stalled have no linger: there
//! only the 15 s window applies. A scenario whose writer was not provably stalled (the peer did not see
//! the start of the big frame, the sender had already returned, the body does not exceed the kernel's
//! buffering) is counted "not forced" and never contributes a timing violation.
//!
//! Class "local write failure" (blocking `Client` only: the one client with a write timeout). Here the
//! peer delivers NO fault: it reads the in-flight requests (and never answers them), stops reading and
//! stays silent with the socket open. The fault is the client's own: with `set_write_timeout(100..400 ms)`
//! the big send is given up part-way and its caller gets the error; the client has then declared the
//! connection unusable. From that instant (taken by the failing caller itself) the same oracle applies:
//! calls in flight, callers queued behind the sender and calls issued afterwards must have ended with an
//! error before the peer releases `LINGER` later (close, RST, or resuming to read until end-of-stream and
//! then closing), within `BOUND`. Varied: 1..16 calls in flight, the big request issued from a fresh thread
//! or from a thread that already completed an answered call on this client (which then also issues the
//! first later call), the write timeout, the request size (just above what the kernel can buffer .. well
//! above; one size the kernel can swallow, which is counted "not forced"). Forced = the big sender returned
//! an I/O error while the peer was silent and holding the socket, after the peer had seen the frame start.
//!
//! All scenarios of the table run concurrently (one script thread each, own listener, own client), so
//! the whole class costs about LINGER + 2 s of wall time. No probe gates are used: concurrent clients
//! share request ids, so probe events cannot be attributed; the peer's own byte stream is the evidence.

use super::imp::{BADS, BadHdr, CUTS, CutAt, Stats, bad_frame, cut_offset};
use super::infra::*;
use crate::common::*;
use crate::oracle::{self, SpecHeader};
use serde_json::{Value, json};
use std::collections::BTreeMap;
use std::io::{Read, Write};
use std::net::{SocketAddr, TcpListener, TcpStream};
use std::os::fd::AsRawFd;
use std::sync::atomic::{AtomicU64, Ordering};
use std::sync::{Arc, Mutex, OnceLock, mpsc};
use std::time::{Duration, Instant};
use tokio_tungstenite::tungstenite;

/// how long the peer keeps the connection open (not reading, not closing) after the fault
pub const LINGER: Duration = Duration::from_secs(6);
/// generous bound for "promptly", well below LINGER
pub const BOUND: Duration = Duration::from_secs(3);
/// blocking client, write-timeout variant: well below BOUND
const WRITE_TIMEOUT: Duration = Duration::from_millis(500);
const PEER_RCVBUF: usize = 32 << 10;

#[derive(Clone, Copy, Debug, PartialEq, Eq, Hash)]
pub enum SFault {
    /// malformed 48-byte header (inside a valid binary message for WebSocket); connection held open
    Bad(BadHdr),
    WsText,
    WsCloseFrame,
    WsTrunc(CutAt),
    WsTrailing,
    WsEmpty,
    /// the peer closes while the writer is stalled (unread data queued: the kernel answers with RST)
    PeerClose,
    /// SO_LINGER 0 close
    PeerRst,
    /// no fault from the peer at all: the client's own frame write times out against the silent peer
    LocalWriteTimeout,
}

impl SFault {
    pub fn name(&self) -> String {
        match self {
            SFault::Bad(b) => format!("bad-header:{b:?}"),
            SFault::WsText => "ws-text-frame".into(),
            SFault::WsCloseFrame => "ws-close-frame".into(),
            SFault::WsTrunc(c) => format!("ws-truncated-payload@{c:?}"),
            SFault::WsTrailing => "ws-trailing-byte".into(),
            SFault::WsEmpty => "ws-empty-binary".into(),
            SFault::PeerClose => "peer-close".into(),
            SFault::PeerRst => "peer-rst".into(),
            SFault::LocalWriteTimeout => "write-timeout".into(),
        }
    }
    /// the socket stays open after the fault: the peer lingers
    pub fn lingers(&self) -> bool {
        !matches!(self, SFault::PeerClose | SFault::PeerRst)
    }
}

/// The faults of the C06 table that leave the socket open, plus peer close / reset.
pub fn sfaults_for(kind: Kind) -> Vec<SFault> {
    let mut v: Vec<SFault> = BADS.iter().map(|b| SFault::Bad(*b)).collect();
    if kind == Kind::Ws {
        v.push(SFault::WsText);
        v.push(SFault::WsCloseFrame);
        v.extend(CUTS.iter().map(|c| SFault::WsTrunc(*c)));
        v.push(SFault::WsTrailing);
        v.push(SFault::WsEmpty);
    }
    v.push(SFault::PeerClose);
    v.push(SFault::PeerRst);
    v
}

#[derive(Clone, Debug)]
pub struct Scen {
    pub kind: Kind,
    pub fault: SFault,
    /// blocking client only: `set_write_timeout(Some(WRITE_TIMEOUT))`
    pub write_timeout: bool,
    pub n_inflight: usize,
    pub n_queued: usize,
    pub per_call_timeouts: bool,
    pub sender_timeout: bool,
    pub push_notify: bool,
    pub release_rst: bool,
    pub case: u64,
    /// local-write-failure class: the configured write timeout
    pub wt_ms: u64,
    /// body bytes of the big request (0: the batch's default)
    pub big_len: usize,
    /// local-write-failure class: the big request (and the first later call) come from a thread that already
    /// completed an answered call on this client
    pub same_thread: bool,
    /// local-write-failure class: the peer releases by reading on until end-of-stream, then closes
    pub release_resume: bool,
}

impl Scen {
    fn local(&self) -> bool {
        self.fault == SFault::LocalWriteTimeout
    }
    fn class(&self) -> &'static str {
        if self.local() {
            "local-write-failure"
        } else if self.write_timeout {
            "stalled-writer+write-timeout"
        } else {
            "stalled-writer"
        }
    }
    fn wt(&self) -> Duration {
        if self.local() { Duration::from_millis(self.wt_ms) } else { WRITE_TIMEOUT }
    }
    fn release_name(&self) -> &'static str {
        if self.release_resume {
            "resume-reading-then-close"
        } else if self.release_rst {
            "rst"
        } else {
            "close"
        }
    }
    fn sig(&self, what: &str) -> String {
        format!("C06:{}:{}:{}:{what}", self.kind.name(), self.class(), self.fault.name())
    }
    fn replay(&self, seed: u64) -> Value {
        json!({"scenario": self.class(), "client": self.kind.name(), "fault": self.fault.name(), "write_timeout_ms": if self.write_timeout { Some(self.wt().as_millis() as u64) } else { None },
               "big_body_bytes": self.big_len, "big_request_from_a_thread_with_a_completed_call": self.same_thread,
               "in_flight": self.n_inflight, "queued_behind_sender": self.n_queued, "per_call_timeouts": self.per_call_timeouts, "sender_timeout": self.sender_timeout,
               "notify_pushed_before_fault": self.push_notify, "release": self.release_name(), "linger_ms": LINGER.as_millis() as u64, "seed": seed, "case": self.case})
    }
}

// ------------------------------------------------------------------ the big body

fn big_pad(len: usize) -> &'static str {
    static PAD: OnceLock<String> = OnceLock::new();
    PAD.get_or_init(|| "x".repeat(len)).as_str()
}

#[derive(serde::Serialize)]
struct BigBody {
    t: u64,
    p: &'static str,
}

enum Body {
    Small(Value),
    /// (token, pad bytes)
    Big(u64, usize),
}

// ------------------------------------------------------------------ calls (own bookkeeping: every result carries the instant it ended)

struct Fin {
    idx: usize,
    res: CallRes,
    at: Instant,
}

#[derive(Clone, Copy, Debug, PartialEq, Eq)]
enum Role {
    /// answered by the peer before anything else happens (local-write-failure class, same-thread variant)
    Pre,
    InFlight,
    Sender,
    Queued,
    Later,
    PostRelease,
}

struct CallRec {
    role: Role,
    token: u64,
    timeout: Option<Duration>,
    launched: Instant,
    res: Option<(CallRes, Instant)>,
}

fn conv(r: Result<Value, repe::RepeError>) -> CallRes {
    match r {
        Ok(v) => CallRes::Ok(v),
        Err(e) => CallRes::Err(format!("{}: {}", ekind(&e), trunc(&e.to_string(), 120))),
    }
}

struct Shared {
    handle: tokio::runtime::Handle,
    tokens: AtomicU64,
    big: usize,
    wmem_max: Option<usize>,
    seed: u64,
}

fn sync_call(c: &repe::Client, big: usize, idx: usize, body: &Body, timeout: Option<Duration>) -> Fin {
    let r = catching(|| match (body, timeout) {
        (Body::Small(v), None) => c.call_json(PATH, v),
        (Body::Small(v), Some(d)) => c.call_json_with_timeout(PATH, v, d),
        (Body::Big(t, n), None) => c.call_json(PATH, &BigBody { t: *t, p: &big_pad(big)[..*n] }),
        (Body::Big(t, n), Some(d)) => c.call_json_with_timeout(PATH, &BigBody { t: *t, p: &big_pad(big)[..*n] }, d),
    });
    let at = Instant::now();
    let res = match r {
        Ok(r) => conv(r),
        Err(p) => CallRes::Panic(p),
    };
    Fin { idx, res, at }
}

type Job = (usize, Body, Option<Duration>);

/// Blocking client: a caller thread that stays alive and makes one call after the other.
fn spawn_worker(sh: &Shared, c: &repe::Client, tx: &mpsc::Sender<Fin>) -> Option<mpsc::Sender<Job>> {
    let (jtx, jrx) = mpsc::channel::<Job>();
    let (c, tx, big) = (c.clone(), tx.clone(), sh.big);
    std::thread::Builder::new()
        .stack_size(256 << 10)
        .name("c06-stalled-worker".into())
        .spawn(move || {
            while let Ok((idx, body, timeout)) = jrx.recv() {
                let _ = tx.send(sync_call(&c, big, idx, &body, timeout));
            }
        })
        .ok()
        .map(|_| jtx)
}

fn launch(sh: &Shared, cli: &Cli, tx: &mpsc::Sender<Fin>, idx: usize, body: Body, timeout: Option<Duration>) {
    let tx = tx.clone();
    let big = sh.big;
    match cli.clone() {
        Cli::Sync(c) => {
            let tx2 = tx.clone();
            let r = std::thread::Builder::new().stack_size(256 << 10).name("c06-stalled-call".into()).spawn(move || {
                let _ = tx.send(sync_call(&c, big, idx, &body, timeout));
            });
            if let Err(e) = r {
                let _ = tx2.send(Fin { idx, res: CallRes::Panic(format!("harness: thread spawn failed: {e}")), at: Instant::now() });
            }
        }
        Cli::Async(c) => {
            sh.handle.spawn(async move {
                let r = match (&body, timeout) {
                    (Body::Small(v), None) => c.call_json(PATH, v).await,
                    (Body::Small(v), Some(d)) => c.call_json_with_timeout(PATH, v, d).await,
                    (Body::Big(t, n), None) => c.call_json(PATH, &BigBody { t: *t, p: &big_pad(big)[..*n] }).await,
                    (Body::Big(t, n), Some(d)) => c.call_json_with_timeout(PATH, &BigBody { t: *t, p: &big_pad(big)[..*n] }, d).await,
                };
                let at = Instant::now();
                let _ = tx.send(Fin { idx, res: conv(r), at });
            });
        }
        Cli::Ws(c) => {
            sh.handle.spawn(async move {
                let r = match (&body, timeout) {
                    (Body::Small(v), None) => c.call_json(PATH, v).await,
                    (Body::Small(v), Some(d)) => c.call_json_with_timeout(PATH, v, d).await,
                    (Body::Big(t, n), None) => c.call_json(PATH, &BigBody { t: *t, p: &big_pad(big)[..*n] }).await,
                    (Body::Big(t, n), Some(d)) => c.call_json_with_timeout(PATH, &BigBody { t: *t, p: &big_pad(big)[..*n] }, d).await,
                };
                let at = Instant::now();
                let _ = tx.send(Fin { idx, res: conv(r), at });
            });
        }
    }
}

struct Book {
    tx: mpsc::Sender<Fin>,
    rx: mpsc::Receiver<Fin>,
    v: Vec<CallRec>,
}

impl Book {
    fn new() -> Book {
        let (tx, rx) = mpsc::channel();
        Book { tx, rx, v: vec![] }
    }
    /// `pad`: bytes of padding (the Sender's is the size of the big body).
    fn go(&mut self, sh: &Shared, cli: &Cli, role: Role, pad: usize, timeout: Option<Duration>) -> usize {
        self.go_on(None, sh, cli, role, pad, timeout)
    }
    /// `go`, on a worker thread when there is one (falls back to a fresh thread).
    fn go_on(&mut self, worker: Option<&mpsc::Sender<Job>>, sh: &Shared, cli: &Cli, role: Role, pad: usize, timeout: Option<Duration>) -> usize {
        let idx = self.v.len();
        let token = sh.tokens.fetch_add(1, Ordering::Relaxed);
        let body = if role == Role::Sender { Body::Big(token, pad.min(sh.big)) } else { Body::Small(body_for(token, pad)) };
        self.v.push(CallRec { role, token, timeout, launched: Instant::now(), res: None });
        let body = match worker {
            Some(w) => match w.send((idx, body, timeout)) {
                Ok(()) => return idx,
                Err(e) => e.0.1,
            },
            None => body,
        };
        launch(sh, cli, &self.tx, idx, body, timeout);
        idx
    }
    /// Wait until call `idx` has a result, or until `deadline`.
    fn wait_one(&mut self, idx: usize, deadline: Instant) -> bool {
        loop {
            self.absorb();
            if self.v[idx].res.is_some() {
                return true;
            }
            let now = Instant::now();
            if now >= deadline {
                return false;
            }
            if let Ok(f) = self.rx.recv_timeout((deadline - now).min(Duration::from_millis(50))) {
                if let Some(c) = self.v.get_mut(f.idx) {
                    c.res = Some((f.res, f.at));
                }
            }
        }
    }
    fn absorb(&mut self) {
        while let Ok(f) = self.rx.try_recv() {
            if let Some(c) = self.v.get_mut(f.idx) {
                c.res = Some((f.res, f.at));
            }
        }
    }
    /// Wait until every call has a result, or until `deadline`. Returns true when all have.
    fn wait_all(&mut self, deadline: Instant) -> bool {
        loop {
            self.absorb();
            if self.v.iter().all(|c| c.res.is_some()) {
                return true;
            }
            let now = Instant::now();
            if now >= deadline {
                return false;
            }
            if let Ok(f) = self.rx.recv_timeout((deadline - now).min(Duration::from_millis(100))) {
                if let Some(c) = self.v.get_mut(f.idx) {
                    c.res = Some((f.res, f.at));
                }
            }
        }
    }
}

// ------------------------------------------------------------------ the raw peer (blocking sockets, driven by the scenario script)

enum Peer {
    Tcp(TcpStream),
    Ws(Box<tungstenite::WebSocket<TcpStream>>),
}

fn set_sockopt_int(fd: i32, level: i32, name: i32, val: i32) -> bool {
    unsafe { libc::setsockopt(fd, level, name, &val as *const i32 as *const libc::c_void, std::mem::size_of::<i32>() as libc::socklen_t) == 0 }
}

fn get_rcvbuf(fd: i32) -> Option<usize> {
    let mut v: i32 = 0;
    let mut l = std::mem::size_of::<i32>() as libc::socklen_t;
    let r = unsafe { libc::getsockopt(fd, libc::SOL_SOCKET, libc::SO_RCVBUF, &mut v as *mut i32 as *mut libc::c_void, &mut l) };
    if r == 0 && v > 0 { Some(v as usize) } else { None }
}

fn set_linger0(s: &TcpStream) {
    let l = libc::linger { l_onoff: 1, l_linger: 0 };
    unsafe {
        libc::setsockopt(s.as_raw_fd(), libc::SOL_SOCKET, libc::SO_LINGER, &l as *const libc::linger as *const libc::c_void, std::mem::size_of::<libc::linger>() as libc::socklen_t);
    }
}

fn would_block(e: &std::io::Error) -> bool {
    matches!(e.kind(), std::io::ErrorKind::WouldBlock | std::io::ErrorKind::TimedOut | std::io::ErrorKind::Interrupted)
}

impl Peer {
    fn raw(&mut self) -> &mut TcpStream {
        match self {
            Peer::Tcp(s) => s,
            Peer::Ws(w) => w.get_mut(),
        }
    }
    /// Read and parse exactly `n` requests (oracle.rs codec). Returns (header, query, body, token) each.
    fn read_reqs(&mut self, n: usize, deadline: Instant) -> Result<Vec<Req>, String> {
        let mut out = vec![];
        let mk = |h: SpecHeader, q: &[u8], b: &[u8]| {
            let token = serde_json::from_slice::<Value>(b).ok().and_then(|v| v["t"].as_u64()).unwrap_or(u64::MAX);
            Req { header: h, query: q.to_vec(), body: b.to_vec(), token }
        };
        match self {
            Peer::Tcp(s) => {
                let mut buf: Vec<u8> = vec![];
                let mut tmp = vec![0u8; 8 << 10];
                while out.len() < n {
                    if Instant::now() > deadline {
                        return Err(format!("peer parsed {} of {n} requests", out.len()));
                    }
                    match s.read(&mut tmp) {
                        Ok(0) => return Err("client closed during setup".into()),
                        Ok(k) => buf.extend_from_slice(&tmp[..k]),
                        Err(e) if would_block(&e) => continue,
                        Err(e) => return Err(format!("peer read error during setup: {e}")),
                    }
                    loop {
                        if buf.len() >= oracle::HDR && !SpecHeader::decode(&buf).consistent() {
                            return Err("corrupt request stream during setup".into());
                        }
                        match oracle::valid_parse(&buf, false) {
                            Some((h, ql, bl)) => {
                                out.push(mk(h, &buf[48..48 + ql], &buf[48 + ql..48 + ql + bl]));
                                buf.drain(..48 + ql + bl);
                            }
                            None => break,
                        }
                    }
                }
                if !buf.is_empty() || out.len() != n {
                    return Err(format!("unexpected extra bytes after the {n} setup requests ({} bytes)", buf.len()));
                }
            }
            Peer::Ws(w) => {
                while out.len() < n {
                    if Instant::now() > deadline {
                        return Err(format!("peer parsed {} of {n} requests", out.len()));
                    }
                    match w.read() {
                        Ok(tungstenite::Message::Binary(p)) => match oracle::valid_parse(&p, true) {
                            Some((h, ql, bl)) => out.push(mk(h, &p[48..48 + ql], &p[48 + ql..48 + ql + bl])),
                            None => return Err("corrupt ws request during setup".into()),
                        },
                        Ok(_) => {}
                        Err(tungstenite::Error::Io(e)) if would_block(&e) => continue,
                        Err(e) => return Err(format!("peer ws read error during setup: {e}")),
                    }
                }
            }
        }
        Ok(out)
    }
    /// After the peer stopped reading requests: take just the first bytes that arrive on the raw stream and
    /// check that they are the start of the big frame (REPE header announcing >= `big` body bytes; for
    /// WebSocket a masked binary frame header with a 64-bit length in front of it). Nothing more is read.
    fn sip_big_frame_start(&mut self, big: usize, deadline: Instant) -> Result<u64, String> {
        let ws = matches!(self, Peer::Ws(_));
        let need = if ws { 14 + 48 } else { 48 };
        let mut got: Vec<u8> = vec![];
        let mut tmp = [0u8; 64];
        while got.len() < need {
            if Instant::now() > deadline {
                return Err(format!("only {} bytes of the big frame arrived", got.len()));
            }
            let want = need - got.len();
            match self.raw().read(&mut tmp[..want]) {
                Ok(0) => return Err("client closed before the big frame".into()),
                Ok(k) => got.extend_from_slice(&tmp[..k]),
                Err(e) if would_block(&e) => continue,
                Err(e) => return Err(format!("peer read error before the big frame: {e}")),
            }
        }
        let hdr: Vec<u8> = if ws {
            if got[0] != 0x82 || got[1] != 0xFF {
                return Err(format!("bytes after the setup requests are not a large masked binary frame: {}", hex(&got[..14])));
            }
            let mask = [got[10], got[11], got[12], got[13]];
            got[14..].iter().enumerate().map(|(i, b)| b ^ mask[i % 4]).collect()
        } else {
            got.clone()
        };
        let h = SpecHeader::decode(&hdr);
        if !h.consistent() || (h.body_length as usize) < big {
            return Err(format!("bytes after the setup requests are not the big request header: {}", hex(&hdr)));
        }
        Ok(h.id)
    }
    fn write_raw(&mut self, b: &[u8]) -> Result<(), String> {
        let s = self.raw();
        s.write_all(b).and_then(|_| s.flush()).map_err(|e| format!("peer write failed: {e}"))
    }
}

fn accept_one(l: &TcpListener, deadline: Instant) -> Result<TcpStream, String> {
    let _ = l.set_nonblocking(true);
    loop {
        match l.accept() {
            Ok((s, _)) => {
                let _ = s.set_nonblocking(false);
                let _ = s.set_nodelay(true);
                let _ = s.set_write_timeout(Some(Duration::from_secs(5)));
                return Ok(s);
            }
            Err(e) if would_block(&e) => {
                if Instant::now() > deadline {
                    return Err("accept timed out".into());
                }
                std::thread::sleep(Duration::from_millis(2));
            }
            Err(e) => return Err(format!("accept: {e}")),
        }
    }
}

fn ws_text_frame(t: &[u8]) -> Vec<u8> {
    let mut f = vec![0x81u8, t.len() as u8];
    f.extend_from_slice(t);
    f
}

// ------------------------------------------------------------------ one scenario

#[derive(Default)]
struct Out {
    sc: Option<Scen>,
    executed: bool,
    forced: bool,
    not_forced_why: Option<String>,
    inconclusive: Vec<String>,
    /// decided on the order "ended" vs "released" / on BOUND: discarded when the heartbeat saw a stall
    timing: Vec<(String, String)>,
    /// independent of timing
    hard: Vec<(String, String)>,
    counts: Vec<(String, u64)>,
    err_kinds: Vec<(String, String)>,
    /// (class, ms after the fault / after the launch) of results that came promptly
    prompt_ms: Vec<(&'static str, u64)>,
    sample: Option<Value>,
}

impl Out {
    fn count(&mut self, k: &str, n: u64) {
        self.counts.push((k.to_string(), n));
    }
}

fn ms(d: Duration) -> u64 {
    d.as_millis() as u64
}

fn run_one(sh: &Shared, sc: &Scen, rng: &mut Rng) -> Out {
    let mut out = Out { sc: Some(sc.clone()), ..Default::default() };
    let ctx = format!("{} / {} / {}", sc.kind.name(), sc.class(), sc.fault.name());
    let setup_deadline = Instant::now() + STEP_MAX;
    macro_rules! bail {
        ($($a:tt)*) => {{
            out.inconclusive.push(format!("{ctx}: {}", format!($($a)*)));
            return out;
        }};
    }

    // --- listener with a small receive buffer (inherited by the accepted socket), client, peer
    let l = match TcpListener::bind("127.0.0.1:0") {
        Ok(l) => l,
        Err(e) => bail!("bind: {e}"),
    };
    let rcv_set = set_sockopt_int(l.as_raw_fd(), libc::SOL_SOCKET, libc::SO_RCVBUF, PEER_RCVBUF as i32);
    let addr: SocketAddr = match l.local_addr() {
        Ok(a) => a,
        Err(e) => bail!("local_addr: {e}"),
    };
    let (cli, mut peer) = match sc.kind {
        Kind::Sync => {
            let c = match repe::Client::connect(addr) {
                Ok(c) => c,
                Err(e) => bail!("connect: {e}"),
            };
            if sc.write_timeout {
                if let Err(e) = c.set_write_timeout(Some(sc.wt())) {
                    bail!("set_write_timeout: {e}");
                }
            }
            let s = match accept_one(&l, setup_deadline) {
                Ok(s) => s,
                Err(e) => bail!("{e}"),
            };
            (Cli::Sync(c), Peer::Tcp(s))
        }
        Kind::Async => {
            let c = match sh.handle.block_on(async { tokio::time::timeout(STEP_MAX, repe::AsyncClient::connect(addr)).await }) {
                Ok(Ok(c)) => c,
                Ok(Err(e)) => bail!("connect: {e}"),
                Err(_) => bail!("connect timed out"),
            };
            let s = match accept_one(&l, setup_deadline) {
                Ok(s) => s,
                Err(e) => bail!("{e}"),
            };
            (Cli::Async(c), Peer::Tcp(s))
        }
        Kind::Ws => {
            let (ctx_, crx) = mpsc::channel();
            let url = format!("ws://{addr}/");
            sh.handle.spawn(async move {
                let r = tokio::time::timeout(STEP_MAX, repe::WebSocketClient::connect(&url)).await;
                let _ = ctx_.send(r);
            });
            let s = match accept_one(&l, setup_deadline) {
                Ok(s) => s,
                Err(e) => bail!("{e}"),
            };
            let _ = s.set_read_timeout(Some(STEP_MAX));
            let w = match tungstenite::accept(s) {
                Ok(w) => w,
                Err(e) => bail!("ws handshake failed: {e}"),
            };
            let c = match crx.recv_timeout(STEP_MAX) {
                Ok(Ok(Ok(c))) => c,
                Ok(Ok(Err(e))) => bail!("ws connect: {e}"),
                _ => bail!("ws connect timed out"),
            };
            (Cli::Ws(c), Peer::Ws(Box::new(w)))
        }
    };
    let _ = peer.raw().set_read_timeout(Some(Duration::from_millis(100)));
    let rcvbuf = get_rcvbuf(peer.raw().as_raw_fd());
    out.executed = true;

    // --- WebSocket: a push-only notify subscriber; it records the instant it saw end-of-stream
    let sub: Arc<Mutex<Option<(u64, Instant)>>> = Arc::new(Mutex::new(None));
    let mut subscribed = false;
    if let Cli::Ws(c) = &cli {
        match c.subscribe_notifies() {
            Ok(mut rx) => {
                subscribed = true;
                let slot = sub.clone();
                sh.handle.spawn(async move {
                    let mut seen = 0u64;
                    while let Some(_m) = rx.recv().await {
                        seen += 1;
                    }
                    let at = Instant::now();
                    *slot.lock().unwrap_or_else(|e| e.into_inner()) = Some((seen, at));
                });
            }
            Err(_) => out.inconclusive.push(format!("{ctx}: subscribe_notifies refused on a fresh client")),
        }
    }

    // --- calls in flight: written by the client, read and parsed by the peer, never answered
    let mut book = Book::new();
    let to = |on: bool| if on { Some(Duration::from_secs(40)) } else { None };
    let local = sc.local();
    let big_len = if sc.big_len == 0 { sh.big } else { sc.big_len.min(sh.big) };
    // --- local-write-failure class, same-thread variant: a caller thread that first completes an answered call
    let mut worker: Option<mpsc::Sender<Job>> = None;
    if local && sc.same_thread {
        if let Cli::Sync(c) = &cli {
            worker = spawn_worker(sh, c, &book.tx);
        }
        if worker.is_none() {
            bail!("worker thread could not be started");
        }
        let pre = book.go_on(worker.as_ref(), sh, &cli, Role::Pre, rng.usize_below(40), None);
        let r = match peer.read_reqs(1, setup_deadline) {
            Ok(mut r) => r.remove(0),
            Err(e) => bail!("{e}"),
        };
        if let Err(e) = peer.write_raw(&r.response()) {
            bail!("{e}");
        }
        if !book.wait_one(pre, setup_deadline) {
            bail!("the answered warm-up call did not return");
        }
        match &book.v[pre].res {
            Some((CallRes::Ok(v), _)) if v["t"].as_u64() == Some(book.v[pre].token) => out.count("local_write_failure_warmup_calls_answered", 1),
            other => bail!("the answered warm-up call returned {other:?}"),
        }
    }
    for i in 0..sc.n_inflight {
        book.go(sh, &cli, Role::InFlight, rng.usize_below(40), to(sc.per_call_timeouts && i % 2 == 0));
    }
    let reqs = match peer.read_reqs(sc.n_inflight, setup_deadline) {
        Ok(r) => r,
        Err(e) => bail!("{e}"),
    };
    let mut pushed = 0u64;
    if subscribed && sc.push_notify {
        // a pushed notify before anything goes wrong: the subscription is live
        let mut r = Req::fabricated(0);
        r.header.notify = 1;
        let mut f = r.response();
        f[11] = 1;
        if peer.write_raw(&ws_binary_frame(&f).0).is_ok() {
            pushed = 1;
        }
    }

    // --- the peer reads nothing any more; ANOTHER task starts a send that cannot complete
    let sender = book.go_on(worker.as_ref(), sh, &cli, Role::Sender, big_len, to(sc.sender_timeout));
    let sip = peer.sip_big_frame_start(big_len, setup_deadline);
    for i in 0..sc.n_queued {
        book.go(sh, &cli, Role::Queued, rng.usize_below(24), to(sc.per_call_timeouts && i % 2 == 1));
    }
    // let the queued callers run up to the writer they cannot get (coverage only)
    std::thread::sleep(Duration::from_millis(20 + rng.below(30)));
    book.absorb();
    let kernel_cap = sh.wmem_max.map(|w| w + 2 * rcvbuf.unwrap_or(PEER_RCVBUF) + (64 << 10));
    // local-write-failure class: the fault is the sender's own error. The peer stays silent; the instant of the
    // fault is the instant the failing caller returned (taken by that caller). Forced = it returned an I/O
    // error while the peer was silent and holding the socket.
    let mut t_local_fault: Option<Instant> = None;
    let why_not = if local {
        let _ = book.wait_one(sender, Instant::now() + sc.wt() + Duration::from_secs(3));
        match &book.v[sender].res {
            _ if sip.is_err() => Some(format!("the peer did not see the start of the big frame: {:?}", sip.as_ref().err())),
            _ if !rcv_set => Some("SO_RCVBUF could not be set on the peer".into()),
            Some((CallRes::Err(e), at)) if e.starts_with("Io:") => {
                t_local_fault = Some(*at);
                None
            }
            Some((r, at)) => {
                t_local_fault = Some(*at);
                Some(format!("the big sender returned something else than an I/O error: {}", trunc(&format!("{r:?}"), 100)))
            }
            None => Some(format!("the {big_len}-byte send had not failed {} ms after it began (the kernel swallowed it: tcp_wmem max {:?}, peer rcvbuf {:?})", ms(sc.wt()) + 3000, sh.wmem_max, rcvbuf)),
        }
    } else if let Err(e) = &sip {
        Some(format!("the peer did not see the start of the big frame: {e}"))
    } else if book.v[sender].res.is_some() {
        Some(format!("the big sender had already returned: {:?}", book.v[sender].res.as_ref().map(|r| &r.0)))
    } else if !rcv_set {
        Some("SO_RCVBUF could not be set on the peer".into())
    } else if kernel_cap.map(|c| sh.big <= c).unwrap_or(true) {
        Some(format!("the body ({} bytes) does not provably exceed the kernel's buffering (tcp_wmem max {:?}, peer rcvbuf {:?})", big_len, sh.wmem_max, rcvbuf))
    } else {
        None
    };
    out.forced = why_not.is_none();
    out.not_forced_why = why_not;
    if sip.is_ok() {
        out.count("stalled_big_frame_start_seen_by_peer", 1);
    }

    // --- the fault, written by a peer that does not read
    let victim = reqs.first().cloned().unwrap_or_else(|| Req::fabricated(sc.n_inflight as u64 + 7));
    let resp = victim.response();
    let ws = sc.kind == Kind::Ws;
    let wire: Option<Vec<u8>> = match sc.fault {
        SFault::Bad(b) => {
            let f = bad_frame(b, &resp);
            Some(if ws { ws_binary_frame(&f).0 } else { f })
        }
        SFault::WsText => Some(ws_text_frame(b"{\"not\":\"binary\"}")),
        SFault::WsCloseFrame => Some(vec![0x88, 0x00]),
        SFault::WsTrunc(at) => Some(ws_binary_frame(&resp[..cut_offset(at, &resp)]).0),
        SFault::WsTrailing => {
            let mut f = resp.clone();
            f.push(0);
            Some(ws_binary_frame(&f).0)
        }
        SFault::WsEmpty => Some(ws_binary_frame(&[]).0),
        SFault::PeerClose | SFault::PeerRst | SFault::LocalWriteTimeout => None,
    };
    let lingers = sc.fault.lingers();
    let mut peer = Some(peer);
    match &wire {
        Some(w) => {
            // sometimes in two writes
            let p = peer.as_mut().unwrap();
            let r = if w.len() > 2 && rng.coin() {
                let k = 1 + rng.usize_below(w.len() - 1);
                p.write_raw(&w[..k]).and_then(|_| p.write_raw(&w[k..]))
            } else {
                p.write_raw(w)
            };
            if let Err(e) = r {
                bail!("{e}");
            }
        }
        None if local => {}
        None => {
            let p = peer.take().unwrap();
            if sc.fault == SFault::PeerRst {
                let mut p = p;
                set_linger0(p.raw());
                drop(p);
            } else {
                drop(p);
            }
        }
    }
    let t_fault = t_local_fault.unwrap_or_else(Instant::now);
    out.count(if local { "local_write_failure_scenarios" } else { "stalled_faults_injected" }, 1);
    if local && out.forced {
        out.count("local_write_failures_forced", 1);
    }

    // --- calls issued after the fault. "Later" means: after the client's reader has seen the fault. The only logical evidence of
    // that is a call in flight having ended (a caller that reaches the client before the reader did is, for the client,
    // indistinguishable from one queued behind the stalled sender and is judged as such).
    // (local write failure: the failing caller has returned its error, the client itself declared the connection unusable)
    if !local {
        std::thread::sleep(Duration::from_millis(30 + rng.below(40)));
    }
    let seen_by = Instant::now() + Duration::from_secs(if local { 0 } else { 3 });
    let mut reader_saw_fault = local && out.forced;
    while Instant::now() < seen_by {
        book.absorb();
        if book.v.iter().any(|c| c.role == Role::InFlight && c.res.is_some()) {
            reader_saw_fault = true;
            break;
        }
        if !book.v.iter().any(|c| c.role == Role::InFlight) {
            break;
        }
        std::thread::sleep(Duration::from_millis(5));
    }
    let later_role = if reader_saw_fault { Role::Later } else { Role::Queued };
    out.count(if reader_saw_fault { "stalled_later_calls_issued_after_an_inflight_call_had_failed" } else { "stalled_later_calls_issued_without_evidence_judged_as_queued" }, 2);
    // (same-thread variant: the first later call comes from the thread whose write just failed)
    book.go_on(worker.as_ref(), sh, &cli, later_role, 3, None);
    book.go(sh, &cli, later_role, 3, Some(Duration::from_secs(40)));

    // --- the peer lingers: neither reads nor closes. Then it goes away.
    let t_release = if lingers {
        // (a local write failure that did not happen leaves nothing to judge: no linger)
        let until = if local && !out.forced { t_fault } else { t_fault + LINGER };
        while Instant::now() < until {
            std::thread::sleep(Duration::from_millis(20).min(until.saturating_duration_since(Instant::now())));
        }
        let t = Instant::now();
        if let Some(mut p) = peer.take() {
            if sc.release_resume {
                // the peer wakes up and reads on: it meets end-of-stream (or an error) behind the partial frame and closes
                let until = t + Duration::from_secs(5);
                let mut tmp = vec![0u8; 256 << 10];
                let mut drained = 0u64;
                let mut last_progress = Instant::now();
                loop {
                    match p.raw().read(&mut tmp) {
                        Ok(0) => break,
                        Ok(k) => {
                            drained += k as u64;
                            last_progress = Instant::now();
                        }
                        // nothing more and no end-of-stream either: the peer gives up on the partial frame and closes
                        Err(e) if would_block(&e) && last_progress.elapsed() < Duration::from_millis(500) => continue,
                        Err(_) => break,
                    }
                    if Instant::now() >= until {
                        break;
                    }
                }
                out.count("stalled_peer_resumed_reading_bytes", drained);
            } else if sc.release_rst {
                set_linger0(p.raw());
            }
            drop(p);
        }
        out.count("stalled_peer_lingered_then_released", 1);
        t
    } else {
        t_fault
    };

    // --- everything ends within the window after the peer is gone
    let all_back = book.wait_all(t_release + WINDOW);
    let sub_deadline = t_release + WINDOW;
    let mut sub_res = *sub.lock().unwrap_or_else(|e| e.into_inner());
    while subscribed && sub_res.is_none() && Instant::now() < sub_deadline {
        std::thread::sleep(Duration::from_millis(20));
        sub_res = *sub.lock().unwrap_or_else(|e| e.into_inner());
    }
    // one more call once the dust has settled, then the pending table
    let mut residue: Option<usize> = None;
    if all_back {
        book.go(sh, &cli, Role::PostRelease, 2, if rng.coin() { None } else { Some(Duration::from_secs(40)) });
        if book.wait_all(Instant::now() + WINDOW) {
            residue = Some(cli.pending_len());
        }
    }

    // --- classification
    let detail_tail = |what: &str| {
        format!(
            "{what}; scenario: {} with {} call(s) in flight, a stalled {}-byte send by another {} (peer stopped reading; start of the frame seen by the peer: {}), {} call(s) queued behind it, {} {}",
            sc.kind.name(),
            sc.n_inflight,
            big_len,
            if local && sc.same_thread { "thread (one that had completed an answered call before)" } else { "task" },
            sip.is_ok(),
            sc.n_queued,
            if local {
                format!("NO fault from the peer: the send was given up by the client's own write timeout ({} ms) and its caller got {}; the silent peer", sc.wt_ms, book.v[sender].res.as_ref().map(|r| trunc(&format!("{:?}", r.0), 90)).unwrap_or_default())
            } else {
                format!("fault `{}` written by the peer", sc.fault.name())
            },
            if lingers { format!("which then kept the socket open without reading for {} ms and released it by {}", ms(t_release - t_fault), sc.release_name()) } else { "(the peer is gone)".to_string() },
        )
    };
    let forced = out.forced;
    // (class, suffix, started, ended)
    let judge_timing = |out: &mut Out, class: &'static str, suffix: &str, who: String, started: Instant, ended: Option<Instant>| {
        let since = started.max(t_fault);
        match ended {
            None => {
                out.count(&format!("stalled_{class}_never_ended"), 1);
                out.timing.push((sc.sig(suffix), detail_tail(&format!("{who} had not ended {} s after the peer had gone away", WINDOW.as_secs()))));
            }
            Some(at) if lingers && at > t_release => {
                out.count(&format!("stalled_{class}_ended_only_after_release"), 1);
                if forced {
                    out.timing.push((
                        sc.sig(suffix),
                        detail_tail(&format!(
                            "{who} was still parked when the peer released the socket {} ms after the fault and ended only {} ms after the release",
                            ms(t_release - t_fault),
                            ms(at - t_release)
                        )),
                    ));
                }
            }
            Some(at) if lingers && at.saturating_duration_since(since) > BOUND => {
                out.count(&format!("stalled_{class}_ended_late_before_release"), 1);
                if forced {
                    out.timing.push((sc.sig(suffix), detail_tail(&format!("{who} ended only {} ms after the fault (bound {} ms; the peer released after {} ms)", ms(at - since), ms(BOUND), ms(t_release - t_fault)))));
                }
            }
            Some(at) => {
                let d = at.saturating_duration_since(since);
                if !lingers && d > BOUND {
                    out.count(&format!("stalled_{class}_ended_late_after_peer_close"), 1);
                }
                out.count(&format!("stalled_{class}_ended_promptly"), 1);
                out.prompt_ms.push((class, ms(d)));
            }
        }
    };
    if subscribed {
        let who = "the subscribe_notifies receiver (parked on recv())".to_string();
        judge_timing(&mut out, "subscriber", "subscriber-not-ended", who, t_fault, sub_res.map(|r| r.1));
        if let Some((seen, _)) = sub_res {
            out.count("stalled_subscriber_saw_end_of_stream", 1);
            out.count("stalled_subscriber_notifies_seen", seen);
            if seen != pushed {
                out.hard.push((sc.sig("subscriber-notify-count"), format!("the subscriber saw {seen} notifies, the peer pushed {pushed}")));
            }
        }
    }
    for (i, c) in book.v.iter().enumerate() {
        let who = format!("call#{i} ({:?}, token {}, timeout {:?})", c.role, c.token, c.timeout);
        let ended = c.res.as_ref().map(|r| r.1);
        if c.role == Role::Pre {
            continue; // judged at setup
        }
        match c.role {
            Role::Pre => {}
            Role::InFlight => judge_timing(&mut out, "inflight_call", "call-hung", who.clone(), t_fault, ended),
            Role::Queued => judge_timing(&mut out, "queued_call", "queued-call-hung", who.clone(), t_fault, ended),
            Role::Later => judge_timing(&mut out, "later_call", "later-call-hung", who.clone(), c.launched, ended),
            Role::PostRelease => {
                if ended.is_none() {
                    out.timing.push((sc.sig("post-release-call-hung"), detail_tail(&format!("{who}, issued after everything else had ended, did not return within {} s", WINDOW.as_secs()))));
                } else {
                    out.count("stalled_post_release_calls_returned", 1);
                }
            }
            Role::Sender => match (ended, &c.res) {
                (None, _) => {
                    out.count("stalled_sender_never_ended", 1);
                    out.timing.push((sc.sig("stalled-sender-hung"), detail_tail(&format!("the stalled sender {who} had not returned {} s after the peer had gone away", WINDOW.as_secs()))));
                }
                (Some(at), _) => {
                    if at <= t_release && lingers {
                        out.count("stalled_sender_ended_before_release", 1);
                        out.prompt_ms.push(("sender_before_release", ms(at.saturating_duration_since(t_fault))));
                    } else {
                        out.count("stalled_sender_ended_after_peer_gone", 1);
                    }
                }
            },
        }
        match &c.res {
            Some((CallRes::Ok(v), _)) => {
                let suffix = match c.role {
                    Role::Sender => "stalled-sender-succeeded",
                    Role::Later | Role::PostRelease => "later-call-succeeded",
                    _ => "phantom-response",
                };
                out.hard.push((sc.sig(suffix), format!("{who} returned Ok({}) although the peer never sent a response", trunc(&v.to_string(), 80))));
            }
            Some((CallRes::Err(e), _)) => {
                out.count("stalled_calls_returned_err", 1);
                out.err_kinds.push((format!("{}|{}|{:?}", sc.kind.name(), sc.class(), c.role), e.split(": ").next().unwrap_or("").to_string()));
            }
            Some((CallRes::Panic(p), _)) => {
                if p.starts_with("harness:") {
                    out.inconclusive.push(format!("{ctx}: {p}"));
                } else {
                    out.hard.push((format!("C06:panic:{}:{}:{}:{}", sc.kind.name(), sc.class(), sc.fault.name(), panic_site(p)), format!("{who} panicked inside the client: {p}")));
                }
            }
            None => {}
        }
    }
    if let Some(got) = residue {
        out.count("stalled_pending_len_checks", 1);
        if got != 0 {
            out.hard.push((sc.sig("residue"), format!("verif_pending_len() = {got}, expected 0 once every call had returned")));
        }
    }
    if pushed > 0 {
        out.count("stalled_ws_notifies_pushed_before_fault", pushed);
    }
    out.count("stalled_calls_in_flight_at_fault", sc.n_inflight as u64);
    out.count("stalled_calls_queued_behind_sender_at_fault", sc.n_queued as u64);
    let res: Vec<String> = book
        .v
        .iter()
        .map(|c| match &c.res {
            Some((r, at)) => format!("{:?} token {}: {} @ {} ms after the fault", c.role, c.token, trunc(&format!("{r:?}"), 90), ms(at.saturating_duration_since(t_fault))),
            None => format!("{:?} token {}: never returned", c.role, c.token),
        })
        .collect();
    out.sample = Some(json!({"stalled_writer": sc.replay(sh.seed), "forced": out.forced, "not_forced_why": out.not_forced_why, "peer_rcvbuf": rcvbuf, "release_ms_after_fault": ms(t_release - t_fault),
        "subscriber_eos_ms_after_fault": sub_res.map(|r| ms(r.1.saturating_duration_since(t_fault))), "results": res}));
    drop(cli);
    out
}

// ------------------------------------------------------------------ the batch

fn read_wmem_max() -> Option<usize> {
    let s = std::fs::read_to_string("/proc/sys/net/ipv4/tcp_wmem").ok()?;
    s.split_whitespace().nth(2)?.parse().ok()
}

pub fn run_stalled(env: &mut Env, rep: &mut Report, st: &mut Stats, args: &Args) {
    let rounds = args.budget(1, 2);
    let wmem_max = read_wmem_max();
    // twice what the kernel can hold on the sending side, at least 8 MiB; below the WebSocket client's
    // default outbound guard (16 MiB)
    let big = wmem_max.map(|w| (2 * w).clamp(8 << 20, 15 << 20)).unwrap_or(8 << 20);
    let sh = Shared { handle: env.rt_cli.handle().clone(), tokens: AtomicU64::new(9_000_000), big, wmem_max, seed: args.seed };
    let _ = big_pad(big);
    rep.set("stalled_writer_params", json!({"big_body_bytes": big, "tcp_wmem_max": wmem_max, "peer_so_rcvbuf_requested": PEER_RCVBUF, "linger_ms": ms(LINGER), "bound_ms": ms(BOUND), "blocking_client_write_timeout_ms": ms(WRITE_TIMEOUT)}));
    let mut table: BTreeMap<String, BTreeMap<String, String>> = BTreeMap::new();
    let mut prompt_max: BTreeMap<&'static str, u64> = BTreeMap::new();
    let mut forced_by_kind: BTreeMap<String, u64> = BTreeMap::new();
    for round in 0..rounds {
        if env.hangs_left <= 0 {
            rep.count("stalled_rounds_not_run", 1);
            continue;
        }
        let mut rng = Rng::new(args.seed ^ 0x57A1_1ED0 ^ (round << 40));
        let mut scens: Vec<Scen> = vec![];
        let mut case = round * 1000;
        for kind in KINDS {
            for fault in sfaults_for(kind) {
                let wts: &[bool] = if kind == Kind::Sync { &[false, true] } else { &[false] };
                for &write_timeout in wts {
                    case += 1;
                    scens.push(Scen {
                        kind,
                        fault,
                        write_timeout,
                        n_inflight: 1 + rng.usize_below(3),
                        n_queued: rng.usize_below(3),
                        per_call_timeouts: rng.chance(1, 3),
                        sender_timeout: rng.coin(),
                        push_notify: rng.coin(),
                        release_rst: rng.coin(),
                        case,
                        wt_ms: ms(WRITE_TIMEOUT),
                        big_len: 0,
                        same_thread: false,
                        release_resume: false,
                    });
                }
            }
        }
        // the blocking client's own write failure as the fault (own random stream: the table above keeps its choices)
        {
            let mut lr = Rng::new(args.seed ^ 0x10CA_1F41 ^ (round << 40));
            let above = wmem_max.map(|w| w + 2 * PEER_RCVBUF + (256 << 10)).unwrap_or(big);
            // (in flight, body bytes): just above what the kernel can hold .. well above; the last one can be swallowed
            let mut rows: Vec<(usize, usize)> = vec![(1, big), (2, above.min(big)), (3, (above + big) / 2), (5, big), (8, above.min(big)), (16, big), (1 + lr.usize_below(16), big), (2, wmem_max.map(|w| w / 2).unwrap_or(big / 4))];
            if round > 0 {
                for _ in 0..4 {
                    rows.push((1 + lr.usize_below(16), above.min(big) + lr.usize_below(big - above.min(big) + 1)));
                }
            }
            for (i, (n_inflight, big_len)) in rows.into_iter().enumerate() {
                case += 1;
                let rel = (i as u64 + lr.below(3)) % 3;
                scens.push(Scen {
                    kind: Kind::Sync,
                    fault: SFault::LocalWriteTimeout,
                    write_timeout: true,
                    n_inflight,
                    n_queued: lr.usize_below(3),
                    // mostly none: a call with its own timeout is not the one that can hang forever
                    per_call_timeouts: lr.chance(1, 4),
                    sender_timeout: lr.coin(),
                    push_notify: false,
                    release_rst: rel == 1,
                    case,
                    wt_ms: 100 + lr.below(301),
                    big_len,
                    same_thread: i % 2 == 1,
                    release_resume: rel == 2,
                });
            }
        }
        env.hb_reset();
        let _ = take_last_panic();
        let t0 = Instant::now();
        let mut outs: Vec<Out> = vec![];
        std::thread::scope(|s| {
            let mut hs = vec![];
            for sc in &scens {
                let mut r = rng.fork(0x57A1_0000 + sc.case);
                let shr = &sh;
                hs.push(s.spawn(move || {
                    match catching(|| run_one(shr, sc, &mut r)) {
                        Ok(o) => o,
                        Err(p) => Out { sc: Some(sc.clone()), inconclusive: vec![format!("harness panic in a stalled-writer scenario: {p}")], ..Default::default() },
                    }
                }));
            }
            for h in hs {
                if let Ok(o) = h.join() {
                    outs.push(o);
                }
            }
        });
        let gap = env.hb.max_gap_ms();
        let wall = t0.elapsed();
        rep.set(&format!("stalled_batch_wall_ms_round{round}"), json!(ms(wall)));
        rep.set(&format!("stalled_batch_heartbeat_max_gap_ms_round{round}"), json!(gap));
        let mut discarded = 0u64;
        let mut sampled = 0;
        // (group = client|class|what, sig, detail, replay): the report keeps a limited number of witnesses, so
        // one witness of every group is recorded before the second of any
        let mut findings: Vec<(String, String, String, Value)> = vec![];
        for o in outs {
            let Some(sc) = o.sc.clone() else { continue };
            let replay = sc.replay(args.seed);
            for w in &o.inconclusive {
                rep.inconclusive(w.clone());
            }
            if !o.executed {
                rep.count("stalled_scenarios_not_set_up", 1);
                continue;
            }
            rep.eval();
            rep.distinct(&(sc.class(), sc.kind, sc.fault, sc.write_timeout, sc.n_inflight, sc.n_queued, sc.same_thread, sc.release_name(), sc.big_len));
            rep.count("stalled_scenarios_run", 1);
            st.bump(format!("stalled|{}|{}|{}", sc.kind.name(), sc.class(), if o.forced { "writer-stalled" } else { "not-forced" }));
            if o.forced {
                rep.count("stalled_writer_forced", 1);
                *forced_by_kind.entry(format!("{}|{}", sc.kind.name(), sc.class())).or_insert(0) += 1;
            } else {
                rep.count("stalled_writer_not_forced", 1);
            }
            table.entry(format!("{}|{}", sc.kind.name(), sc.class())).or_default().insert(if sc.local() { format!("write-timeout {} ms, {} in flight, {} body bytes, big request from {}, release {}", sc.wt_ms, sc.n_inflight, sc.big_len, if sc.same_thread { "a thread with a completed call" } else { "a fresh thread" }, sc.release_name()) } else { sc.fault.name() }, if o.forced { "writer-stalled".into() } else { format!("not forced: {}", o.not_forced_why.clone().unwrap_or_default()) });
            for (k, n) in &o.counts {
                rep.count(k, *n);
            }
            for (k, e) in &o.err_kinds {
                st.err_kinds.entry(k.clone()).or_default().insert(e.clone());
            }
            for (c, m) in &o.prompt_ms {
                let e = prompt_max.entry(c).or_insert(0);
                *e = (*e).max(*m);
            }
            for (sig, detail) in &o.hard {
                findings.push((format!("{}|{}|{}", sc.kind.name(), sc.class(), sig.rsplit(':').next().unwrap_or("")), sig.clone(), detail.clone(), replay.clone()));
            }
            for (sig, detail) in &o.timing {
                if gap > 1000 {
                    discarded += 1;
                } else {
                    findings.push((
                        format!("{}|{}|{}", sc.kind.name(), sc.class(), sig.rsplit(':').next().unwrap_or("")),
                        sig.clone(),
                        format!("{detail}; heartbeat max gap during the batch {gap} ms"),
                        replay.clone(),
                    ));
                }
            }
            if let Some(s) = o.sample {
                let interesting = !o.timing.is_empty() || !o.hard.is_empty();
                if sampled < 3 || (interesting && sampled < 8) {
                    rep.sample(s);
                    sampled += 1;
                }
            }
        }
        let mut rank: BTreeMap<String, usize> = BTreeMap::new();
        let mut ranked: Vec<(usize, usize)> = findings
            .iter()
            .enumerate()
            .map(|(i, f)| {
                let r = rank.entry(f.0.clone()).or_insert(0);
                *r += 1;
                (*r, i)
            })
            .collect();
        ranked.sort();
        for (g, n) in &rank {
            rep.count(&format!("stalled_findings|{g}"), *n as u64);
        }
        for (_, i) in ranked {
            let f = &findings[i];
            rep.violation(f.1.clone(), f.2.clone(), f.3.clone());
        }
        if discarded > 0 {
            rep.count("stalled_timing_findings_discarded_machine_stall", discarded);
            rep.inconclusive(format!("stalled-writer batch: {discarded} late/hung observation(s) discarded, the heartbeat saw a {gap} ms scheduling stall"));
        }
        if let Some(p) = take_last_panic() {
            if p.contains("c06") || p.contains("harness/src") {
                rep.inconclusive(format!("harness panic during the stalled-writer batch: {p}"));
            } else {
                rep.violation(format!("C06:panic:stalled-writer:{}", panic_site(&p)), format!("a thread/task panicked during the stalled-writer batch: {p}"), json!({"scenario": "stalled-writer", "seed": args.seed, "round": round}));
            }
        }
    }
    rep.set("stalled_writer_table", json!(table));
    rep.set("stalled_prompt_latency_max_ms", json!(prompt_max));
    // the class must really have been produced for every client, otherwise it was not exercised
    if rep.violations.is_empty() && env.hangs_left > 0 {
        for k in ["client|stalled-writer", "client|stalled-writer+write-timeout", "client|local-write-failure", "async_client|stalled-writer", "ws_client|stalled-writer"] {
            if forced_by_kind.get(k).copied().unwrap_or(0) == 0 {
                rep.inconclusive(format!("a fault under a stalled writer was never forced for {k}"));
            }
        }
    }
}
