//! C16 hammer family — slot accounting under exits that OVERLAP admissions.
//!
//! The other families park handlers on gates, so every exit is separated in time from every admission.
//! This one lets them interleave freely on ONE connection and then asks for the whole capacity back:
//!
//!  * HAMMER: thousands of SHORT off-reader requests (the handler has no gate: it counts itself in the
//!    RAII gauge and returns / returns an error / panics at once) are kept in flight by a refill rule
//!    `(high, low)`: whenever no more than `low` requests are outstanding the pipeline is topped up to
//!    `high` in one flush.  `low = high-1` is `high` concurrent callers that each wait for their reply
//!    (every reply triggers the next request), `low = 0` is deep pipelining (bursts of `high` in one
//!    flush), values in between are a sawtooth.  The server's reader therefore admits request k+1 while
//!    the blocking-pool threads of requests ≤ k are leaving their handlers and giving their slots back.
//!    Oracle: every request gets exactly one reply with its own id, which is either its scripted result
//!    (token / application error / ec 9) or ec 8; a request answered with ec 8 never runs a handler; no
//!    handler ever sees more than `cap` running.  Whether an ec 8 was *justified* is judged on the reader
//!    itself: the on_error saturation hook reads the RAII gauge at the moment of rejection — `cap`
//!    handlers running = justified; fewer = undecidable (a handler that already returned still holds its
//!    slot until its reply is queued), so it is counted, never flagged.
//!  * IDLE POINT: all hammer replies received, every started handler exited, gauge 0, an inline ping
//!    answered.
//!  * PROBE: `cap` parked requests must all be admitted (handler Started while its gate is closed).  A
//!    rejection while fewer than `cap` handlers are parked is retried (counted) — a slot is legitimately
//!    released a moment after the reply that made the connection look idle — but a request that is still
//!    rejected after ≥ 50 consecutive rejections over a multi-second window, on an idle connection whose
//!    gauge reads `admitted < cap`, is a lost slot: `C16:capacity-lost-after-hammer:<cap>:<admitted>`
//!    (inconclusive when the heartbeat saw a stall).  With `cap` parked the gauge reads `cap`, one more
//!    request must be rejected (`C16:capacity-exceeded-after-hammer:<cap>:<cap+1>` if its handler runs),
//!    an inline ping is answered, and the parked handlers answer as scripted once released.
//!
//! Several hammer+probe rounds run per connection (a loss is caught at the next idle point), caps
//! 1, 2, 4, 8 × server runtime flavour (multi-thread with two workers as in the other families, and a
//! current-thread runtime on its own OS thread), all groups concurrently.

use super::*;

#[derive(Clone, Copy, Debug, Hash, PartialEq, Eq)]
pub(super) enum Mix {
    Ret,
    Err,
    Panic,
    Mixed,
}
impl Mix {
    fn name(self) -> &'static str {
        match self {
            Mix::Ret => "return-only",
            Mix::Err => "error-only",
            Mix::Panic => "panic-only",
            Mix::Mixed => "mixed",
        }
    }
    fn from(s: &str) -> Mix {
        match s {
            "return-only" => Mix::Ret,
            "error-only" => Mix::Err,
            "panic-only" => Mix::Panic,
            _ => Mix::Mixed,
        }
    }
    fn pick(self, r: &mut Rng) -> Out {
        match self {
            Mix::Ret => Out::Ret,
            Mix::Err => Out::Err,
            Mix::Panic => Out::Panic,
            // returns dominate (the cheapest exit = the tightest overlap), errors and panics keep every exit path in play
            Mix::Mixed => match r.below(8) {
                0 | 1 => Out::Err,
                2 => Out::Panic,
                _ => Out::Ret,
            },
        }
    }
}

#[derive(Clone, Debug, Hash)]
pub(super) struct Round {
    requests: usize,
    /// top the pipeline up to `high` outstanding requests ...
    high: usize,
    /// ... whenever no more than `low` are outstanding
    low: usize,
    mix: Mix,
}

#[derive(Clone, Debug, Hash)]
pub(super) struct HammerCase {
    pub cap: usize,
    /// server runtime flavour: false = multi-thread (2 workers), true = current-thread on its own OS thread
    pub current_thread: bool,
    pub route: usize,
    pub mw: u8,
    pub seed: u64,
    /// wall budget of the hammering itself (all rounds of this connection); a round that hits it stops sending
    pub hammer_secs: u64,
    pub rounds: Vec<Round>,
}

pub(super) fn flavour(ct: bool) -> &'static str {
    if ct { "current-thread" } else { "multi-thread" }
}

pub(super) fn case_json(c: &HammerCase) -> Value {
    json!({
        "family": "hammer", "cap": c.cap, "server_runtime": flavour(c.current_thread), "route": ROUTES[c.route], "mw": c.mw,
        "seed": c.seed.to_string(), "hammer_secs": c.hammer_secs,
        "rounds": c.rounds.iter().map(|r| json!({"requests": r.requests, "high": r.high, "low": r.low, "mix": r.mix.name()})).collect::<Vec<_>>(),
    })
}

pub(super) fn case_from_json(v: &Value) -> Option<HammerCase> {
    if v["family"].as_str() != Some("hammer") {
        return None;
    }
    Some(HammerCase {
        cap: v["cap"].as_u64()? as usize,
        current_thread: v["server_runtime"].as_str() == Some("current-thread"),
        route: ROUTES.iter().position(|r| Some(*r) == v["route"].as_str()).unwrap_or(0),
        mw: v["mw"].as_u64().unwrap_or(0) as u8,
        seed: v["seed"].as_str().and_then(|x| x.parse().ok()).unwrap_or(1),
        hammer_secs: v["hammer_secs"].as_u64().unwrap_or(8),
        rounds: v["rounds"]
            .as_array()?
            .iter()
            .map(|r| Round {
                requests: r["requests"].as_u64().unwrap_or(1000) as usize,
                high: (r["high"].as_u64().unwrap_or(2) as usize).max(1),
                low: r["low"].as_u64().unwrap_or(0) as usize,
                mix: Mix::from(r["mix"].as_str().unwrap_or("mixed")),
            })
            .collect(),
    })
}

pub(super) fn plan(args: &Args) -> Vec<HammerCase> {
    let mut rng = Rng::new(args.seed ^ 0xC16_4A33E2);
    let variants = args.budget(1, 2).max(1);
    let rounds = args.budget(4, 8).max(1) as usize;
    let per_round = args.budget(12_000, 20_000).max(40) as usize;
    let mut cases = vec![];
    for _ in 0..variants {
        for &cap in &[1usize, 2, 4, 8] {
            for ct in [false, true] {
                let rounds = (0..rounds)
                    .map(|k| {
                        // round 0: 2×cap concurrent callers, each waiting for its own reply, mixed exits
                        // (the reader is kept busy by the callers that are rejected and come straight back,
                        // so an admission follows every freed slot at once while other handlers are leaving)
                        let burst = k > 0 && rng.chance(1, 4);
                        let (high, low, requests) = if burst {
                            // deep pipelining: `high` requests in ONE flush, the next burst when all replies are in
                            // (fewer requests: every burst costs the peer's delayed-ACK interval)
                            let high = [64usize, 128, 256][rng.usize_below(3)];
                            (high, 0, (per_round / 4).clamp(high, 24 * high))
                        } else {
                            // `high` concurrent callers
                            let high = if k == 0 {
                                2 * cap
                            } else {
                                match rng.below(8) {
                                    0 => cap,
                                    1 => cap + 1,
                                    2 | 3 => 2 * cap,
                                    4 => 3 * cap,
                                    5 => 4 * cap,
                                    6 => 8 * cap,
                                    _ => 32,
                                }
                            }
                            .max(2);
                            (high, high - 1, per_round)
                        };
                        let mix = if k == 0 {
                            Mix::Mixed
                        } else {
                            match rng.below(9) {
                                0 => Mix::Ret,
                                1 => Mix::Err,
                                2 => Mix::Panic,
                                _ => Mix::Mixed,
                            }
                        };
                        Round { requests, high, low, mix }
                    })
                    .collect();
                cases.push(HammerCase {
                    cap,
                    current_thread: ct,
                    route: rng.usize_below(ROUTES.len()),
                    mw: rng.below(3) as u8,
                    seed: rng.next_u64(),
                    hammer_secs: if args.thorough() { 40 } else { 8 },
                    rounds,
                });
            }
        }
    }
    cases
}

impl Drv {
    /// One hammer round. true = every request sent got exactly one acceptable reply and the connection is idle.
    async fn hammer_round(&mut self, r: &Round, rng: &mut Rng, stop_sending_at: Instant) -> bool {
        self.sh.hammer_phase.store(0, Ordering::SeqCst);
        let before = (self.st.return_replies, self.st.error_replies, self.st.panic_replies, self.st.rejects_seen);
        let t0 = Instant::now();
        let mut dl = t0 + WINDOW;
        let mut sent = 0usize;
        let mut cut = false;
        let (high, low) = (r.high.max(1), r.low.min(r.high.max(1) - 1));
        loop {
            if !cut && sent < r.requests && Instant::now() >= stop_sending_at {
                cut = true;
                self.st.hammer_rounds_cut_by_time += 1;
            }
            let more = !cut && sent < r.requests;
            if more && self.pending.len() <= low {
                let mut frames = vec![];
                while self.pending.len() < high && sent < r.requests {
                    let (id, tok, out) = (self.new_id(), self.new_tok(), r.mix.pick(rng));
                    // no gate is registered for the token: the handler leaves at once
                    self.pending.insert(id, Exp::Call { tok, out, released: true, may_reject: true });
                    let body = self.park_body(tok, out);
                    frames.push(req_frame(id, false, "/park", &body));
                    sent += 1;
                }
                self.st.hammer_max_in_flight = self.st.hammer_max_in_flight.max(self.pending.len() as u64);
                self.send_all(frames).await;
                // the no-reply window restarts with every batch written
                dl = Instant::now() + WINDOW;
                continue;
            }
            if self.pending.is_empty() && !more {
                break;
            }
            if !self.viols.is_empty() || !self.pump(dl).await {
                break;
            }
        }
        self.st.hammer_rounds += 1;
        self.st.hammer_ms += t0.elapsed().as_millis() as u64;
        if std::env::var("RV_C16_HAMMER_TRACE").is_ok() {
            eprintln!("hammer cap {} conn {} round high {} low {} mix {} sent {} in {} ms", self.cap, self.conn, r.high, r.low, r.mix.name(), sent, t0.elapsed().as_millis());
        }
        self.st.hammer_requests += sent as u64;
        self.st.hammer_replies_return += self.st.return_replies - before.0;
        self.st.hammer_replies_error += self.st.error_replies - before.1;
        self.st.hammer_replies_panic += self.st.panic_replies - before.2;
        self.st.hammer_replies_ec8 += self.st.rejects_seen - before.3;
        if !self.viols.is_empty() {
            return false;
        }
        if let Some(why) = self.closed.clone() {
            self.viol("C16:connection-lost:hammer", format!("connection ended ({why}) while {} short off-reader requests were in flight ({sent} sent in this round, refill rule high {} low {}); cap {}", self.pending.len(), r.high, r.low, self.cap));
            return false;
        }
        if !self.pending.is_empty() {
            // exactly one reply per request: diagnose the oldest missing one (bounded; inconclusive on a stall)
            let id = self.pending.keys().copied().min().unwrap_or(0);
            let _ = self.await_reply(id, "hammer").await;
            if self.viols.is_empty() && self.inconcl.is_empty() {
                self.inconcl.push(format!("hammer: {} replies were outstanding when the window closed, the oldest arrived during diagnosis", self.pending.len()));
            }
            return false;
        }
        // idle point: every handler that started has left and the gauge is back at 0
        let dl = Instant::now() + Duration::from_secs(6);
        loop {
            self.drain_events();
            let (cur, _) = self.sh.gauge(self.conn);
            if (cur == 0 && self.started.len() == self.exited.len()) || !self.viols.is_empty() {
                break;
            }
            if !self.pump(dl).await {
                break;
            }
        }
        if !self.viols.is_empty() {
            return false;
        }
        let (cur, _) = self.sh.gauge(self.conn);
        if cur != 0 || self.started.len() != self.exited.len() {
            self.inconcl.push(format!("hammer: all replies are in but the gauge reads {cur} ({} started, {} exited) after 6 s; no idle point", self.started.len(), self.exited.len()));
            return false;
        }
        self.st.hammer_idle_points += 1;
        true
    }

    /// The probe on the idle connection. true = exactly `cap` parked handlers were admitted, one more was
    /// rejected, all answered as scripted after their release.
    async fn probe_after_hammer(&mut self, rng: &mut Rng, round: usize, what: &str) -> bool {
        self.sh.hammer_phase.store(1, Ordering::SeqCst);
        if !self.ping("after-hammer").await {
            return false;
        }
        let cap = self.cap;
        let mut parked = vec![];
        for i in 0..cap {
            let o = Out::pick(rng);
            let rejects_before = self.st.rejects_seen;
            match self.admit_with_retries_within(o, "probe-after-hammer", Duration::from_secs(8), 250).await {
                Some((id, tok)) => {
                    self.st.probe_rejections_retried += self.st.rejects_seen - rejects_before;
                    parked.push((id, tok, o));
                }
                None => {
                    let rejections = self.st.rejects_seen - rejects_before;
                    if self.viols.is_empty() {
                        let (cur, max) = self.sh.gauge(self.conn);
                        if rejections >= 50 && cur == i as u64 {
                            let hook_below = self.sh.probe_rej_below_cap.load(Ordering::Relaxed);
                            self.progress_viol(
                                format!("C16:capacity-lost-after-hammer:{cap}:{i}"),
                                format!(
                                    "cap {cap}, round {round} ({what}): after {} short off-reader requests on this connection ({} returned, {} errored, {} panicked, {} answered ec 8) every reply was in, every handler had left (gauge 0) and an inline ping was answered; then {i} parked requests were admitted (gauge now {cur}, maximum ever {max}) and the next one was rejected with ec 8 {rejections} times in a row over several seconds ({hook_below} of the probe's rejections happened while the reader-side gauge read fewer than {cap} running handlers): only {i} of {cap} slots are left",
                                    self.st.hammer_requests, self.st.hammer_replies_return, self.st.hammer_replies_error, self.st.hammer_replies_panic, self.st.hammer_replies_ec8
                                ),
                            );
                        } else {
                            self.inconcl.push(format!("probe after hammer: parked request {} of {cap} was neither admitted nor rejected often enough to judge ({rejections} rejections, gauge {cur})", i + 1));
                        }
                    }
                    // let the parked ones go before the connection is dropped
                    for (_, tok, _) in parked {
                        self.release(tok);
                    }
                    return false;
                }
            }
        }
        self.st.probe_admitted += parked.len() as u64;
        self.saturated_now = true;
        self.st.saturations_reached += 1;
        let (cur, _) = self.sh.gauge(self.conn);
        if cur != cap as u64 {
            self.viol("C16:gauge-mismatch-at-saturation", format!("probe after hammer: {cap} handlers parked, gauge reads {cur}"));
            return false;
        }
        // one more: the capacity must not have grown either; an inline call still gets through
        let (id, tok) = (self.new_id(), self.new_tok());
        self.add_gate(tok);
        self.pending.insert(id, Exp::Call { tok, out: Out::Ret, released: false, may_reject: true });
        let (pid, ptok) = (self.new_id(), self.new_tok());
        self.pending.insert(pid, Exp::Ping { tok: ptok });
        let b = self.park_body(tok, Out::Ret);
        self.send_all(vec![req_frame(id, false, "/park", &b), req_frame(pid, false, "/ping", &json!({ "tok": ptok }))]).await;
        let dl = Instant::now() + WINDOW;
        while !(self.started.contains(&tok) || self.got8.contains(&id)) && self.viols.is_empty() && self.pump(dl).await {}
        if self.started.contains(&tok) {
            self.viol(
                format!("C16:capacity-exceeded-after-hammer:{cap}:{}", cap + 1),
                format!("cap {cap}, round {round} ({what}): with {cap} handlers parked after the hammer phase one more request (token {tok}) was admitted and its handler runs"),
            );
            self.release(tok);
            for (_, t, _) in parked {
                self.release(t);
            }
            return false;
        }
        if !self.viols.is_empty() {
            return false;
        }
        if !self.got8.contains(&id) {
            let _ = self.await_reply(id, "probe-extra-request").await;
            if self.viols.is_empty() && self.inconcl.is_empty() {
                self.inconcl.push("probe after hammer: the extra request was answered only during diagnosis".into());
            }
            return false;
        }
        self.drop_gate(tok);
        self.st.probe_extra_rejected += 1;
        if !self.await_reply(pid, "inline-probe-saturation").await {
            return false;
        }
        rng.shuffle(&mut parked);
        for (id, tok, o) in parked {
            self.release(tok);
            self.saturated_now = false;
            if !self.await_reply(id, &format!("released-{}", o.name())).await {
                return false;
            }
            self.st.probe_released_replies += 1;
        }
        self.st.probe_rounds_completed += 1;
        true
    }
}

enum Srv {
    Multi(tokio::runtime::Runtime, tokio::task::JoinHandle<()>),
    Current(tokio::sync::oneshot::Sender<()>),
}

pub(super) async fn run_hammer_case(case: HammerCase, hb: Arc<Heartbeat>) -> CaseResult {
    let sh = Shared::new();
    let router = build_router(&sh, case.route, case.mw);
    let mut res = CaseResult { viols: vec![], inconcl: vec![], stats: vec![], orders: vec![], mw_calls: 0, ctx_peer_seen: 0, hook_saturation: 0, hook_panic: 0, hook_other: 0, gate_timeouts: 0, late_forbidden_starts: 0, hammer_hook: [0; 4] };
    let conn = CONN_IDS.fetch_add(1, Ordering::Relaxed);
    sh.hammer_conn.store(conn, Ordering::SeqCst);
    sh.hammer_cap.store(case.cap as u64, Ordering::SeqCst);
    let hs = sh.clone();
    let server = WebSocketServer::new(router)
        .on_error(move |e| match e {
            ConnectionError::Saturation { .. } => {
                hs.hook_saturation.fetch_add(1, Ordering::Relaxed);
                // evidence taken on the reader at the moment of the rejection: how many handlers of this
                // (the server's only) connection are inside their RAII guard right now
                let (cur, _) = hs.gauge(hs.hammer_conn.load(Ordering::Relaxed));
                let at_cap = cur >= hs.hammer_cap.load(Ordering::Relaxed);
                let ctr = match (hs.hammer_phase.load(Ordering::SeqCst), at_cap) {
                    (0, true) => &hs.hammer_rej_at_cap,
                    (0, false) => &hs.hammer_rej_below_cap,
                    (_, true) => &hs.probe_rej_at_cap,
                    (_, false) => &hs.probe_rej_below_cap,
                };
                ctr.fetch_add(1, Ordering::Relaxed);
            }
            ConnectionError::HandlerPanic { .. } => {
                hs.hook_panic.fetch_add(1, Ordering::Relaxed);
            }
            _ => {
                hs.hook_other.fetch_add(1, Ordering::Relaxed);
            }
        })
        .with_offreader_limit(case.cap);
    let (addr_tx, addr_rx) = tokio::sync::oneshot::channel::<Result<std::net::SocketAddr, String>>();
    let serve = async move {
        let listener = match tokio::net::TcpListener::bind("127.0.0.1:0").await {
            Ok(l) => l,
            Err(e) => {
                let _ = addr_tx.send(Err(e.to_string()));
                return;
            }
        };
        let _ = addr_tx.send(listener.local_addr().map_err(|e| e.to_string()));
        let _ = server.serve_listener(listener, "/repe").await;
    };
    let srv = if case.current_thread {
        let (stop_tx, stop_rx) = tokio::sync::oneshot::channel::<()>();
        let spawned = std::thread::Builder::new().name("c16-hammer-ct".into()).spawn(move || {
            // a failed build drops `serve` and with it the address sender: reported below as "did not come up"
            if let Ok(rt) = tokio::runtime::Builder::new_current_thread().max_blocking_threads(256).enable_all().build() {
                rt.block_on(async move {
                    tokio::select! {
                        _ = serve => {}
                        _ = stop_rx => {}
                    }
                });
                rt.shutdown_background();
            }
        });
        if let Err(e) = spawned {
            res.inconcl.push(format!("server thread: {e}"));
            return res;
        }
        Srv::Current(stop_tx)
    } else {
        match tokio::runtime::Builder::new_multi_thread().worker_threads(2).max_blocking_threads(256).enable_all().build() {
            Ok(rt) => {
                let task = rt.spawn(serve);
                Srv::Multi(rt, task)
            }
            Err(e) => {
                res.inconcl.push(format!("server runtime: {e}"));
                return res;
            }
        }
    };
    let stop = |srv: Srv| match srv {
        Srv::Multi(rt, task) => {
            task.abort();
            rt.shutdown_background();
        }
        Srv::Current(stop_tx) => {
            let _ = stop_tx.send(());
        }
    };
    let addr = match tokio::time::timeout(Duration::from_secs(10), addr_rx).await {
        Ok(Ok(Ok(a))) => a,
        other => {
            res.inconcl.push(format!("hammer server ({}) did not come up: {other:?}", flavour(case.current_thread)));
            stop(srv);
            return res;
        }
    };
    let (tx, rx) = unbounded_channel();
    sh.ev.lock().unwrap_or_else(|e| e.into_inner()).insert(conn, tx);
    let ws = async {
        let stream = tokio::net::TcpStream::connect(addr).await.map_err(|e| format!("connect failed: {e}"))?;
        let _ = stream.set_nodelay(true);
        let _ = stream.set_linger(Some(Duration::ZERO));
        tokio_tungstenite::client_async(format!("ws://{addr}/repe"), stream).await.map(|(ws, _)| ws).map_err(|e| format!("websocket handshake failed: {e}"))
    };
    let ws = match tokio::time::timeout(Duration::from_secs(10), ws).await {
        Ok(Ok(ws)) => ws,
        Ok(Err(e)) => {
            res.inconcl.push(e);
            stop(srv);
            return res;
        }
        Err(_) => {
            res.inconcl.push("hammer: connecting took more than 10 s".into());
            stop(srv);
            return res;
        }
    };
    let mut d = Drv::new(ws, rx, sh.clone(), hb, conn, case.cap, "hammer");
    let mut rng = Rng::new(case.seed ^ 0x4A33_E2C1_6000);
    let stop_sending_at = Instant::now() + Duration::from_secs(case.hammer_secs);
    let mut ok = true;
    for (k, r) in case.rounds.iter().enumerate() {
        let what = format!("{} requests, up to {} in flight, refilled at {} outstanding, {} exits", r.requests, r.high, r.low, r.mix.name());
        ok = d.hammer_round(r, &mut rng, stop_sending_at).await && d.probe_after_hammer(&mut rng, k, &what).await;
        if !ok {
            break;
        }
    }
    if ok {
        let _ = d.ping("final").await;
    }
    let toks: Vec<u64> = d.gates.keys().copied().collect();
    for t in toks {
        d.drop_gate(t);
    }
    drop(d.ws);
    let (_, max) = sh.gauge(conn);
    d.st.gauge_max = d.st.gauge_max.max(max);
    if max > case.cap as u64 && !d.viols.iter().any(|v| v.0 == "C16:gauge-over-cap") {
        d.viols.push(("C16:gauge-over-cap".into(), format!("gauge maximum {max} on one connection, cap {}", case.cap)));
    }
    stop(srv);
    res.viols = d.viols;
    res.inconcl = d.inconcl;
    res.orders.push(hash_of(&d.order));
    res.stats.push(d.st);
    res.mw_calls = sh.mw_calls.load(Ordering::Relaxed);
    res.ctx_peer_seen = sh.ctx_peer_seen.load(Ordering::Relaxed);
    res.hook_saturation = sh.hook_saturation.load(Ordering::Relaxed);
    res.hook_panic = sh.hook_panic.load(Ordering::Relaxed);
    res.hook_other = sh.hook_other.load(Ordering::Relaxed);
    res.gate_timeouts = sh.gate_timeouts.load(Ordering::Relaxed);
    res.hammer_hook = [
        sh.hammer_rej_at_cap.load(Ordering::Relaxed),
        sh.hammer_rej_below_cap.load(Ordering::Relaxed),
        sh.probe_rej_at_cap.load(Ordering::Relaxed),
        sh.probe_rej_below_cap.load(Ordering::Relaxed),
    ];
    res
}
