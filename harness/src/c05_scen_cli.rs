//! C05 scenarios whose endpoint under test is a client (repe::Client, repe::AsyncClient,
//! repe::WebSocketClient). The raw peer (c05_peers) records what the client writes.

use super::c05_oracle::{Book, Expect, pat_fill};
use super::c05_peers::*;
use super::{ConnOut, Cx, Op, ScenarioOut, path_of, pick_len, size_class};
use crate::common::*;
use serde_json::json;
use std::sync::Arc;
use std::sync::atomic::Ordering::SeqCst;
use std::time::Duration;

fn expect_of(op: &Op) -> Expect {
    Expect { token: op.token, kind: if op.notify { "client notify" } else { "client call request" }, notify: op.notify as u8, query: path_of(op.token).into_bytes(), body_len: op.len, fixed_id: None }
}

fn frame_len(op: &Op) -> u64 {
    (48 + path_of(op.token).len() + op.len) as u64
}

struct Gen {
    next: u64,
}
impl Gen {
    fn new(rng: &mut Rng) -> Gen {
        Gen { next: (rng.next_u64() >> 24) << 8 }
    }
    fn op(&mut self, notify: bool, len: usize) -> Op {
        self.next += 1;
        Op { token: self.next, notify, len }
    }
    fn sized(&mut self, rng: &mut Rng, left: &mut usize, thorough: bool) -> Op {
        self.next += 1;
        let qlen = path_of(self.next).len();
        Op { token: self.next, notify: rng.chance(3, 5), len: pick_len(rng, qlen, left, thorough) }
    }
}

fn gen_writers(rng: &mut Rng, g: &mut Gen, writers: usize, thorough: bool) -> Vec<Vec<Op>> {
    let mut left: usize = if thorough { 96 << 20 } else { 20 << 20 };
    let per = 1 + rng.usize_below(if writers > 16 { 3 } else { 5 });
    (0..writers).map(|_| (0..per).map(|_| g.sized(rng, &mut left, thorough)).collect()).collect()
}

fn shape_hash(ws: &[Vec<Op>], extra: u64) -> u64 {
    let shape: Vec<Vec<(bool, u8)>> = ws.iter().map(|w| w.iter().map(|o| (o.notify, size_class(o.len))).collect()).collect();
    hash_of(&(shape, extra))
}

fn stall_plan(rng: &mut Rng, total: u64) -> Vec<(u64, u64)> {
    let n = 2 + rng.usize_below(5);
    let mut v: Vec<(u64, u64)> = (0..n).map(|_| { let at = rng.below(total.max(1)); let long = rng.chance(1, 4); (at, 5 + rng.below(if long { 150 } else { 40 })) }).collect();
    v.sort();
    v
}

fn run_op_blocking(c: &repe::Client, op: &Op, call_timeout: Duration) -> Result<(), String> {
    let body = pat_fill(op.token, op.len);
    let path = path_of(op.token);
    if op.notify {
        c.notify_with_formats(&path, 1, Some(&body), 0).map_err(|e| e.to_string())
    } else {
        c.call_with_formats_and_timeout(&path, 1, Some(&body), 0, call_timeout).map(|_| ()).map_err(|e| e.to_string())
    }
}

fn rcvbuf_choice(rng: &mut Rng, small: bool) -> Option<usize> {
    // below ~32 KiB the loopback path degenerates into persist-timer probing after a stall (minutes per MiB)
    if small { Some(*rng.pick(&[32768usize, 65536, 131072])) } else if rng.coin() { None } else { Some(*rng.pick(&[65536usize, 262144])) }
}

fn max_wall(cx: &Cx) -> Duration {
    Duration::from_secs(if cx.thorough { 240 } else { 60 })
}

// ------------------------------------------------------------------------------------------------
// blocking client: concurrent clones, optional seeded reader stalls

pub fn client_concurrent(cx: &Cx, rng: &mut Rng, stall: bool, force_writers: Option<usize>) -> ScenarioOut {
    let mut out = ScenarioOut::new("client", if stall { "stall" } else { "none" }, if stall { "client.stall" } else { "client.healthy" });
    let mut g = Gen::new(rng);
    let writers = force_writers.unwrap_or(1 + rng.usize_below(32));
    let ws = gen_writers(rng, &mut g, writers, cx.thorough);
    let total: u64 = ws.iter().flatten().map(frame_len).sum();
    let rcvbuf = rcvbuf_choice(rng, stall);
    let ctl = Ctl::new();
    let plan = if stall { stall_plan(rng, total) } else { vec![] };
    *ctl.plan.lock().unwrap() = plan.clone();
    out.ident = shape_hash(&ws, hash_of(&(plan.len(), rcvbuf)));
    out.params = json!({"writers": writers, "ops": ws.iter().map(|w| w.len()).sum::<usize>(), "total_bytes": total, "peer_rcvbuf": rcvbuf, "stalls_at_byte_ms": plan,
        "largest_body": ws.iter().flatten().map(|o| o.len).max()});
    let mut book = Book::default();
    ws.iter().flatten().for_each(|o| book.add_by_query(expect_of(o)));
    let (addr, peer) = match start_client_peer(cx.rt, false, rcvbuf, ctl.clone(), rng.fork(1), max_wall(cx)) {
        Ok(x) => x,
        Err(e) => {
            out.trouble.push(format!("peer listen: {e}"));
            return out;
        }
    };
    let client = match repe::Client::connect(addr) {
        Ok(c) => c,
        Err(e) => {
            out.trouble.push(format!("connect: {e}"));
            ctl.finish_when_quiet(10);
            return out;
        }
    };
    let hs: Vec<_> = ws
        .iter()
        .cloned()
        .map(|w| {
            let c = client.clone();
            std::thread::spawn(move || w.iter().map(|op| (op.token, run_op_blocking(&c, op, Duration::from_secs(15)))).collect::<Vec<_>>())
        })
        .collect();
    let mut must = vec![];
    for h in hs {
        match join_bounded(h, Duration::from_secs(120)) {
            Some(rs) => {
                for (tk, r) in rs {
                    out.note_result(&r);
                    if r.is_ok() {
                        must.push(tk);
                    }
                }
            }
            None => out.trouble.push("a writer thread did not finish in 120 s".into()),
        }
    }
    drop(client);
    let (record, end, tr) = peer.finish(cx.rt, &ctl, Duration::from_secs(10), 300);
    out.trouble.extend(tr);
    out.conns.push(ConnOut { label: "conn0".into(), book, must_see: must, record, end, victim: None });
    out
}

// ------------------------------------------------------------------------------------------------
// blocking client: write timeout expires mid-frame against a stalled peer, then FURTHER traffic

pub fn client_write_timeout(cx: &Cx, rng: &mut Rng) -> ScenarioOut {
    let mut out = ScenarioOut::new("client", "write_timeout", "client.write_timeout");
    let mut g = Gen::new(rng);
    let rcvbuf = *rng.pick(&[32768usize, 65536, 131072]);
    let t_ms = rng.range(120, 250);
    // the client's own send buffer autotunes up to tcp_wmem max (4 MiB by default): the interrupted payload must exceed it
    let big_len = if cx.thorough { *rng.pick(&[12usize << 20, 16 << 20, 32 << 20]) } else { *rng.pick(&[12usize << 20, 16 << 20]) } + rng.usize_below(3) - 1;
    let x = 1 + rng.below((big_len as u64 / 2).min(300_000));
    let warm: Vec<Op> = (0..2 + rng.usize_below(4)).map(|_| { let l = rng.usize_below(20_000); g.op(rng.coin(), l) }).collect();
    let big = g.op(true, big_len);
    let waiters: Vec<Op> = (0..rng.usize_below(4)).map(|_| { let l = rng.usize_below(3000); g.op(true, l) }).collect();
    let further: Vec<Op> = vec![g.op(true, rng.usize_below(200)), g.op(false, rng.usize_below(2000)), g.op(true, 20_000 + rng.usize_below(20_000))];
    out.ident = hash_of(&(rcvbuf, size_class(big_len), x / 50_000, warm.len(), waiters.len()));
    out.params = json!({"peer_rcvbuf": rcvbuf, "write_timeout_ms": t_ms, "big_notify_body": big_len, "peer_stalls_after_bytes_of_big_frame": x,
        "warmup_ops": warm.len(), "writers_queued_behind_big": waiters.len(), "further_ops": further.len(), "big_token": format!("{:#x}", big.token)});
    let mut book = Book::default();
    warm.iter().chain([&big]).chain(&waiters).chain(&further).for_each(|o| book.add_by_query(expect_of(o)));
    let ctl = Ctl::new();
    let (addr, peer) = match start_client_peer(cx.rt, false, Some(rcvbuf), ctl.clone(), rng.fork(1), max_wall(cx)) {
        Ok(x) => x,
        Err(e) => {
            out.trouble.push(format!("peer listen: {e}"));
            return out;
        }
    };
    let mut must = vec![];
    let mut body = || -> Result<(), String> {
        let client = repe::Client::connect(addr).map_err(|e| format!("connect: {e}"))?;
        client.set_write_timeout(Some(Duration::from_millis(t_ms))).map_err(|e| format!("set_write_timeout: {e}"))?;
        for op in &warm {
            let r = run_op_blocking(&client, op, Duration::from_secs(30));
            out.note_result(&r);
            if r.is_ok() {
                must.push(op.token);
            } else {
                return Err(format!("warm-up op failed: {r:?}"));
            }
        }
        let b0: u64 = warm.iter().map(frame_len).sum();
        if !wait_until(Duration::from_secs(10), || ctl.bytes.load(SeqCst) == b0) {
            return Err(format!("peer recorded {} bytes after warm-up, expected {b0}", ctl.bytes.load(SeqCst)));
        }
        // the peer stops reading once it holds x bytes of the big frame
        ctl.hold_at(b0 + x);
        let hbig = {
            let (c, op) = (client.clone(), big.clone());
            std::thread::spawn(move || run_op_blocking(&c, &op, Duration::from_secs(1)))
        };
        if !wait_until(Duration::from_secs(15), || ctl.stalled.load(SeqCst) || hbig.is_finished()) {
            out.trouble.push("peer never reached the stall point inside the big frame".into());
        }
        // writers queued behind the blocked writer on the same client
        let hw: Vec<_> = waiters
            .iter()
            .cloned()
            .map(|op| {
                let c = client.clone();
                std::thread::spawn(move || (op.token, run_op_blocking(&c, &op, Duration::from_secs(1))))
            })
            .collect();
        let rbig = join_bounded(hbig, Duration::from_secs(30)).ok_or("big write neither completed nor timed out in 30 s")?;
        out.note_result(&rbig);
        out.fault_triggered = Some(rbig.is_err());
        if rbig.is_ok() {
            must.push(big.token);
        }
        for h in hw {
            match join_bounded(h, Duration::from_secs(30)) {
                Some((tk, r)) => {
                    out.note_result(&r);
                    if r.is_ok() {
                        must.push(tk);
                    }
                }
                None => out.trouble.push("queued writer did not return in 30 s".into()),
            }
        }
        // the peer drains everything ...
        ctl.release();
        wait_quiet(&ctl, Duration::from_millis(150), Duration::from_secs(15));
        // ... and the application keeps using the same client
        for op in &further {
            let r = run_op_blocking(&client, op, Duration::from_millis(400));
            out.note_result(&r);
            match &r {
                Ok(()) => {
                    out.further_ok += 1;
                    must.push(op.token);
                }
                Err(_) => out.further_err += 1,
            }
        }
        drop(client);
        Ok(())
    };
    if let Err(e) = body() {
        out.trouble.push(e);
    }
    ctl.release();
    let (record, end, tr) = peer.finish(cx.rt, &ctl, Duration::from_secs(10), 300);
    out.trouble.extend(tr);
    out.conns.push(ConnOut { label: "conn0".into(), book, must_see: must, record, end, victim: Some(big.token) });
    out
}

// ------------------------------------------------------------------------------------------------
// async TCP client and WebSocket client

#[derive(Clone, Copy, PartialEq)]
pub enum AKind {
    Tcp,
    Ws,
}

#[derive(Clone)]
enum AClient {
    Tcp(repe::AsyncClient),
    Ws(repe::WebSocketClient),
}

impl AClient {
    async fn connect(kind: AKind, addr: std::net::SocketAddr, unlimited: bool) -> Result<AClient, String> {
        match kind {
            AKind::Tcp => repe::AsyncClient::connect(addr).await.map(AClient::Tcp).map_err(|e| e.to_string()),
            AKind::Ws => {
                let url = format!("ws://{addr}/ws");
                let r = if unlimited { repe::WebSocketClient::connect_with_limits(&url, repe::WebSocketLimits::unlimited()).await } else { repe::WebSocketClient::connect(&url).await };
                r.map(AClient::Ws).map_err(|e| e.to_string())
            }
        }
    }
    async fn run_op(&self, op: &Op, call_timeout: Duration) -> Result<(), String> {
        let body = pat_fill(op.token, op.len);
        let path = path_of(op.token);
        match (self, op.notify) {
            (AClient::Tcp(c), true) => c.notify_with_formats(&path, 1, Some(&body), 0).await.map_err(|e| e.to_string()),
            (AClient::Tcp(c), false) => c.call_with_formats_and_timeout(&path, 1, Some(&body), 0, call_timeout).await.map(|_| ()).map_err(|e| e.to_string()),
            (AClient::Ws(c), true) => c.notify_with_formats(&path, 1, Some(&body), 0).await.map_err(|e| e.to_string()),
            (AClient::Ws(c), false) => c.call_with_formats_and_timeout(&path, 1, Some(&body), 0, call_timeout).await.map(|_| ()).map_err(|e| e.to_string()),
        }
    }
}

fn ep_name(kind: AKind) -> &'static str {
    if kind == AKind::Tcp { "async_client" } else { "ws_client" }
}

pub fn aclient_concurrent(cx: &Cx, rng: &mut Rng, kind: AKind, stall: bool, force_writers: Option<usize>) -> ScenarioOut {
    let ep = ep_name(kind);
    let mut out = ScenarioOut::new(ep, if stall { "stall" } else { "none" }, &format!("{ep}.{}", if stall { "stall" } else { "healthy" }));
    let mut g = Gen::new(rng);
    let writers = force_writers.unwrap_or(1 + rng.usize_below(32));
    let ws = gen_writers(rng, &mut g, writers, cx.thorough);
    let total: u64 = ws.iter().flatten().map(frame_len).sum();
    let largest = ws.iter().flatten().map(|o| o.len).max().unwrap_or(0);
    let unlimited = largest > (8 << 20) || rng.coin();
    let rcvbuf = rcvbuf_choice(rng, stall);
    let ctl = Ctl::new();
    let plan = if stall { stall_plan(rng, total) } else { vec![] };
    *ctl.plan.lock().unwrap() = plan.clone();
    out.ident = shape_hash(&ws, hash_of(&(plan.len(), rcvbuf, unlimited)));
    out.params = json!({"writers": writers, "ops": ws.iter().map(|w| w.len()).sum::<usize>(), "total_bytes": total, "peer_rcvbuf": rcvbuf, "stalls_at_byte_ms": plan,
        "largest_body": largest, "ws_limits_unlimited": unlimited});
    let mut book = Book::default();
    ws.iter().flatten().for_each(|o| book.add_by_query(expect_of(o)));
    let (addr, peer) = match start_client_peer(cx.rt, kind == AKind::Ws, rcvbuf, ctl.clone(), rng.fork(1), max_wall(cx)) {
        Ok(x) => x,
        Err(e) => {
            out.trouble.push(format!("peer listen: {e}"));
            return out;
        }
    };
    let mut must = vec![];
    let res: Result<(), String> = cx.rt.block_on(async {
        let client = AClient::connect(kind, addr, unlimited).await.map_err(|e| format!("connect: {e}"))?;
        let hs: Vec<_> = ws
            .iter()
            .cloned()
            .map(|w| {
                let c = client.clone();
                tokio::spawn(async move {
                    let mut v = vec![];
                    for op in &w {
                        v.push((op.token, c.run_op(op, Duration::from_secs(15)).await));
                    }
                    v
                })
            })
            .collect();
        for h in hs {
            match tokio::time::timeout(Duration::from_secs(120), h).await {
                Ok(Ok(rs)) => {
                    for (tk, r) in rs {
                        out.note_result(&r);
                        if r.is_ok() {
                            must.push(tk);
                        }
                    }
                }
                Ok(Err(e)) => out.trouble.push(format!("writer task failed: {e}")),
                Err(_) => out.trouble.push("a writer task did not finish in 120 s".into()),
            }
        }
        drop(client);
        tokio::task::yield_now().await;
        Ok(())
    });
    if let Err(e) = res {
        out.trouble.push(e);
    }
    let (record, end, tr) = peer.finish(cx.rt, &ctl, Duration::from_secs(10), 300);
    out.trouble.extend(tr);
    out.conns.push(ConnOut { label: "conn0".into(), book, must_see: must, record, end, victim: None });
    out
}

/// A call is abandoned while its request is being written (task abort / timeout wrapper) against a
/// stalled peer; then the peer drains and the application keeps using the same client.
pub fn aclient_cancel(cx: &Cx, rng: &mut Rng, kind: AKind) -> ScenarioOut {
    let ep = ep_name(kind);
    let mut out = ScenarioOut::new(ep, "cancel_mid_send", &format!("{ep}.cancel_mid_send"));
    let mut g = Gen::new(rng);
    let rcvbuf = *rng.pick(&[32768usize, 65536, 131072]);
    // the client's own send buffer autotunes up to tcp_wmem max (4 MiB by default): the interrupted payload must exceed it
    let big_len = if cx.thorough { *rng.pick(&[12usize << 20, 16 << 20, 32 << 20]) } else { *rng.pick(&[12usize << 20, 16 << 20]) } + rng.usize_below(3) - 1;
    // WebSocket peers see whole messages only: they stop reading before the big message
    let x = if kind == AKind::Ws { 0 } else { 1 + rng.below((big_len as u64 / 2).min(300_000)) };
    let variant_abort = rng.coin();
    let cancel_after_ms = if variant_abort { rng.below(80) } else { rng.range(150, 300) };
    let big_is_call = rng.coin();
    let unlimited = big_len > (8 << 20) || rng.coin();
    let warm: Vec<Op> = (0..2 + rng.usize_below(4)).map(|_| { let l = rng.usize_below(20_000); g.op(rng.coin(), l) }).collect();
    let big = g.op(!big_is_call, big_len);
    let waiters: Vec<Op> = (0..rng.usize_below(4)).map(|_| { let l = rng.usize_below(3000); g.op(true, l) }).collect();
    let further: Vec<Op> = vec![g.op(true, rng.usize_below(200)), g.op(false, rng.usize_below(2000)), g.op(true, 20_000 + rng.usize_below(20_000))];
    out.ident = hash_of(&(rcvbuf, size_class(big_len), x / 50_000, warm.len(), waiters.len(), variant_abort, big_is_call));
    out.params = json!({"peer_rcvbuf": rcvbuf, "big_body": big_len, "big_is_call": big_is_call, "peer_stalls_after_bytes_of_big_frame": x,
        "cancel": if variant_abort {"JoinHandle::abort"} else {"tokio::time::timeout wrapper"}, "cancel_after_ms": cancel_after_ms,
        "warmup_ops": warm.len(), "writers_queued_behind_big": waiters.len(), "further_ops": further.len(), "big_token": format!("{:#x}", big.token)});
    let mut book = Book::default();
    warm.iter().chain([&big]).chain(&waiters).chain(&further).for_each(|o| book.add_by_query(expect_of(o)));
    let ctl = Ctl::new();
    let (addr, peer) = match start_client_peer(cx.rt, kind == AKind::Ws, Some(rcvbuf), ctl.clone(), rng.fork(1), max_wall(cx)) {
        Ok(x) => x,
        Err(e) => {
            out.trouble.push(format!("peer listen: {e}"));
            return out;
        }
    };
    let mut must = vec![];
    let res: Result<(), String> = cx.rt.block_on(async {
        let client = AClient::connect(kind, addr, unlimited).await.map_err(|e| format!("connect: {e}"))?;
        for op in &warm {
            let r = client.run_op(op, Duration::from_secs(30)).await;
            out.note_result(&r);
            if r.is_ok() {
                must.push(op.token);
            } else {
                return Err(format!("warm-up op failed: {r:?}"));
            }
        }
        let b0: u64 = warm.iter().map(frame_len).sum();
        if !wait_until_async(Duration::from_secs(10), || ctl.bytes.load(SeqCst) == b0).await {
            return Err(format!("peer recorded {} bytes after warm-up, expected {b0}", ctl.bytes.load(SeqCst)));
        }
        ctl.hold_at(b0 + x);
        if x == 0 && !wait_until_async(Duration::from_secs(10), || ctl.stalled.load(SeqCst)).await {
            return Err("ws peer did not acknowledge the stall".into());
        }
        let hbig = {
            let (c, op) = (client.clone(), big.clone());
            let wrap = !variant_abort;
            tokio::spawn(async move {
                if wrap {
                    match tokio::time::timeout(Duration::from_millis(cancel_after_ms), c.run_op(&op, Duration::from_secs(30))).await {
                        Ok(r) => Some(r),
                        Err(_) => None, // future dropped mid-flight
                    }
                } else {
                    Some(c.run_op(&op, Duration::from_secs(30)).await)
                }
            })
        };
        if x > 0 && !wait_until_async(Duration::from_secs(15), || ctl.stalled.load(SeqCst) || hbig.is_finished()).await {
            out.trouble.push("peer never reached the stall point inside the big frame".into());
        }
        let hw: Vec<_> = waiters
            .iter()
            .cloned()
            .map(|op| {
                let c = client.clone();
                tokio::spawn(async move { (op.token, c.run_op(&op, Duration::from_secs(30)).await) })
            })
            .collect();
        let completed: Option<Result<(), String>> = if variant_abort {
            tokio::time::sleep(Duration::from_millis(cancel_after_ms)).await;
            hbig.abort();
            match hbig.await {
                Ok(r) => r,
                Err(_) => None,
            }
        } else {
            match tokio::time::timeout(Duration::from_secs(30), hbig).await {
                Ok(Ok(r)) => r,
                _ => None,
            }
        };
        match &completed {
            Some(r) => {
                out.note_result(r);
                if r.is_ok() {
                    must.push(big.token);
                }
                out.fault_triggered = Some(false);
            }
            None => out.fault_triggered = Some(true),
        }
        // the peer drains everything
        ctl.release();
        for h in hw {
            match tokio::time::timeout(Duration::from_secs(30), h).await {
                Ok(Ok((tk, r))) => {
                    out.note_result(&r);
                    if r.is_ok() {
                        must.push(tk);
                    }
                }
                _ => out.trouble.push("queued writer did not return in 30 s".into()),
            }
        }
        wait_quiet_async(&ctl, Duration::from_millis(150), Duration::from_secs(15)).await;
        // FURTHER traffic on the same client
        for op in &further {
            let r = match tokio::time::timeout(Duration::from_secs(10), client.run_op(op, Duration::from_millis(400))).await {
                Ok(r) => r,
                Err(_) => Err("further op did not return in 10 s".to_string()),
            };
            out.note_result(&r);
            match &r {
                Ok(()) => {
                    out.further_ok += 1;
                    must.push(op.token);
                }
                Err(_) => out.further_err += 1,
            }
        }
        wait_quiet_async(&ctl, Duration::from_millis(100), Duration::from_secs(10)).await;
        drop(client);
        tokio::task::yield_now().await;
        Ok(())
    });
    if let Err(e) = res {
        out.trouble.push(e);
    }
    ctl.release();
    let (record, end, tr) = peer.finish(cx.rt, &ctl, Duration::from_secs(10), 300);
    out.trouble.extend(tr);
    out.conns.push(ConnOut { label: "conn0".into(), book, must_see: must, record, end, victim: Some(big.token) });
    out
}

#[allow(dead_code)]
fn _unused(_: Arc<Ctl>) {}
