//! C05 scenarios whose endpoint under test is a client (repe::Client, repe::AsyncClient,
//! repe::WebSocketClient). The raw peer (c05_peers) records what the client writes.

use super::c05_oracle::{Book, Expect, pat_fill};
use super::c05_peers::*;
use super::{ConnOut, Cx, MedEvidence, Op, ScenarioOut, WINDOW, med_split, med_sums, path_of, path_of_op, pick_len, size_class, u8_array_prefix};
use crate::common::*;
use serde_json::json;
use std::sync::Arc;
use std::sync::atomic::Ordering::SeqCst;
use std::time::Duration;

pub(super) fn expect_of(op: &Op) -> Expect {
    let typed = op.api == 1;
    Expect {
        token: op.token,
        kind: if op.notify { "client notify" } else if typed { "client call_typed_slice request" } else { "client call request" },
        notify: op.notify as u8,
        query: path_of_op(op).into_bytes(),
        body_len: op.len,
        fixed_id: None,
        body_prefix: if typed { u8_array_prefix(op.len) } else { vec![] },
        body_format: if typed { 1 } else { 0 },
        exact_body: None,
    }
}

pub(super) fn frame_len(op: &Op) -> u64 {
    (48 + path_of_op(op).len() + op.len + if op.api == 1 { u8_array_prefix(op.len).len() } else { 0 }) as u64
}

/// Calls (never notifies) go out through the bulk typed-slice entry point for every third token; WebSocket clients have none.
fn api_for(token: u64, notify: bool) -> u8 {
    (!notify && token % 3 == 0) as u8
}

pub(super) struct Gen {
    pub(super) next: u64,
    /// false for WebSocket clients, which have no bulk typed-slice entry point
    pub(super) typed: bool,
}
impl Gen {
    pub(super) fn new(rng: &mut Rng) -> Gen {
        Gen { next: (rng.next_u64() >> 24) << 8, typed: true }
    }
    pub(super) fn op(&mut self, notify: bool, len: usize) -> Op {
        self.next += 1;
        Op { token: self.next, notify, len, qpad: 0, api: if self.typed { api_for(self.next, notify) } else { 0 } }
    }
    pub(super) fn sized(&mut self, rng: &mut Rng, left: &mut usize, thorough: bool) -> Op {
        self.next += 1;
        let qlen = path_of(self.next).len();
        let notify = rng.chance(3, 5);
        Op { token: self.next, notify, len: pick_len(rng, qlen, left, thorough), qpad: 0, api: if self.typed { api_for(self.next, notify) } else { 0 } }
    }
}

fn gen_writers(rng: &mut Rng, g: &mut Gen, writers: usize, thorough: bool) -> Vec<Vec<Op>> {
    let mut left: usize = if thorough { 96 << 20 } else { 20 << 20 };
    let per = 1 + rng.usize_below(if writers > 16 { 3 } else { 5 });
    (0..writers).map(|_| (0..per).map(|_| g.sized(rng, &mut left, thorough)).collect()).collect()
}

fn shape_hash(ws: &[Vec<Op>], extra: u64) -> u64 {
    let shape: Vec<Vec<(bool, u8)>> = ws.iter().map(|w| w.iter().map(|o| (o.notify, size_class(o.len))).collect()).collect();
    hash_of(&(shape, extra))
}

pub(super) fn stall_plan(rng: &mut Rng, total: u64) -> Vec<(u64, u64)> {
    let n = 2 + rng.usize_below(5);
    let mut v: Vec<(u64, u64)> = (0..n).map(|_| { let at = rng.below(total.max(1)); let long = rng.chance(1, 4); (at, 5 + rng.below(if long { 150 } else { 40 })) }).collect();
    v.sort();
    v
}

pub(super) fn run_op_blocking(c: &repe::Client, op: &Op, call_timeout: Duration) -> Result<(), String> {
    let body = pat_fill(op.token, op.len);
    let path = path_of_op(op);
    if op.notify {
        c.notify_with_formats(&path, 1, Some(&body), 0).map_err(|e| e.to_string())
    } else if op.api == 1 {
        // the capture peer's reply is not a typed array: a decode error after the reply arrived is still a delivered request
        match c.call_typed_slice_with_timeout::<_, u8, u8>(&path, &body, call_timeout) {
            Ok(_) | Err(repe::RepeError::Beve(_)) | Err(repe::RepeError::Json(_)) | Err(repe::RepeError::UnknownEnumValue(_)) | Err(repe::RepeError::UnexpectedBodyFormat { .. }) => Ok(()),
            Err(e) => Err(e.to_string()),
        }
    } else {
        c.call_with_formats_and_timeout(&path, 1, Some(&body), 0, call_timeout).map(|_| ()).map_err(|e| e.to_string())
    }
}

pub(super) fn rcvbuf_choice(rng: &mut Rng, small: bool) -> Option<usize> {
    // below ~32 KiB the loopback path degenerates into persist-timer probing after a stall (minutes per MiB)
    if small { Some(*rng.pick(&[32768usize, 65536, 131072])) } else if rng.coin() { None } else { Some(*rng.pick(&[65536usize, 262144])) }
}

pub(super) fn max_wall(cx: &Cx) -> Duration {
    Duration::from_secs(if cx.thorough { 240 } else { 60 })
}

// ------------------------------------------------------------------------------------------------
// blocking client: concurrent clones, optional seeded reader stalls

pub fn client_concurrent(cx: &Cx, rng: &mut Rng, stall: bool, force_writers: Option<usize>) -> ScenarioOut {
    let mut out = ScenarioOut::new("client", if stall { "stall" } else { "none" }, if stall { "client.stall" } else { "client.healthy" });
    let mut g = Gen::new(rng);
    let writers = force_writers.unwrap_or(1 + rng.usize_below(32));
    let ws = gen_writers(rng, &mut g, writers, cx.thorough);
    let total: u64 = ws.iter().flatten().map(frame_len).sum();
    let rcvbuf = rcvbuf_choice(rng, stall);
    let ctl = Ctl::new();
    let plan = if stall { stall_plan(rng, total) } else { vec![] };
    *ctl.plan.lock().unwrap() = plan.clone();
    out.ident = shape_hash(&ws, hash_of(&(plan.len(), rcvbuf)));
    out.params = json!({"writers": writers, "ops": ws.iter().map(|w| w.len()).sum::<usize>(), "total_bytes": total, "peer_rcvbuf": rcvbuf, "stalls_at_byte_ms": plan,
        "largest_body": ws.iter().flatten().map(|o| o.len).max()});
    let mut book = Book::default();
    ws.iter().flatten().for_each(|o| book.add_by_query(expect_of(o)));
    let (addr, peer) = match start_client_peer(cx.rt, false, rcvbuf, ctl.clone(), rng.fork(1), max_wall(cx)) {
        Ok(x) => x,
        Err(e) => {
            out.trouble.push(format!("peer listen: {e}"));
            return out;
        }
    };
    let client = match repe::Client::connect(addr) {
        Ok(c) => c,
        Err(e) => {
            out.trouble.push(format!("connect: {e}"));
            ctl.finish_when_quiet(10);
            return out;
        }
    };
    let hs: Vec<_> = ws
        .iter()
        .cloned()
        .map(|w| {
            let c = client.clone();
            std::thread::spawn(move || w.iter().map(|op| (op.token, run_op_blocking(&c, op, Duration::from_secs(15)))).collect::<Vec<_>>())
        })
        .collect();
    let mut must = vec![];
    for h in hs {
        match join_bounded(h, Duration::from_secs(120)) {
            Some(rs) => {
                for (tk, r) in rs {
                    out.note_result(&r);
                    if r.is_ok() {
                        must.push(tk);
                    }
                }
            }
            None => out.trouble.push("a writer thread did not finish in 120 s".into()),
        }
    }
    drop(client);
    let (record, end, tr) = peer.finish(cx.rt, &ctl, Duration::from_secs(10), 300);
    out.trouble.extend(tr);
    out.conns.push(ConnOut { label: "conn0".into(), book, must_see: must, record, end, victim: None });
    out
}

// ------------------------------------------------------------------------------------------------
// blocking client: write timeout expires mid-frame against a stalled peer, then FURTHER traffic

pub fn client_write_timeout(cx: &Cx, rng: &mut Rng) -> ScenarioOut {
    let mut out = ScenarioOut::new("client", "write_timeout", "client.write_timeout");
    let mut g = Gen::new(rng);
    let rcvbuf = *rng.pick(&[32768usize, 65536, 131072]);
    let t_ms = rng.range(120, 250);
    // the client's own send buffer autotunes up to tcp_wmem max (4 MiB by default): the interrupted payload must exceed it
    let big_len = if cx.thorough { *rng.pick(&[12usize << 20, 16 << 20, 32 << 20]) } else { *rng.pick(&[12usize << 20, 16 << 20]) } + rng.usize_below(3) - 1;
    let x = 1 + rng.below((big_len as u64 / 2).min(300_000));
    let warm: Vec<Op> = (0..2 + rng.usize_below(4)).map(|_| { let l = rng.usize_below(20_000); g.op(rng.coin(), l) }).collect();
    // the interrupted frame goes out through each kind of entry point: a raw notify, a raw call, or the bulk typed-slice call
    // (whose payload is written by the BEVE encoder, not by write_message)
    // cycled (not drawn) so that the few rounds of a quick run cover every kind; the stage is replayed as a whole
    static BIG_KIND: std::sync::atomic::AtomicU64 = std::sync::atomic::AtomicU64::new(0);
    let big_kind = [3u64, 0, 2, 1][(BIG_KIND.fetch_add(1, SeqCst) % 4) as usize];
    let mut big = g.op(big_kind < 2, big_len);
    big.api = (big_kind == 3) as u8;
    let waiters: Vec<Op> = (0..rng.usize_below(4)).map(|_| { let l = rng.usize_below(3000); g.op(true, l) }).collect();
    let further: Vec<Op> = vec![g.op(true, rng.usize_below(200)), g.op(false, rng.usize_below(2000)), g.op(true, 20_000 + rng.usize_below(20_000))];
    out.ident = hash_of(&(rcvbuf, size_class(big_len), x / 50_000, warm.len(), waiters.len(), big_kind.min(2)));
    let big_api_name = ["notify_with_formats", "notify_with_formats", "call_with_formats", "call_typed_slice"][big_kind as usize];
    out.params = json!({"peer_rcvbuf": rcvbuf, "write_timeout_ms": t_ms, "big_frame_sent_with": big_api_name, "big_notify_body": big_len, "peer_stalls_after_bytes_of_big_frame": x,
        "warmup_ops": warm.len(), "writers_queued_behind_big": waiters.len(), "further_ops": further.len(), "big_token": format!("{:#x}", big.token)});
    let mut book = Book::default();
    warm.iter().chain([&big]).chain(&waiters).chain(&further).for_each(|o| book.add_by_query(expect_of(o)));
    let ctl = Ctl::new();
    let (addr, peer) = match start_client_peer(cx.rt, false, Some(rcvbuf), ctl.clone(), rng.fork(1), max_wall(cx)) {
        Ok(x) => x,
        Err(e) => {
            out.trouble.push(format!("peer listen: {e}"));
            return out;
        }
    };
    let mut must = vec![];
    let mut body = || -> Result<(), String> {
        let client = repe::Client::connect(addr).map_err(|e| format!("connect: {e}"))?;
        client.set_write_timeout(Some(Duration::from_millis(t_ms))).map_err(|e| format!("set_write_timeout: {e}"))?;
        for op in &warm {
            let r = run_op_blocking(&client, op, Duration::from_secs(30));
            out.note_result(&r);
            if r.is_ok() {
                must.push(op.token);
            } else {
                return Err(format!("warm-up op failed: {r:?}"));
            }
        }
        let b0: u64 = warm.iter().map(frame_len).sum();
        if !wait_until(Duration::from_secs(10), || ctl.bytes.load(SeqCst) == b0) {
            return Err(format!("peer recorded {} bytes after warm-up, expected {b0}", ctl.bytes.load(SeqCst)));
        }
        // the peer stops reading once it holds x bytes of the big frame
        ctl.hold_at(b0 + x);
        let hbig = {
            let (c, op) = (client.clone(), big.clone());
            std::thread::spawn(move || run_op_blocking(&c, &op, Duration::from_secs(1)))
        };
        if !wait_until(Duration::from_secs(15), || ctl.stalled.load(SeqCst) || hbig.is_finished()) {
            out.trouble.push("peer never reached the stall point inside the big frame".into());
        }
        // writers queued behind the blocked writer on the same client
        let hw: Vec<_> = waiters
            .iter()
            .cloned()
            .map(|op| {
                let c = client.clone();
                std::thread::spawn(move || (op.token, run_op_blocking(&c, &op, Duration::from_secs(1))))
            })
            .collect();
        let rbig = join_bounded(hbig, Duration::from_secs(30)).ok_or("big write neither completed nor timed out in 30 s")?;
        out.note_result(&rbig);
        out.fault_triggered = Some(rbig.is_err());
        if rbig.is_ok() {
            must.push(big.token);
        }
        for h in hw {
            match join_bounded(h, Duration::from_secs(30)) {
                Some((tk, r)) => {
                    out.note_result(&r);
                    if r.is_ok() {
                        must.push(tk);
                    }
                }
                None => out.trouble.push("queued writer did not return in 30 s".into()),
            }
        }
        // the peer drains everything ...
        ctl.release();
        wait_quiet(&ctl, Duration::from_millis(150), Duration::from_secs(15));
        // ... and the application keeps using the same client
        for op in &further {
            let r = run_op_blocking(&client, op, Duration::from_millis(400));
            out.note_result(&r);
            match &r {
                Ok(()) => {
                    out.further_ok += 1;
                    must.push(op.token);
                }
                Err(_) => out.further_err += 1,
            }
        }
        drop(client);
        Ok(())
    };
    if let Err(e) = body() {
        out.trouble.push(e);
    }
    ctl.release();
    let (record, end, tr) = peer.finish(cx.rt, &ctl, Duration::from_secs(10), 300);
    out.trouble.extend(tr);
    out.conns.push(ConnOut { label: "conn0".into(), book, must_see: must, record, end, victim: Some(big.token) });
    out
}

// ------------------------------------------------------------------------------------------------
// async TCP client and WebSocket client

#[derive(Clone, Copy, PartialEq)]
pub enum AKind {
    Tcp,
    Ws,
}

#[derive(Clone)]
pub(super) enum AClient {
    Tcp(repe::AsyncClient),
    Ws(repe::WebSocketClient),
}

impl AClient {
    pub(super) async fn connect(kind: AKind, addr: std::net::SocketAddr, unlimited: bool) -> Result<AClient, String> {
        match kind {
            AKind::Tcp => repe::AsyncClient::connect(addr).await.map(AClient::Tcp).map_err(|e| e.to_string()),
            AKind::Ws => {
                let url = format!("ws://{addr}/ws");
                let r = if unlimited { repe::WebSocketClient::connect_with_limits(&url, repe::WebSocketLimits::unlimited()).await } else { repe::WebSocketClient::connect(&url).await };
                r.map(AClient::Ws).map_err(|e| e.to_string())
            }
        }
    }
    pub(super) async fn run_op(&self, op: &Op, call_timeout: Duration) -> Result<(), String> {
        let body = pat_fill(op.token, op.len);
        let path = path_of_op(op);
        match (self, op.notify) {
            (AClient::Tcp(c), true) => c.notify_with_formats(&path, 1, Some(&body), 0).await.map_err(|e| e.to_string()),
            (AClient::Tcp(c), false) if op.api == 1 => match c.call_typed_slice_with_timeout::<_, u8, u8>(&path, &body, call_timeout).await {
                Ok(_) | Err(repe::RepeError::Beve(_)) | Err(repe::RepeError::Json(_)) | Err(repe::RepeError::UnknownEnumValue(_)) | Err(repe::RepeError::UnexpectedBodyFormat { .. }) => Ok(()),
                Err(e) => Err(e.to_string()),
            },
            (AClient::Tcp(c), false) => c.call_with_formats_and_timeout(&path, 1, Some(&body), 0, call_timeout).await.map(|_| ()).map_err(|e| e.to_string()),
            (AClient::Ws(c), true) => c.notify_with_formats(&path, 1, Some(&body), 0).await.map_err(|e| e.to_string()),
            (AClient::Ws(c), false) => c.call_with_formats_and_timeout(&path, 1, Some(&body), 0, call_timeout).await.map(|_| ()).map_err(|e| e.to_string()),
        }
    }
}

pub(super) fn ep_name(kind: AKind) -> &'static str {
    if kind == AKind::Tcp { "async_client" } else { "ws_client" }
}

pub fn aclient_concurrent(cx: &Cx, rng: &mut Rng, kind: AKind, stall: bool, force_writers: Option<usize>) -> ScenarioOut {
    let ep = ep_name(kind);
    let mut out = ScenarioOut::new(ep, if stall { "stall" } else { "none" }, &format!("{ep}.{}", if stall { "stall" } else { "healthy" }));
    let mut g = Gen::new(rng);
    g.typed = kind != AKind::Ws;
    let writers = force_writers.unwrap_or(1 + rng.usize_below(32));
    let ws = gen_writers(rng, &mut g, writers, cx.thorough);
    let total: u64 = ws.iter().flatten().map(frame_len).sum();
    let largest = ws.iter().flatten().map(|o| o.len).max().unwrap_or(0);
    let unlimited = largest > (8 << 20) || rng.coin();
    let rcvbuf = rcvbuf_choice(rng, stall);
    let ctl = Ctl::new();
    let plan = if stall { stall_plan(rng, total) } else { vec![] };
    *ctl.plan.lock().unwrap() = plan.clone();
    out.ident = shape_hash(&ws, hash_of(&(plan.len(), rcvbuf, unlimited)));
    out.params = json!({"writers": writers, "ops": ws.iter().map(|w| w.len()).sum::<usize>(), "total_bytes": total, "peer_rcvbuf": rcvbuf, "stalls_at_byte_ms": plan,
        "largest_body": largest, "ws_limits_unlimited": unlimited});
    let mut book = Book::default();
    ws.iter().flatten().for_each(|o| book.add_by_query(expect_of(o)));
    let (addr, peer) = match start_client_peer(cx.rt, kind == AKind::Ws, rcvbuf, ctl.clone(), rng.fork(1), max_wall(cx)) {
        Ok(x) => x,
        Err(e) => {
            out.trouble.push(format!("peer listen: {e}"));
            return out;
        }
    };
    let mut must = vec![];
    let res: Result<(), String> = cx.rt.block_on(async {
        let client = AClient::connect(kind, addr, unlimited).await.map_err(|e| format!("connect: {e}"))?;
        let hs: Vec<_> = ws
            .iter()
            .cloned()
            .map(|w| {
                let c = client.clone();
                tokio::spawn(async move {
                    let mut v = vec![];
                    for op in &w {
                        v.push((op.token, c.run_op(op, Duration::from_secs(15)).await));
                    }
                    v
                })
            })
            .collect();
        for h in hs {
            match tokio::time::timeout(Duration::from_secs(120), h).await {
                Ok(Ok(rs)) => {
                    for (tk, r) in rs {
                        out.note_result(&r);
                        if r.is_ok() {
                            must.push(tk);
                        }
                    }
                }
                Ok(Err(e)) => out.trouble.push(format!("writer task failed: {e}")),
                Err(_) => out.trouble.push("a writer task did not finish in 120 s".into()),
            }
        }
        drop(client);
        tokio::task::yield_now().await;
        Ok(())
    });
    if let Err(e) = res {
        out.trouble.push(e);
    }
    let (record, end, tr) = peer.finish(cx.rt, &ctl, Duration::from_secs(10), 300);
    out.trouble.extend(tr);
    out.conns.push(ConnOut { label: "conn0".into(), book, must_see: must, record, end, victim: None });
    out
}

/// A call is abandoned while its request is being written (task abort / timeout wrapper) against a
/// stalled peer; then the peer drains and the application keeps using the same client.
pub fn aclient_cancel(cx: &Cx, rng: &mut Rng, kind: AKind) -> ScenarioOut {
    let ep = ep_name(kind);
    let mut out = ScenarioOut::new(ep, "cancel_mid_send", &format!("{ep}.cancel_mid_send"));
    let mut g = Gen::new(rng);
    g.typed = kind != AKind::Ws;
    let rcvbuf = *rng.pick(&[32768usize, 65536, 131072]);
    // the client's own send buffer autotunes up to tcp_wmem max (4 MiB by default): the interrupted payload must exceed it
    let big_len = if cx.thorough { *rng.pick(&[12usize << 20, 16 << 20, 32 << 20]) } else { *rng.pick(&[12usize << 20, 16 << 20]) } + rng.usize_below(3) - 1;
    // WebSocket peers see whole messages only: they stop reading before the big message
    let x = if kind == AKind::Ws { 0 } else { 1 + rng.below((big_len as u64 / 2).min(300_000)) };
    let variant_abort = rng.coin();
    let cancel_after_ms = if variant_abort { rng.below(80) } else { rng.range(150, 300) };
    let big_is_call = rng.coin();
    let unlimited = big_len > (8 << 20) || rng.coin();
    let warm: Vec<Op> = (0..2 + rng.usize_below(4)).map(|_| { let l = rng.usize_below(20_000); g.op(rng.coin(), l) }).collect();
    let mut big = g.op(!big_is_call, big_len);
    big.api = (big_is_call && g.typed && rng.coin()) as u8;
    let waiters: Vec<Op> = (0..rng.usize_below(4)).map(|_| { let l = rng.usize_below(3000); g.op(true, l) }).collect();
    let further: Vec<Op> = vec![g.op(true, rng.usize_below(200)), g.op(false, rng.usize_below(2000)), g.op(true, 20_000 + rng.usize_below(20_000))];
    out.ident = hash_of(&(rcvbuf, size_class(big_len), x / 50_000, warm.len(), waiters.len(), variant_abort, big_is_call, big.api));
    out.params = json!({"peer_rcvbuf": rcvbuf, "big_body": big_len, "big_is_call": big_is_call, "big_call_is_typed_slice": big.api == 1, "peer_stalls_after_bytes_of_big_frame": x,
        "cancel": if variant_abort {"JoinHandle::abort"} else {"tokio::time::timeout wrapper"}, "cancel_after_ms": cancel_after_ms,
        "warmup_ops": warm.len(), "writers_queued_behind_big": waiters.len(), "further_ops": further.len(), "big_token": format!("{:#x}", big.token)});
    let mut book = Book::default();
    warm.iter().chain([&big]).chain(&waiters).chain(&further).for_each(|o| book.add_by_query(expect_of(o)));
    let ctl = Ctl::new();
    let (addr, peer) = match start_client_peer(cx.rt, kind == AKind::Ws, Some(rcvbuf), ctl.clone(), rng.fork(1), max_wall(cx)) {
        Ok(x) => x,
        Err(e) => {
            out.trouble.push(format!("peer listen: {e}"));
            return out;
        }
    };
    let mut must = vec![];
    let res: Result<(), String> = cx.rt.block_on(async {
        let client = AClient::connect(kind, addr, unlimited).await.map_err(|e| format!("connect: {e}"))?;
        for op in &warm {
            let r = client.run_op(op, Duration::from_secs(30)).await;
            out.note_result(&r);
            if r.is_ok() {
                must.push(op.token);
            } else {
                return Err(format!("warm-up op failed: {r:?}"));
            }
        }
        let b0: u64 = warm.iter().map(frame_len).sum();
        if !wait_until_async(Duration::from_secs(10), || ctl.bytes.load(SeqCst) == b0).await {
            return Err(format!("peer recorded {} bytes after warm-up, expected {b0}", ctl.bytes.load(SeqCst)));
        }
        ctl.hold_at(b0 + x);
        if x == 0 && !wait_until_async(Duration::from_secs(10), || ctl.stalled.load(SeqCst)).await {
            return Err("ws peer did not acknowledge the stall".into());
        }
        let hbig = {
            let (c, op) = (client.clone(), big.clone());
            let wrap = !variant_abort;
            tokio::spawn(async move {
                if wrap {
                    match tokio::time::timeout(Duration::from_millis(cancel_after_ms), c.run_op(&op, Duration::from_secs(30))).await {
                        Ok(r) => Some(r),
                        Err(_) => None, // future dropped mid-flight
                    }
                } else {
                    Some(c.run_op(&op, Duration::from_secs(30)).await)
                }
            })
        };
        if x > 0 && !wait_until_async(Duration::from_secs(15), || ctl.stalled.load(SeqCst) || hbig.is_finished()).await {
            out.trouble.push("peer never reached the stall point inside the big frame".into());
        }
        let hw: Vec<_> = waiters
            .iter()
            .cloned()
            .map(|op| {
                let c = client.clone();
                tokio::spawn(async move { (op.token, c.run_op(&op, Duration::from_secs(30)).await) })
            })
            .collect();
        let completed: Option<Result<(), String>> = if variant_abort {
            tokio::time::sleep(Duration::from_millis(cancel_after_ms)).await;
            hbig.abort();
            match hbig.await {
                Ok(r) => r,
                Err(_) => None,
            }
        } else {
            match tokio::time::timeout(Duration::from_secs(30), hbig).await {
                Ok(Ok(r)) => r,
                _ => None,
            }
        };
        match &completed {
            Some(r) => {
                out.note_result(r);
                if r.is_ok() {
                    must.push(big.token);
                }
                out.fault_triggered = Some(false);
            }
            None => out.fault_triggered = Some(true),
        }
        // the peer drains everything
        ctl.release();
        for h in hw {
            match tokio::time::timeout(Duration::from_secs(30), h).await {
                Ok(Ok((tk, r))) => {
                    out.note_result(&r);
                    if r.is_ok() {
                        must.push(tk);
                    }
                }
                _ => out.trouble.push("queued writer did not return in 30 s".into()),
            }
        }
        wait_quiet_async(&ctl, Duration::from_millis(150), Duration::from_secs(15)).await;
        // FURTHER traffic on the same client
        for op in &further {
            let r = match tokio::time::timeout(Duration::from_secs(10), client.run_op(op, Duration::from_millis(400))).await {
                Ok(r) => r,
                Err(_) => Err("further op did not return in 10 s".to_string()),
            };
            out.note_result(&r);
            match &r {
                Ok(()) => {
                    out.further_ok += 1;
                    must.push(op.token);
                }
                Err(_) => out.further_err += 1,
            }
        }
        wait_quiet_async(&ctl, Duration::from_millis(100), Duration::from_secs(10)).await;
        drop(client);
        tokio::task::yield_now().await;
        Ok(())
    });
    if let Err(e) = res {
        out.trouble.push(e);
    }
    ctl.release();
    let (record, end, tr) = peer.finish(cx.rt, &ctl, Duration::from_secs(10), 300);
    out.trouble.extend(tr);
    out.conns.push(ConnOut { label: "conn0".into(), book, must_see: must, record, end, victim: Some(big.token) });
    out
}

// ------------------------------------------------------------------------------------------------
// MEDIUM-frame streams: the pipe of a stalled peer is filled by back-to-back frames whose sizes
// straddle the 8 KiB write buffer until a write is interrupted; more sends while still stalled; the
// peer drains; FURTHER traffic.

impl Gen {
    fn medium(&mut self, rng: &mut Rng, sum: usize) -> Op {
        self.next += 1;
        let base = path_of(self.next).len();
        let (q, b) = med_split(rng, sum, base);
        // one padding byte is not expressible ("/" + n-1 bytes, n >= 1 is fine; 0 = none)
        Op { token: self.next, notify: true, len: b, qpad: q - base, api: 0 }
    }
}

fn sum_of(op: &Op) -> usize {
    path_of_op(op).len() + op.len
}

fn further_ops(rng: &mut Rng, g: &mut Gen) -> Vec<Op> {
    let w = 8145 + rng.usize_below(48);
    let mut v = vec![g.op(true, rng.usize_below(200)), g.medium(rng, w), g.op(false, rng.usize_below(2000)), g.op(true, 8000 + rng.usize_below(400)), g.op(true, 20_000 + rng.usize_below(20_000))];
    if rng.coin() {
        v.swap(0, 1);
    }
    v
}

/// Blocking client with `set_write_timeout`: 1..3 clones stream medium notifies back-to-back to a
/// stalled peer until a write times out; `extra` more sends are attempted while the peer is still
/// stalled (other threads / a retrying caller); then the peer drains and the client is used further.
pub fn client_medium_stream(cx: &Cx, rng: &mut Rng) -> ScenarioOut {
    let mut out = ScenarioOut::new("client", "write_timeout", "client.write_timeout.medium_stream");
    let mut g = Gen::new(rng);
    let rcvbuf = *rng.pick(&[32768usize, 65536, 131072]);
    let t_ms = rng.range(70, 160);
    let writers = 1 + rng.usize_below(3);
    let extra = *rng.pick(&[0u64, 1, 1, 2, 2, 3, 4]);
    let x = rng.below(30_000);
    // the client's own send buffer autotunes up to tcp_wmem max (4 MiB by default): enough frames to exceed it
    let n = if cx.thorough { 2600 } else { 1500 };
    let warm: Vec<Op> = (0..1 + rng.usize_below(3)).map(|_| { let l = rng.usize_below(9000); g.op(rng.coin(), l) }).collect();
    let sums = med_sums(rng, n);
    let stream: Vec<Op> = sums.iter().map(|s| g.medium(rng, *s)).collect();
    let further = further_ops(rng, &mut g);
    out.ident = hash_of(&("medium", rcvbuf, writers, extra, x / 8192, sums[..16].to_vec()));
    out.params = json!({"peer_rcvbuf": rcvbuf, "write_timeout_ms": t_ms, "concurrent_clones_streaming": writers, "sends_attempted_after_first_timeout_while_stalled": extra,
        "peer_stalls_after_bytes_of_stream": x, "stream_frames_available": n, "warmup_ops": warm.len(), "further_ops": further.len()});
    let mut book = Book::default();
    warm.iter().chain(&stream).chain(&further).for_each(|o| book.add_by_query(expect_of(o)));
    let ctl = Ctl::new();
    let (addr, peer) = match start_client_peer(cx.rt, false, Some(rcvbuf), ctl.clone(), rng.fork(1), max_wall(cx)) {
        Ok(x) => x,
        Err(e) => {
            out.trouble.push(format!("peer listen: {e}"));
            return out;
        }
    };
    let mut must = vec![];
    let mut med = MedEvidence::default();
    let mut victim = None;
    let mut body = || -> Result<(), String> {
        let client = repe::Client::connect(addr).map_err(|e| format!("connect: {e}"))?;
        client.set_write_timeout(Some(Duration::from_millis(t_ms))).map_err(|e| format!("set_write_timeout: {e}"))?;
        for op in &warm {
            let r = run_op_blocking(&client, op, Duration::from_secs(30));
            out.note_result(&r);
            if r.is_ok() {
                must.push(op.token);
            } else {
                return Err(format!("warm-up op failed: {r:?}"));
            }
        }
        let b0: u64 = warm.iter().map(frame_len).sum();
        if !wait_until(Duration::from_secs(10), || ctl.bytes.load(SeqCst) == b0) {
            return Err(format!("peer recorded {} bytes after warm-up, expected {b0}", ctl.bytes.load(SeqCst)));
        }
        ctl.hold_at(b0 + x);
        let failures = Arc::new(std::sync::atomic::AtomicU64::new(0));
        let order = Arc::new(std::sync::atomic::AtomicU64::new(0));
        let hs: Vec<_> = (0..writers)
            .map(|wi| {
                let c = client.clone();
                let mine: Vec<Op> = stream.iter().skip(wi).step_by(writers).cloned().collect();
                let (failures, order) = (failures.clone(), order.clone());
                std::thread::spawn(move || {
                    let mut v = vec![];
                    for op in &mine {
                        if failures.load(SeqCst) > extra {
                            break;
                        }
                        let seq = order.fetch_add(1, SeqCst);
                        let after = failures.load(SeqCst) > 0;
                        let r = run_op_blocking(&c, op, Duration::from_secs(1));
                        if r.is_err() {
                            failures.fetch_add(1, SeqCst);
                        }
                        v.push((seq, after, op.clone(), r));
                    }
                    v
                })
            })
            .collect();
        let mut all = vec![];
        for h in hs {
            match join_bounded(h, Duration::from_secs(60)) {
                Some(v) => all.extend(v),
                None => out.trouble.push("a streaming writer did not return in 60 s".into()),
            }
        }
        all.sort_by_key(|x| x.0);
        for (_, after, op, r) in &all {
            out.note_result(r);
            med.stream_sums.push(sum_of(op));
            if *after {
                med.sends_after_first_interruption += 1;
            }
            match r {
                Ok(()) => must.push(op.token),
                Err(_) => {
                    if victim.is_none() {
                        victim = Some(op.token);
                        med.frames_before_interruption = med.stream_sums.len() as u64 - 1;
                    }
                    med.interrupted_sums.push(sum_of(op));
                }
            }
        }
        if std::env::var_os("C05_DEBUG_MED").is_some() {
            for (seq, after, op, r) in &all {
                if *after || r.is_err() {
                    eprintln!("   seq={seq} after={after} q={} b={} sum={} -> {:?}", path_of_op(op).len(), op.len, sum_of(op), r);
                }
            }
        }
        out.fault_triggered = Some(victim.is_some());
        if victim.is_none() {
            out.trouble.push(format!("no write timed out although {} medium frames were streamed to the stalled peer", all.len()));
        }
        // the peer drains everything ...
        ctl.release();
        wait_quiet(&ctl, Duration::from_millis(150), Duration::from_secs(15));
        // ... and the application keeps using the same client
        for op in &further {
            let r = run_op_blocking(&client, op, Duration::from_millis(400));
            out.note_result(&r);
            match &r {
                Ok(()) => {
                    out.further_ok += 1;
                    must.push(op.token);
                }
                Err(_) => out.further_err += 1,
            }
        }
        wait_quiet(&ctl, Duration::from_millis(100), Duration::from_secs(10));
        drop(client);
        Ok(())
    };
    if let Err(e) = body() {
        out.trouble.push(e);
    }
    ctl.release();
    let (record, end, tr) = peer.finish(cx.rt, &ctl, Duration::from_secs(10), 300);
    out.trouble.extend(tr);
    out.params["frames_before_first_timeout"] = json!(med.frames_before_interruption);
    out.params["interrupted_frames_query_plus_body"] = json!(med.interrupted_sums);
    out.params["interrupted_in_window"] = json!(med.interrupted_sums.iter().filter(|s| WINDOW.contains(s)).count());
    out.med = Some(med);
    out.conns.push(ConnOut { label: "conn0".into(), book, must_see: must, record, end, victim });
    out
}

/// AsyncClient / WebSocketClient: tasks stream medium notifies to a stalled peer until the pipe is
/// full and a send is stuck mid-frame; that send is abandoned (JoinHandle::abort, or a
/// tokio::time::timeout wrapper around every send); `extra` more sends (each under a timeout
/// wrapper) are attempted while still stalled; then the peer drains and the client is used further.
pub fn aclient_medium_stream(cx: &Cx, rng: &mut Rng, kind: AKind) -> ScenarioOut {
    let ep = ep_name(kind);
    let mut out = ScenarioOut::new(ep, "cancel_mid_send", &format!("{ep}.cancel_mid_send.medium_stream"));
    let mut g = Gen::new(rng);
    g.typed = kind != AKind::Ws;
    let rcvbuf = *rng.pick(&[32768usize, 65536, 131072]);
    let variant_abort = rng.coin();
    let t_ms = rng.range(70, 160);
    let writers = 1 + rng.usize_below(3);
    let extra = *rng.pick(&[0u64, 1, 1, 2, 2, 3, 4]);
    // WebSocket peers see whole messages only: they stop reading before the stream
    let x = if kind == AKind::Ws { 0 } else { rng.below(30_000) };
    let n = if cx.thorough { 2600 } else { 1500 };
    let warm: Vec<Op> = (0..1 + rng.usize_below(3)).map(|_| { let l = rng.usize_below(9000); g.op(rng.coin(), l) }).collect();
    let sums = med_sums(rng, n);
    let stream: Vec<Op> = sums.iter().map(|s| g.medium(rng, *s)).collect();
    let further = further_ops(rng, &mut g);
    out.ident = hash_of(&("medium", rcvbuf, writers, extra, x / 8192, variant_abort, sums[..16].to_vec()));
    out.params = json!({"peer_rcvbuf": rcvbuf, "cancel": if variant_abort {"JoinHandle::abort of the stuck streaming tasks"} else {"tokio::time::timeout wrapper around every send"},
        "send_timeout_ms": t_ms, "concurrent_tasks_streaming": writers, "sends_attempted_after_first_cancel_while_stalled": extra,
        "peer_stalls_after_bytes_of_stream": x, "stream_frames_available": n, "warmup_ops": warm.len(), "further_ops": further.len()});
    let mut book = Book::default();
    warm.iter().chain(&stream).chain(&further).for_each(|o| book.add_by_query(expect_of(o)));
    let ctl = Ctl::new();
    let (addr, peer) = match start_client_peer(cx.rt, kind == AKind::Ws, Some(rcvbuf), ctl.clone(), rng.fork(1), max_wall(cx)) {
        Ok(x) => x,
        Err(e) => {
            out.trouble.push(format!("peer listen: {e}"));
            return out;
        }
    };
    let mut must = vec![];
    let mut med = MedEvidence::default();
    let mut victim = None;
    // per submitted op: (sequence, sent after the first interruption, op, None = abandoned in flight)
    type Slot = (u64, bool, Op, Option<Result<(), String>>);
    let res: Result<(), String> = cx.rt.block_on(async {
        let client = AClient::connect(kind, addr, true).await.map_err(|e| format!("connect: {e}"))?;
        for op in &warm {
            let r = client.run_op(op, Duration::from_secs(30)).await;
            out.note_result(&r);
            if r.is_ok() {
                must.push(op.token);
            } else {
                return Err(format!("warm-up op failed: {r:?}"));
            }
        }
        let b0: u64 = warm.iter().map(frame_len).sum();
        if !wait_until_async(Duration::from_secs(10), || ctl.bytes.load(SeqCst) == b0).await {
            return Err(format!("peer recorded {} bytes after warm-up, expected {b0}", ctl.bytes.load(SeqCst)));
        }
        ctl.hold_at(b0 + x);
        if x == 0 && !wait_until_async(Duration::from_secs(10), || ctl.stalled.load(SeqCst)).await {
            return Err("peer did not acknowledge the stall".into());
        }
        let failures = Arc::new(std::sync::atomic::AtomicU64::new(0));
        let order = Arc::new(std::sync::atomic::AtomicU64::new(0));
        let progress = Arc::new(std::sync::atomic::AtomicU64::new(0));
        let log: Arc<std::sync::Mutex<Vec<Slot>>> = Arc::new(std::sync::Mutex::new(vec![]));
        // with the abort variant the streaming tasks send bare (they get stuck); `extra` sends follow from a second phase
        let hs: Vec<_> = (0..writers)
            .map(|wi| {
                let c = client.clone();
                let mine: Vec<Op> = stream[..n - 8].iter().skip(wi).step_by(writers).cloned().collect();
                let (failures, order, progress, log) = (failures.clone(), order.clone(), progress.clone(), log.clone());
                tokio::spawn(async move {
                    for op in mine {
                        if failures.load(SeqCst) > if variant_abort { 0 } else { extra } {
                            break;
                        }
                        let seq = order.fetch_add(1, SeqCst);
                        let after = failures.load(SeqCst) > 0;
                        let idx = {
                            let mut l = log.lock().unwrap();
                            l.push((seq, after, op.clone(), None));
                            l.len() - 1
                        };
                        let r = if variant_abort {
                            Some(c.run_op(&op, Duration::from_secs(30)).await)
                        } else {
                            tokio::time::timeout(Duration::from_millis(t_ms), c.run_op(&op, Duration::from_secs(30))).await.ok()
                        };
                        progress.fetch_add(1, SeqCst);
                        if !matches!(r, Some(Ok(()))) {
                            failures.fetch_add(1, SeqCst);
                        }
                        log.lock().unwrap()[idx].3 = r;
                    }
                })
            })
            .collect();
        if variant_abort {
            // stuck = the peer is stalled and no send completed for a while (pipe full, a writer parked mid-frame)
            let mut last = (progress.load(SeqCst), std::time::Instant::now());
            let t0 = std::time::Instant::now();
            loop {
                tokio::time::sleep(Duration::from_millis(5)).await;
                let p = progress.load(SeqCst);
                if p != last.0 {
                    last = (p, std::time::Instant::now());
                }
                let all_done = hs.iter().all(|h| h.is_finished());
                if all_done || (ctl.stalled.load(SeqCst) && last.1.elapsed() >= Duration::from_millis(t_ms)) || t0.elapsed() > Duration::from_secs(30) {
                    break;
                }
            }
            for h in &hs {
                h.abort();
            }
            failures.fetch_add(1, SeqCst);
        }
        for h in hs {
            match tokio::time::timeout(Duration::from_secs(60), h).await {
                Ok(_) => {}
                Err(_) => out.trouble.push("a streaming task did not end in 60 s".into()),
            }
        }
        if variant_abort {
            // more sends while the peer is still stalled, each abandoned by a timeout wrapper if it gets stuck
            // (the last 8 frames of the list are reserved for this phase: never handed to a streaming task)
            for op in stream[n - 8..].iter().take(extra as usize) {
                let seq = order.fetch_add(1, SeqCst);
                let r = tokio::time::timeout(Duration::from_millis(t_ms), client.run_op(op, Duration::from_secs(30))).await.ok();
                log.lock().unwrap().push((seq, true, op.clone(), r));
            }
        }
        let mut all: Vec<Slot> = std::mem::take(&mut *log.lock().unwrap());
        all.sort_by_key(|x| x.0);
        for (_, after, op, r) in &all {
            med.stream_sums.push(sum_of(op));
            if *after {
                med.sends_after_first_interruption += 1;
            }
            match r {
                Some(Ok(())) => {
                    out.ops_ok += 1;
                    must.push(op.token);
                }
                other => {
                    if let Some(r) = other {
                        out.note_result(r);
                    }
                    if other.is_none() && victim.is_none() {
                        victim = Some(op.token);
                        med.frames_before_interruption = med.stream_sums.len() as u64 - 1;
                    }
                    if other.is_none() {
                        med.interrupted_sums.push(sum_of(op));
                    }
                }
            }
        }
        out.fault_triggered = Some(victim.is_some());
        if victim.is_none() {
            out.trouble.push(format!("no send was abandoned in flight although {} medium frames were streamed to the stalled peer", all.len()));
        }
        // the peer drains everything
        ctl.release();
        wait_quiet_async(&ctl, Duration::from_millis(150), Duration::from_secs(15)).await;
        // FURTHER traffic on the same client
        for op in &further {
            let r = match tokio::time::timeout(Duration::from_secs(10), client.run_op(op, Duration::from_millis(400))).await {
                Ok(r) => r,
                Err(_) => Err("further op did not return in 10 s".to_string()),
            };
            out.note_result(&r);
            match &r {
                Ok(()) => {
                    out.further_ok += 1;
                    must.push(op.token);
                }
                Err(_) => out.further_err += 1,
            }
        }
        wait_quiet_async(&ctl, Duration::from_millis(100), Duration::from_secs(10)).await;
        drop(client);
        tokio::task::yield_now().await;
        Ok(())
    });
    if let Err(e) = res {
        out.trouble.push(e);
    }
    ctl.release();
    let (record, end, tr) = peer.finish(cx.rt, &ctl, Duration::from_secs(10), 300);
    out.trouble.extend(tr);
    out.params["frames_before_first_cancel"] = json!(med.frames_before_interruption);
    out.params["interrupted_frames_query_plus_body"] = json!(med.interrupted_sums);
    out.params["interrupted_in_window"] = json!(med.interrupted_sums.iter().filter(|s| WINDOW.contains(s)).count());
    out.med = Some(med);
    out.conns.push(ConnOut { label: "conn0".into(), book, must_see: must, record, end, victim });
    out
}

#[allow(dead_code)]
fn _unused(_: Arc<Ctl>) {}
