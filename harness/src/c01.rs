//! C01 — canonical 48-byte layout, lossless round trip, one encoding (in-process routes).
//! Oracle: oracle.rs spec codec. Every emission route is compared with the spec frame and
//! therefore pairwise with every other route; every parser is fed the emitted bytes.

use crate::common::*;
use crate::oracle::{self, SpecHeader};
use repe::{Header, Message, MessageView};
use serde_json::json;
use std::io::{Read, Write};

pub struct ChunkyWriter {
    pub out: Vec<u8>,
    rng: Rng,
    max: usize,
}
impl ChunkyWriter {
    pub fn new(rng: Rng, max: usize) -> Self {
        ChunkyWriter { out: vec![], rng, max: max.max(1) }
    }
}
impl Write for ChunkyWriter {
    fn write(&mut self, b: &[u8]) -> std::io::Result<usize> {
        if b.is_empty() {
            return Ok(0);
        }
        let n = 1 + self.rng.usize_below(self.max.min(b.len()));
        self.out.extend_from_slice(&b[..n]);
        Ok(n)
    }
    fn flush(&mut self) -> std::io::Result<()> {
        Ok(())
    }
}

/// Accepts `fail_after` bytes, then fails every write with `kind` (a peer that went away, a non-blocking sink, a write timeout).
pub struct FailingWriter {
    pub accepted: usize,
    fail_after: usize,
    kind: std::io::ErrorKind,
}
impl Write for FailingWriter {
    fn write(&mut self, b: &[u8]) -> std::io::Result<usize> {
        if self.accepted >= self.fail_after {
            return Err(std::io::Error::new(self.kind, "harness: sink failed"));
        }
        let n = b.len().min(self.fail_after - self.accepted).min(4096);
        self.accepted += n;
        Ok(n)
    }
    fn flush(&mut self) -> std::io::Result<()> {
        Ok(())
    }
}

/// Writes everything, but every `every`-th call first reports EINTR (which `write_all` must retry without losing or repeating bytes).
pub struct InterruptedWriter {
    pub out: Vec<u8>,
    calls: u32,
    every: u32,
}
impl Write for InterruptedWriter {
    fn write(&mut self, b: &[u8]) -> std::io::Result<usize> {
        self.calls += 1;
        if self.calls % self.every == 0 {
            return Err(std::io::Error::new(std::io::ErrorKind::Interrupted, "harness: EINTR"));
        }
        let n = b.len().min(1 + (self.calls as usize * 37) % 3000);
        self.out.extend_from_slice(&b[..n]);
        Ok(n)
    }
    fn flush(&mut self) -> std::io::Result<()> {
        Ok(())
    }
}

pub struct ChunkyReader<'a> {
    data: &'a [u8],
    pos: usize,
    rng: Rng,
    max: usize,
}
impl<'a> ChunkyReader<'a> {
    pub fn new(data: &'a [u8], rng: Rng, max: usize) -> Self {
        ChunkyReader { data, pos: 0, rng, max: max.max(1) }
    }
    pub fn consumed(&self) -> usize {
        self.pos
    }
}
impl Read for ChunkyReader<'_> {
    fn read(&mut self, b: &mut [u8]) -> std::io::Result<usize> {
        let left = self.data.len() - self.pos;
        if left == 0 || b.is_empty() {
            return Ok(0);
        }
        let n = 1 + self.rng.usize_below(self.max.min(left).min(b.len()));
        b[..n].copy_from_slice(&self.data[self.pos..self.pos + n]);
        self.pos += n;
        Ok(n)
    }
}

const LEN_CLASSES: [usize; 14] = [0, 1, 2, 7, 8, 47, 48, 49, 255, 8191, 8192, 8193, 65535, 65536];

fn pick_len(rng: &mut Rng, cap: usize) -> (usize, usize) {
    // returns (len, class index)
    let (l, c) = match rng.below(3) {
        0 => {
            let i = rng.usize_below(LEN_CLASSES.len());
            (LEN_CLASSES[i], i)
        }
        1 => (rng.usize_below(64), 100),
        _ => (rng.usize_below(cap + 1), 101),
    };
    (l.min(cap), c)
}

fn gen_header(rng: &mut Rng) -> SpecHeader {
    SpecHeader {
        length: rng.boundary_u64(),
        spec: if rng.chance(1, 8) { rng.boundary_u16() } else { oracle::SPEC },
        version: rng.boundary_u8(),
        notify: rng.boundary_u8(),
        reserved: rng.boundary_u32(),
        id: rng.boundary_u64(),
        query_length: rng.boundary_u64(),
        body_length: rng.boundary_u64(),
        query_format: rng.boundary_u16(),
        body_format: rng.boundary_u16(),
        ec: rng.boundary_u32(),
    }
}

fn body_with_capacity(b: &[u8], total: usize, rel: u64) -> Vec<u8> {
    // rel: 0 => cap == len (usually below total), 1 => total-1, 2 => total, 3 => total+1, 4 => 2*total
    let cap = match rel {
        0 => b.len(),
        1 => total.saturating_sub(1).max(b.len()),
        2 => total,
        3 => total + 1,
        _ => 2 * total,
    };
    let mut v = Vec::with_capacity(cap);
    v.extend_from_slice(b);
    v
}

/// (0) Error responses for requests whose QUERY bytes are arbitrary (not UTF-8, embedded NUL, a nested frame image, ...)
/// under several query-format codes, through the owned and the borrowed server-side error routes: the public owned
/// constructor `create_error_response_like`, a router's JSON handler that returns an application error / rejects the body
/// called through `HandlerErased::handle` (owned request) and through `HandlerErased::handle_view` (borrowed request; the
/// query-less response is framed with the borrowed request query by the public streaming writer, as the transports do).
/// The emitted frame must equal the spec frame of the logical response: canonical v1 header with the request's id, the
/// error code, UTF-8 body format, the REQUEST'S QUERY BYTES VERBATIM and the message as body (the query-format code of an
/// error response is not prescribed by the statement: the emitted one is taken over).
fn error_routes(rep: &mut Report, args: &Args, miri: bool, rng: &mut Rng) {
    use repe::server::Router;
    use repe::{CallContext, ErrorCode};
    let nested = oracle::frame(SpecHeader { spec: oracle::SPEC, version: 1, id: 7, query_format: 1, body_format: 2, ..Default::default() }, b"/inner", b"{\"x\":1}");
    let mut queries: Vec<(&'static str, Vec<u8>)> = vec![
        ("empty", vec![]),
        ("ascii", b"/plain/path".to_vec()),
        ("utf8-multibyte", "/é€😀/größe".as_bytes().to_vec()),
        ("byte-ff", vec![0xFF]),
        ("ff-inside-path", b"/a\xFFb".to_vec()),
        ("truncated-2-byte", b"/caf\xC3".to_vec()),
        ("truncated-3-byte", vec![0xE2, 0x82]),
        ("truncated-4-byte", b"/x\xF0\x9F\x98".to_vec()),
        ("encoded-surrogate", b"/\xED\xA0\x80x".to_vec()),
        ("overlong", vec![0xC0, 0xAF]),
        ("lone-continuation", vec![0x80, 0x80, b'/']),
        ("embedded-nul", b"/a\0b\0".to_vec()),
        ("nested-frame", nested),
    ];
    for (name, len) in [("random-1", 1usize), ("random-47", 47), ("random-48", 48), ("random-49", 49), ("random-255", 255), ("random-8192", 8192)] {
        if !(miri && len > 64) {
            queries.push((name, rng.bytes(len)));
        }
    }
    if miri {
        // under Miri every frame costs ~0.4 s: four of the non-UTF-8 classes (chosen by the seed), one query-format code
        // each, and the three routes that differ in kind (owned constructor, owned handler error, borrowed handler error)
        let mut hostile: Vec<(&'static str, Vec<u8>)> = queries.into_iter().filter(|(_, q)| std::str::from_utf8(q).is_err() && q.len() <= 64).collect();
        rng.shuffle(&mut hostile);
        hostile.truncate(4);
        queries = hostile;
    }
    let err_code = ErrorCode::ApplicationErrorBase;
    let err_msg = "c01: scripted handler error — ünï";
    let router = Router::new().with_json("/e", move |_v| Err((err_code, err_msg.to_string())));
    let Some(handler) = router.get("/e") else {
        rep.inconclusive("error routes: the router does not return the handler just registered");
        return;
    };
    let qfs: Vec<u16> = if miri { vec![*rng.pick(&[0u16, 1, 0xFFFF])] } else { vec![0, 1, 2, 0x00FF, 0x8000, 0xFFFF, rng.boundary_u16()] };
    let codes = [ErrorCode::InvalidBody, ErrorCode::InternalError, ErrorCode::MethodNotFound, ErrorCode::ApplicationErrorBase];
    for (qi, (qname, q)) in queries.iter().enumerate() {
        let valid_utf8 = std::str::from_utf8(q).is_ok();
        for (fi, &qf) in qfs.iter().enumerate() {
            let id = rng.boundary_u64();
            let code = codes[(qi + fi) % codes.len()];
            let msg = if (qi + fi) % 3 == 0 { String::new() } else { format!("error text {qi}/{fi} ✓") };
            // the request: a JSON body for the handler-error routes, an unknown body format for the bad-body routes
            let good = Message::builder().id(id).query_format_code(qf).query_bytes(q.clone()).body_format_code(2).body_bytes(b"{\"k\":1}".to_vec()).build();
            let bad = Message::builder().id(id).query_format_code(qf).query_bytes(q.clone()).body_format_code(0x7777).body_bytes(vec![1, 2, 3]).build();
            let (good_bytes, bad_bytes) = (good.to_vec(), bad.to_vec());
            // route -> (emitted frame, expected ec, expected body; None = taken from the emitted response)
            type Emitted = (Vec<u8>, Option<u32>, Option<Vec<u8>>);
            let mut routes: Vec<(&'static str, Result<Result<Emitted, String>, String>)> = vec![];
            routes.push(("create_error_response_like/to_vec", catching(|| Ok((repe::message::create_error_response_like(&good, code, &msg).to_vec(), Some(u32::from(code)), Some(msg.as_bytes().to_vec()))))));
            if !miri {
                routes.push(("create_error_response_like/into_wire_bytes", catching(|| Ok((repe::message::create_error_response_like(&bad, code, &msg).into_wire_bytes(), Some(u32::from(code)), Some(msg.as_bytes().to_vec()))))));
            }
            routes.push(("owned-handler-error", catching(|| handler.handle(&good).map(|m| (m.to_vec(), Some(u32::from(err_code)), Some(err_msg.as_bytes().to_vec()))).map_err(|e| e.to_string()))));
            if !miri {
                routes.push(("owned-handler-bad-body", catching(|| handler.handle(&bad).map(|m| (m.to_vec(), None, None)).map_err(|e| e.to_string()))));
            }
            let via_view = |bytes: &[u8], ec: Option<u32>, body: Option<Vec<u8>>| -> Result<Emitted, String> {
                let view = MessageView::from_slice_exact(bytes).map_err(|e| e.to_string())?;
                let resp = handler.handle_view(&view, &CallContext::detached("/e")).map_err(|e| e.to_string())?;
                let echo: &[u8] = if resp.query.is_empty() { view.query } else { &resp.query };
                let mut out = vec![];
                repe::write_message_streaming(&mut out, resp.header, echo, resp.body.len() as u64, |w| w.write_all(&resp.body)).map_err(|e| e.to_string())?;
                Ok((out, ec, body))
            };
            routes.push(("borrowed-handler-error", catching(|| via_view(&good_bytes, Some(u32::from(err_code)), Some(err_msg.as_bytes().to_vec())))));
            if !miri {
                routes.push(("borrowed-handler-bad-body", catching(|| via_view(&bad_bytes, None, None))));
            }
            for (route, got) in routes {
                rep.eval();
                rep.count("error_route_frames", 1);
                if !valid_utf8 {
                    rep.count("error_route_frames_non_utf8_query", 1);
                }
                rep.distinct(&("error-route", route, *qname, qf.min(3)));
                let desc = json!({"stage": "error-routes", "seed": args.seed, "route": route, "query_class": qname, "query_hex": hex_trunc(q, 64), "query_format": qf, "request_id": id});
                match got {
                    Ok(Ok((bytes, ec, body))) => {
                        if bytes.len() < 48 {
                            rep.violation(format!("C01:error-route:{route}:short-frame"), format!("{route} emitted {} bytes", bytes.len()), desc);
                            continue;
                        }
                        let g = SpecHeader::decode(&bytes);
                        let body = body.unwrap_or_else(|| bytes[(48 + g.query_length as usize).min(bytes.len())..].to_vec());
                        let want = oracle::frame(SpecHeader { spec: oracle::SPEC, version: 1, notify: 0, reserved: 0, id, query_format: g.query_format, body_format: 3, ec: ec.unwrap_or(g.ec), ..Default::default() }, q, &body);
                        if bytes != want {
                            let field = first_diff_field(&bytes, &want);
                            let utf = if valid_utf8 { "utf8-query" } else { "non-utf8-query" };
                            rep.violation(
                                format!("C01:error-route:{route}:{utf}:{field}"),
                                format!("{route}: the error response to a request with query {} ({qname}, query format {qf}) differs from the spec frame that echoes the query verbatim in `{field}`: got {} bytes, header {g:?}, query part {}; want {} bytes, query part {}", hex_trunc(q, 32), bytes.len(), hex_trunc(&bytes[48..(48 + g.query_length as usize).min(bytes.len())], 32), want.len(), hex_trunc(q, 32)),
                                desc,
                            );
                        }
                    }
                    Ok(Err(e)) => rep.violation(format!("C01:error-route:{route}:no-frame"), format!("{route} returned an error instead of an error response: {e}"), desc),
                    Err(p) => rep.violation(format!("C01:error-route:{route}:panic"), p, desc),
                }
            }
        }
    }
}

fn first_diff_field(got: &[u8], want: &[u8]) -> &'static str {
    let (g, w) = (SpecHeader::decode(got), SpecHeader::decode(want));
    if g.id != w.id {
        "id"
    } else if g.query_length != w.query_length {
        "query_length"
    } else if g.length != w.length {
        "length"
    } else if g.body_length != w.body_length {
        "body_length"
    } else if g.encode() != w.encode() {
        "header"
    } else if got.len() != want.len() {
        "frame-size"
    } else {
        let ql = (w.query_length as usize).min(got.len() - 48);
        if got[48..48 + ql] != want[48..48 + ql] { "query" } else { "body" }
    }
}

pub fn run(args: &Args) -> Report {
    #[cfg(feature = "net")]
    if args.stage == "c01cli" {
        return crate::c01_cli::run(args);
    }
    let mut rep = Report::new(
        args,
        "c01-inproc",
        "random+boundary header fields (all 11 varied jointly), query/body lengths from classes \
         {0,1,2,7,8,47,48,49,255,8191,8192,8193,65535,65536}+random, body capacity relation \
         {len,total-1,total,total+1,2*total}; each case runs every emission route and every parser; \
         distinct = (qlen class, blen class, capacity relation, header field class bits)",
    );
    let miri = args.stage.starts_with("miri");
    let cap = if miri { 300 } else { 65536 };
    let n = args.budget(6_000, 300_000);
    let mut rng = Rng::new(args.seed ^ 0xC01);
    if !miri {
        match oracle::anchor_on_fixtures("/repo/interop/fixtures") {
            Ok(k) => rep.count("oracle_anchored_on_fixtures", k as u64),
            Err(e) => {
                rep.inconclusive(format!("spec oracle not anchored on interop fixtures: {e}"));
                return rep;
            }
        }
    }
    let rt = tokio::runtime::Builder::new_current_thread().build().unwrap();
    quiet_panics(true);
    error_routes(&mut rep, args, miri, &mut rng.fork(0xE44));
    for case in 0..n {
        let mut r = rng.fork(case);
        let hs = gen_header(&mut r);
        rep.eval();

        // (1) Header::encode on arbitrary (even inconsistent) field values.
        let enc = hs.to_repe().encode();
        if enc != hs.encode() {
            rep.violation(
                "C01:header-encode-layout",
                format!("Header::encode differs from spec layout: {hs:?} got {} want {}", hex(&enc), hex(&hs.encode())),
                json!({"case": case, "header": format!("{hs:?}")}),
            );
        }

        // (2) consistent message
        let (ql, qc) = pick_len(&mut r, cap);
        let (bl, bc) = pick_len(&mut r, cap);
        let q = r.bytes(ql);
        let b = r.bytes(bl);
        let mut h = hs;
        h.spec = oracle::SPEC;
        h.query_length = ql as u64;
        h.body_length = bl as u64;
        h.length = 48 + ql as u64 + bl as u64;
        let want = oracle::frame(h, &q, &b);
        let rel = r.below(5);
        rep.distinct(&(qc, bc, rel, h.version > 1, h.notify > 1, h.reserved != 0, h.query_format > 1, h.body_format > 3, h.ec > 9));
        let desc = json!({"case": case, "seed": args.seed, "header": format!("{h:?}"), "qlen": ql, "blen": bl, "cap_rel": rel});
        if case < 3 {
            rep.sample(json!({"header": format!("{h:?}"), "qlen": ql, "blen": bl, "cap_rel": rel, "frame_prefix": hex_trunc(&want, 64)}));
        }
        let msg = match Message::new(h.to_repe(), q.clone(), b.clone()) {
            Ok(m) => m,
            Err(e) => {
                rep.violation("C01:message-new-rejects-consistent", format!("{e}"), desc.clone());
                continue;
            }
        };

        // (2a) a failed emission first (sink fails after k bytes): it must report an error, and must leave nothing behind that
        // changes what the SAME thread emits next — the regular routes below run right after it on this thread.
        if case % 3 == 1 {
            let total = 48 + ql + bl;
            let k = match r.below(5) {
                0 => 0,
                1 => r.usize_below(48),
                2 => 48 + r.usize_below(ql + 1),
                _ => r.usize_below(total),
            };
            let kind = *r.pick(&[std::io::ErrorKind::BrokenPipe, std::io::ErrorKind::WouldBlock, std::io::ErrorKind::TimedOut, std::io::ErrorKind::ConnectionReset]);
            let mut hh = hs.to_repe();
            hh.spec = oracle::SPEC;
            let which = r.below(5);
            let xs: Vec<f64> = (0..bl / 8).map(|i| i as f64).collect();
            let res = catching(|| {
                let mut w = FailingWriter { accepted: 0, fail_after: k, kind };
                let e = match which {
                    0 => msg.write_to(&mut w).is_err(),
                    1 => repe::write_message(&mut w, &msg).is_err(),
                    2 => repe::write_message_streaming(&mut w, hh, &q, bl as u64, |w| w.write_all(&b)).is_err(),
                    3 => repe::write_message_typed_slice(&mut w, hh, &q, &xs).is_err(),
                    _ => repe::write_message_complex_slice(&mut w, hh, &q, &xs.iter().map(|x| repe::Complex { re: *x, im: 0.0 }).collect::<Vec<_>>()).is_err(),
                };
                (e, w.accepted)
            });
            rep.count("failed_emissions_before_the_routes", 1);
            match res {
                Ok((true, _)) => {}
                Ok((false, acc)) if acc < total && which < 3 => rep.violation(format!("C01:failed-write-reported-ok:{which}"), format!("emission route {which} returned Ok although the sink failed after {acc} of {total} bytes ({kind:?})"), desc.clone()),
                Ok(_) => {}
                Err(p) => rep.violation(format!("C01:route:failed-sink:{which}:panic"), p, desc.clone()),
            }
        }

        let mut routes: Vec<(&'static str, Result<Vec<u8>, String>)> = vec![];
        routes.push(("to_vec", catching(|| msg.to_vec())));
        if case % 4 == 2 {
            let every = 2 + r.below(5) as u32;
            routes.push(("write_message/EINTR", catching(|| {
                let mut w = InterruptedWriter { out: vec![], calls: 0, every };
                repe::write_message(&mut w, &msg).unwrap();
                w.out
            })));
            routes.push(("write_message_streaming/EINTR", catching(|| {
                let mut w = InterruptedWriter { out: vec![], calls: 0, every };
                let mut hh = hs.to_repe();
                hh.spec = oracle::SPEC;
                repe::write_message_streaming(&mut w, hh, &q, bl as u64, |w| w.write_all(&b)).unwrap();
                w.out
            })));
            routes.push(("write_to/EINTR", catching(|| {
                let mut w = InterruptedWriter { out: vec![], calls: 0, every };
                msg.write_to(&mut w).unwrap();
                w.out
            })));
        }
        routes.push(("write_to", catching(|| {
            let mut w = ChunkyWriter::new(r.fork(1), 1 + r.usize_below(9000));
            msg.write_to(&mut w).unwrap();
            w.out
        })));
        routes.push(("into_wire_bytes", catching(|| {
            let total = 48 + ql + bl;
            let m = Message { header: msg.header, query: q.clone(), body: body_with_capacity(&b, total, rel) };
            m.into_wire_bytes()
        })));
        routes.push(("write_message", catching(|| {
            let mut w = ChunkyWriter::new(r.fork(2), 1 + r.usize_below(9000));
            repe::write_message(&mut w, &msg).unwrap();
            w.out
        })));
        routes.push(("write_message_streaming", catching(|| {
            let mut w = ChunkyWriter::new(r.fork(3), 1 + r.usize_below(9000));
            // lengths in the passed header are garbage on purpose: the function must overwrite them
            let mut hh = hs.to_repe();
            hh.spec = oracle::SPEC;
            repe::write_message_streaming(&mut w, hh, &q, bl as u64, |w| w.write_all(&b)).unwrap();
            w.out
        })));
        routes.push(("write_message_async", catching(|| {
            rt.block_on(async {
                let mut out: Vec<u8> = vec![];
                repe::async_io::write_message_async(&mut out, &msg).await.unwrap();
                out
            })
        })));
        rep.count("route_emissions", routes.len() as u64);
        for (name, got) in &routes {
            match got {
                Ok(bytes) if *bytes == want => {}
                Ok(bytes) => {
                    let at = bytes.iter().zip(want.iter()).position(|(a, b)| a != b).unwrap_or(bytes.len().min(want.len()));
                    rep.violation(
                        format!("C01:route:{name}"),
                        format!("{name} emitted {} bytes, spec frame {} bytes, first difference at offset {at}: got {} want {}", bytes.len(), want.len(), hex_trunc(&bytes[at.min(bytes.len())..], 16), hex_trunc(&want[at.min(want.len())..], 16)),
                        desc.clone(),
                    );
                }
                Err(p) => rep.violation(format!("C01:route:{name}:panic"), p.clone(), desc.clone()),
            }
        }

        // (3) parsers on the spec frame
        let hw = h.to_repe();
        let mut parsed = 0u64;
        let mut check_msg = |rep: &mut Report, name: &'static str, res: Result<Result<(Header, Vec<u8>, Vec<u8>), String>, String>| {
            parsed += 1;
            match res {
                Ok(Ok((ph, pq, pb))) => {
                    if ph != hw || pq != q || pb != b {
                        rep.violation(format!("C01:parse:{name}"), format!("{name} returned a different message: header {ph:?} (want {hw:?}), query_eq={}, body_eq={}", pq == q, pb == b), desc.clone());
                    }
                }
                Ok(Err(e)) => rep.violation(format!("C01:parse:{name}:rejects"), format!("{name} rejected an emitted frame: {e}"), desc.clone()),
                Err(p) => rep.violation(format!("C01:parse:{name}:panic"), p, desc.clone()),
            }
        };
        check_msg(&mut rep, "Header::decode", catching(|| Header::decode(&want[..48]).map(|x| (x, q.clone(), b.clone())).map_err(|e| e.to_string())));
        check_msg(&mut rep, "Message::from_slice", catching(|| Message::from_slice(&want).map(|m| (m.header, m.query, m.body)).map_err(|e| e.to_string())));
        check_msg(&mut rep, "Message::from_slice_exact", catching(|| Message::from_slice_exact(&want).map(|m| (m.header, m.query, m.body)).map_err(|e| e.to_string())));
        check_msg(&mut rep, "MessageView::from_slice", catching(|| MessageView::from_slice(&want).map(|m| (m.header, m.query.to_vec(), m.body.to_vec())).map_err(|e| e.to_string())));
        check_msg(&mut rep, "MessageView::from_slice_exact", catching(|| MessageView::from_slice_exact(&want).map(|m| (m.header, m.query.to_vec(), m.body.to_vec())).map_err(|e| e.to_string())));
        check_msg(&mut rep, "MessageView::to_message", catching(|| MessageView::from_slice(&want).map(|m| m.to_message()).map(|m| (m.header, m.query, m.body)).map_err(|e| e.to_string())));
        // the same frame followed by more bytes (a pipelined buffer): the non-exact slice parsers must still return exactly this message
        if case % 2 == 0 {
            let mut trail = want.clone();
            let extra = if r.coin() { want[..want.len().min(1 + r.usize_below(120))].to_vec() } else { let k = 1 + r.usize_below(70); r.bytes(k) };
            trail.extend_from_slice(&extra);
            check_msg(&mut rep, "Message::from_slice+trailing", catching(|| Message::from_slice(&trail).map(|m| (m.header, m.query, m.body)).map_err(|e| e.to_string())));
            check_msg(&mut rep, "MessageView::from_slice+trailing", catching(|| MessageView::from_slice(&trail).map(|m| (m.header, m.query.to_vec(), m.body.to_vec())).map_err(|e| e.to_string())));
            check_msg(&mut rep, "MessageView::to_message+trailing", catching(|| MessageView::from_slice(&trail).map(|m| m.to_message()).map(|m| (m.header, m.query, m.body)).map_err(|e| e.to_string())));
        }
        check_msg(&mut rep, "read_message", catching(|| {
            let mut rd = ChunkyReader::new(&want, r.fork(4), 1 + r.usize_below(9000));
            repe::read_message(&mut rd).map(|m| (m.header, m.query, m.body)).map_err(|e| e.to_string())
        }));
        check_msg(&mut rep, "read_message_into", catching(|| {
            let mut rd = ChunkyReader::new(&want, r.fork(5), 1 + r.usize_below(9000));
            // a reused buffer with stale content of another size
            let stale = r.usize_below(200);
            let mut buf = r.bytes(stale);
            repe::read_message_into(&mut rd, &mut buf).map_err(|e| e.to_string()).and_then(|_| {
                if buf != want {
                    return Err("buffer differs from the frame read".to_string());
                }
                MessageView::from_slice_exact(&buf).map(|m| (m.header, m.query.to_vec(), m.body.to_vec())).map_err(|e| e.to_string())
            })
        }));
        check_msg(&mut rep, "read_message_async", catching(|| {
            rt.block_on(async {
                let mut rd: &[u8] = &want;
                repe::async_io::read_message_async(&mut rd).await.map(|m| (m.header, m.query, m.body)).map_err(|e| e.to_string())
            })
        }));
        check_msg(&mut rep, "read_message_into_async", catching(|| {
            rt.block_on(async {
                let mut rd: &[u8] = &want;
                let mut buf = vec![0xAAu8; 7];
                repe::async_io::read_message_into_async(&mut rd, &mut buf).await.map_err(|e| e.to_string()).and_then(|_| {
                    if buf != want {
                        return Err("buffer differs from the frame read".to_string());
                    }
                    MessageView::from_slice_exact(&buf).map(|m| (m.header, m.query.to_vec(), m.body.to_vec())).map_err(|e| e.to_string())
                })
            })
        }));
        rep.count("parses", parsed);

        // (3b) bulk numeric emission routes: streamed typed/complex slice writers vs the buffered builder
        if case % 3 == 0 {
            let n = match r.below(4) {
                0 => 0,
                1 => 1,
                _ => r.usize_below(if miri { 8 } else { 300 }),
            };
            let xs: Vec<f64> = (0..n).map(|_| f64::from_bits(r.next_u64())).collect();
            let us: Vec<u16> = (0..n).map(|_| r.next_u64() as u16).collect();
            let cs: Vec<repe::Complex<f32>> = (0..n).map(|_| repe::Complex { re: f32::from_bits(r.next_u64() as u32), im: 1.5 }).collect();
            let mut hh = hs.to_repe();
            hh.spec = oracle::SPEC;
            let built = |body: Vec<u8>| {
                let mut hb = hh;
                hb.body_format = 1; // BEVE
                oracle::frame(SpecHeader::from_repe(&hb), &q, &body)
            };
            let mut bulk: Vec<(&'static str, Result<Vec<u8>, String>, Vec<u8>)> = vec![];
            bulk.push(("write_message_typed_slice<f64>", catching(|| {
                let mut w = ChunkyWriter::new(r.fork(11), 1 + r.usize_below(5000));
                repe::write_message_typed_slice(&mut w, hh, &q, &xs).unwrap();
                w.out
            }), built(Message::builder().query_bytes(q.clone()).body_typed_slice(&xs).build().body)));
            bulk.push(("write_message_typed_slice<u16>", catching(|| {
                let mut w = ChunkyWriter::new(r.fork(12), 1 + r.usize_below(5000));
                repe::write_message_typed_slice(&mut w, hh, &q, &us).unwrap();
                w.out
            }), built(Message::builder().body_typed_slice(&us).build().body)));
            bulk.push(("write_message_complex_slice<f32>", catching(|| {
                let mut w = ChunkyWriter::new(r.fork(13), 1 + r.usize_below(5000));
                repe::write_message_complex_slice(&mut w, hh, &q, &cs).unwrap();
                w.out
            }), built(Message::builder().body_complex_slice(&cs).build().body)));
            // the buffered builder through into_wire_bytes (its reserved headroom path) must equal to_vec
            let bm = Message::builder().id(h.id).query_bytes(q.clone()).body_typed_slice(&xs).build();
            bulk.push(("typed-slice builder into_wire_bytes", catching(|| bm.clone().into_wire_bytes()), bm.to_vec()));
            for (name, got, want_b) in bulk {
                rep.count("route_emissions", 1);
                match got {
                    Ok(bytes) if bytes == want_b => {}
                    Ok(bytes) => {
                        let at = bytes.iter().zip(want_b.iter()).position(|(a, b)| a != b).unwrap_or(bytes.len().min(want_b.len()));
                        let cls = if n == 0 { "empty" } else { "nonempty" };
                        rep.violation(format!("C01:route:{name}:{cls}"), format!("{name} with {n} elements, query {ql}: {} bytes vs buffered frame {} bytes, first difference at offset {at} ({} vs {})", bytes.len(), want_b.len(), hex_trunc(&bytes[at.min(bytes.len())..], 8), hex_trunc(&want_b[at.min(want_b.len())..], 8)), desc.clone());
                    }
                    Err(p) => rep.violation(format!("C01:route:{name}:panic"), p, desc.clone()),
                }
            }
        }

        // (4) builder route: defaults must produce the v1 canonical header
        if case % 4 == 0 {
            let notify = r.coin();
            let qf = r.boundary_u16();
            let bf = r.boundary_u16();
            let built = catching(|| {
                Message::builder().id(h.id).notify(notify).query_format_code(qf).body_format_code(bf).query_bytes(q.clone()).body_bytes(b.clone()).build()
            });
            match built {
                Ok(m) => {
                    let hb = SpecHeader {
                        length: 0, spec: oracle::SPEC, version: 1, notify: notify as u8, reserved: 0, id: h.id,
                        query_length: 0, body_length: 0, query_format: qf, body_format: bf, ec: 0,
                    };
                    let wantb = oracle::frame(hb, &q, &b);
                    let total = 48 + ql + bl;
                    let viab = Message { header: m.header, query: m.query.clone(), body: body_with_capacity(&m.body, total, rel) }.into_wire_bytes();
                    if m.to_vec() != wantb || viab != wantb {
                        rep.violation("C01:route:builder", format!("builder message differs from the spec frame (to_vec_eq={}, into_wire_eq={})", m.to_vec() == wantb, viab == wantb), desc.clone());
                    }
                    rep.count("builder_frames", 1);
                }
                Err(p) => rep.violation("C01:route:builder:panic", p, desc.clone()),
            }
        }
    }
    quiet_panics(false);
    rep
}
