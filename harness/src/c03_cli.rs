//! C03 helper: raw peers (plain TCP bytes / tokio_tungstenite binary messages). They speak REPE only
//! through oracle.rs. Every read is bounded; the peer half-closes (TCP) / sends Close (WS) once the
//! expected number of responses arrived (or a generous wait expired) and then reads to end-of-stream.

use super::srv::ev_peek;
use crate::common::Rng;
use crate::oracle::{self, Frame, SpecHeader, StreamTail};
use futures_util::{SinkExt, StreamExt};
use std::net::SocketAddr;
use std::sync::Arc;
use std::time::{Duration, Instant};
use tokio::io::{AsyncReadExt, AsyncWriteExt};
use tokio::time::timeout;
use tokio_tungstenite::tungstenite::Message as WsMsg;

pub const CONNECT_T: Duration = Duration::from_secs(10);
pub const WAIT_T: Duration = Duration::from_secs(15);
pub const EOS_T: Duration = Duration::from_secs(10);

#[derive(Debug, Clone, PartialEq)]
pub enum End {
    /// end of stream observed (TCP: read returned 0; WS: stream ended)
    Eos,
    /// the stream ended with a transport error (still an end: nothing can follow)
    Unclean(String),
    /// no end of stream within the bound
    Timeout,
    /// could not connect / harness trouble
    Harness(String),
}

#[derive(Debug)]
pub struct ConnOut {
    pub frames: Vec<Frame>,
    pub end: End,
    /// something in the byte/message stream that is not a sequence of whole REPE frames
    pub garbage: Option<String>,
    /// the wait for the expected responses (or handler events) expired before closing
    pub waited_out: bool,
    pub bytes: usize,
    /// the peer wrote every request completely (no write error, no write timeout)
    pub wrote_all: bool,
}

impl ConnOut {
    fn harness(e: String) -> ConnOut {
        ConnOut { frames: vec![], end: End::Harness(e), garbage: None, waited_out: false, bytes: 0, wrote_all: false }
    }
    pub fn ended(&self) -> bool {
        matches!(self.end, End::Eos | End::Unclean(_))
    }
}

fn count_frames(buf: &[u8], upto: &mut usize, n: &mut usize) {
    loop {
        let rest = &buf[*upto..];
        if rest.len() < oracle::HDR {
            return;
        }
        let h = SpecHeader::decode(rest);
        if !h.consistent() || (h.length as u128) > (1u128 << 30) {
            return;
        }
        if rest.len() < h.length as usize {
            return;
        }
        *upto += h.length as usize;
        *n += 1;
    }
}

pub async fn tcp_conn(addr: SocketAddr, wire: Arc<Vec<Vec<u8>>>, n_expected: usize, early_close: bool, mut rng: Rng) -> ConnOut {
    let stream = match timeout(CONNECT_T, tokio::net::TcpStream::connect(addr)).await {
        Ok(Ok(s)) => s,
        Ok(Err(e)) => return ConnOut::harness(format!("connect: {e}")),
        Err(_) => return ConnOut::harness("connect timeout".into()),
    };
    let _ = stream.set_nodelay(true);
    let (mut rd, mut wr) = stream.into_split();
    let (tx, rx) = tokio::sync::oneshot::channel::<()>();
    let all: Vec<u8> = wire.concat();
    let chunking = rng.below(3);
    let writer = async move {
        let mut off = 0;
        let mut wrote_all = true;
        while off < all.len() {
            let n = match chunking {
                0 => all.len(),
                1 => 1 + rng.usize_below(97),
                _ => 1 + rng.usize_below(4096),
            };
            let end = (off + n).min(all.len());
            match timeout(WAIT_T, wr.write_all(&all[off..end])).await {
                Ok(Ok(())) => {}
                _ => {
                    wrote_all = false;
                    break;
                }
            }
            off = end;
            if chunking == 1 && rng.chance(1, 6) {
                tokio::task::yield_now().await;
            }
        }
        if !early_close {
            let _ = rx.await;
        }
        let _ = wr.shutdown().await; // shutdown(Write): the server sees EOF after the last request
        (wr, wrote_all)
    };
    let reader = async move {
        let mut buf: Vec<u8> = Vec::new();
        let mut tmp = vec![0u8; 16384];
        let (mut upto, mut n) = (0usize, 0usize);
        let mut tx = Some(tx);
        let mut waited_out = false;
        let end;
        loop {
            count_frames(&buf, &mut upto, &mut n);
            if n >= n_expected {
                if let Some(t) = tx.take() {
                    let _ = t.send(());
                }
            }
            let wait = if tx.is_some() { WAIT_T } else { EOS_T };
            match timeout(wait, rd.read(&mut tmp)).await {
                Err(_) => {
                    if let Some(t) = tx.take() {
                        waited_out = true;
                        let _ = t.send(());
                    } else {
                        end = End::Timeout;
                        break;
                    }
                }
                Ok(Ok(0)) => {
                    end = End::Eos;
                    break;
                }
                Ok(Ok(k)) => buf.extend_from_slice(&tmp[..k]),
                Ok(Err(e)) => {
                    end = End::Unclean(e.to_string());
                    break;
                }
            }
        }
        drop(tx);
        (buf, end, waited_out)
    };
    let ((_wr, wrote_all), (buf, end, waited_out)) = tokio::join!(writer, reader);
    let (frames, tail) = oracle::parse_stream(&buf);
    let garbage = match tail {
        StreamTail::Clean => None,
        StreamTail::Partial { at, have, need, .. } => Some(format!("stream ends inside a frame at offset {at}: {have} of {need:?} bytes")),
        StreamTail::Corrupt { at, header } => Some(format!("bytes at offset {at} are not a consistent REPE header: {header:?}")),
    };
    ConnOut { frames, end, garbage, waited_out, bytes: buf.len(), wrote_all }
}

async fn wait_events(sid: u8, keys: &[(u8, u64)]) -> bool {
    let t0 = Instant::now();
    loop {
        if keys.iter().all(|&(k, key)| ev_peek(sid, k, key) >= 1) {
            return true;
        }
        if t0.elapsed() > WAIT_T {
            return false;
        }
        tokio::time::sleep(Duration::from_millis(2)).await;
    }
}

/// `wait_keys`: invocation-log entries the peer waits for (bounded) before sending Close, so that work
/// the server moved off its reader is not cut short by the peer's own Close.
pub async fn ws_conn(addr: SocketAddr, wire: Arc<Vec<Vec<u8>>>, n_expected: usize, sid: u8, wait_keys: Vec<(u8, u64)>) -> ConnOut {
    let url = format!("ws://{addr}/ws");
    let ws = match timeout(CONNECT_T, tokio_tungstenite::connect_async(url)).await {
        Ok(Ok((ws, _))) => ws,
        Ok(Err(e)) => return ConnOut::harness(format!("ws connect: {e}")),
        Err(_) => return ConnOut::harness("ws connect timeout".into()),
    };
    let (mut sink, mut stream) = ws.split();
    let (tx, rx) = tokio::sync::oneshot::channel::<()>();
    let writer = async move {
        let mut wrote_all = true;
        for f in wire.iter() {
            match timeout(WAIT_T, sink.feed(WsMsg::Binary(f.clone()))).await {
                Ok(Ok(())) => {}
                _ => {
                    wrote_all = false;
                    break;
                }
            }
        }
        if !matches!(timeout(WAIT_T, sink.flush()).await, Ok(Ok(()))) {
            wrote_all = false;
        }
        let _ = rx.await;
        let _ = timeout(EOS_T, sink.send(WsMsg::Close(None))).await;
        (sink, wrote_all)
    };
    let reader = async move {
        let mut frames: Vec<Frame> = vec![];
        let mut garbage: Option<String> = None;
        let mut tx = Some(tx);
        let mut waited_out = false;
        let mut bytes = 0usize;
        let end;
        loop {
            if frames.len() >= n_expected && tx.is_some() {
                if !wait_events(sid, &wait_keys).await {
                    waited_out = true;
                }
                if let Some(t) = tx.take() {
                    let _ = t.send(());
                }
            }
            let wait = if tx.is_some() { WAIT_T } else { EOS_T };
            match timeout(wait, stream.next()).await {
                Err(_) => {
                    if let Some(t) = tx.take() {
                        waited_out = true;
                        let _ = t.send(());
                    } else {
                        end = End::Timeout;
                        break;
                    }
                }
                Ok(None) => {
                    end = End::Eos;
                    break;
                }
                Ok(Some(Ok(WsMsg::Binary(b)))) => {
                    bytes += b.len();
                    match oracle::valid_parse(&b, true) {
                        Some((h, ql, bl)) => frames.push(Frame {
                            header: h,
                            query: b[48..48 + ql].to_vec(),
                            body: b[48 + ql..48 + ql + bl].to_vec(),
                            at: frames.len(),
                        }),
                        None => {
                            if garbage.is_none() {
                                garbage = Some(format!("binary message #{} of {} bytes is not exactly one REPE frame", frames.len(), b.len()));
                            }
                        }
                    }
                }
                Ok(Some(Ok(WsMsg::Text(t)))) => {
                    if garbage.is_none() {
                        garbage = Some(format!("text message of {} bytes", t.len()));
                    }
                }
                Ok(Some(Ok(_))) => {} // Close / Ping / Pong: keep reading to the end of the stream
                Ok(Some(Err(e))) => {
                    use tokio_tungstenite::tungstenite::Error as E;
                    end = match e {
                        E::ConnectionClosed | E::AlreadyClosed => End::Eos,
                        other => End::Unclean(other.to_string()),
                    };
                    break;
                }
            }
        }
        drop(tx);
        (frames, end, garbage, waited_out, bytes)
    };
    let ((_sink, wrote_all), (frames, end, garbage, waited_out, bytes)) = tokio::join!(writer, reader);
    ConnOut { frames, end, garbage, waited_out, bytes, wrote_all }
}

// ------------------------------------------------------------------ peers that build up back-pressure (c03_bp.rs)

/// How a WebSocket peer makes the server's outbound path back up.
#[derive(Clone, Copy, Debug)]
pub struct BpPeer {
    /// SO_RCVBUF of the peer's socket (None: system default)
    pub rcvbuf: Option<u32>,
    /// the peer reads nothing before it has written the whole pipeline ...
    pub write_first: bool,
    /// ... and for this long after that
    pub hold: Duration,
    /// bound on the not-reading phase: a peer that never reads while the server's queue and both socket buffers are
    /// full stalls the server's reader (legitimate back-pressure) and with it the peer's own writes
    pub grace: Duration,
    /// pause before each of the first `slow_n` reads
    pub slow: Duration,
    pub slow_n: usize,
}

/// What the peer saw of its own scaffolding.
#[derive(Clone, Copy, Debug, Default)]
pub struct BpObs {
    /// every request had been written (and flushed) before the first read
    pub wrote_all_before_reading: bool,
    /// the bound on the not-reading phase expired with requests still unwritten
    pub grace_expired: bool,
    pub write_ms: u64,
}

/// Like `ws_conn`, but the peer writes the WHOLE pipeline before it reads anything (bounded), and/or reads slowly,
/// optionally with a small receive buffer. Writing and reading are independent futures, every wait is bounded.
pub async fn ws_conn_bp(addr: SocketAddr, wire: Arc<Vec<Vec<u8>>>, n_expected: usize, sid: u8, wait_keys: Vec<(u8, u64)>, p: BpPeer) -> (ConnOut, BpObs) {
    let sock = match tokio::net::TcpSocket::new_v4() {
        Ok(s) => s,
        Err(e) => return (ConnOut::harness(format!("socket: {e}")), BpObs::default()),
    };
    if let Some(n) = p.rcvbuf {
        let _ = sock.set_recv_buffer_size(n);
    }
    let stream = match timeout(CONNECT_T, sock.connect(addr)).await {
        Ok(Ok(s)) => s,
        Ok(Err(e)) => return (ConnOut::harness(format!("connect: {e}")), BpObs::default()),
        Err(_) => return (ConnOut::harness("connect timeout".into()), BpObs::default()),
    };
    let _ = stream.set_nodelay(true);
    let ws = match timeout(CONNECT_T, tokio_tungstenite::client_async(format!("ws://{addr}/ws"), stream)).await {
        Ok(Ok((ws, _))) => ws,
        Ok(Err(e)) => return (ConnOut::harness(format!("ws handshake: {e}")), BpObs::default()),
        Err(_) => return (ConnOut::harness("ws handshake timeout".into()), BpObs::default()),
    };
    let (mut sink, mut stream) = ws.split();
    let (tx, rx) = tokio::sync::oneshot::channel::<()>();
    let (wd_tx, wd_rx) = tokio::sync::oneshot::channel::<u64>();
    let writer = async move {
        let t0 = Instant::now();
        let mut ok = true;
        // the peer's own write did not complete within the bound (scaffolding stall, not an observation)
        let mut stalled = false;
        for f in wire.iter() {
            match timeout(WAIT_T, sink.feed(WsMsg::Binary(f.clone()))).await {
                Ok(Ok(())) => {}
                Ok(Err(_)) => {
                    ok = false;
                    break;
                }
                Err(_) => {
                    ok = false;
                    stalled = true;
                    break;
                }
            }
        }
        if ok {
            match timeout(WAIT_T, sink.flush()).await {
                Ok(Ok(())) => {}
                Ok(Err(_)) => ok = false,
                Err(_) => {
                    ok = false;
                    stalled = true;
                }
            }
        }
        if ok {
            let _ = wd_tx.send(t0.elapsed().as_millis() as u64);
        } else {
            drop(wd_tx);
        }
        let _ = rx.await;
        let _ = timeout(EOS_T, sink.send(WsMsg::Close(None))).await;
        (sink, stalled, ok)
    };
    let reader = async move {
        let mut obs = BpObs::default();
        if p.write_first {
            tokio::select! {
                r = wd_rx => {
                    if let Ok(ms) = r {
                        obs.wrote_all_before_reading = true;
                        obs.write_ms = ms;
                        tokio::time::sleep(p.hold).await;
                    }
                }
                _ = tokio::time::sleep(p.grace) => obs.grace_expired = true,
            }
        }
        let mut frames: Vec<Frame> = vec![];
        let mut garbage: Option<String> = None;
        let mut tx = Some(tx);
        let mut waited_out = false;
        let mut bytes = 0usize;
        let mut reads = 0usize;
        let end;
        loop {
            if frames.len() >= n_expected && tx.is_some() {
                if !wait_events(sid, &wait_keys).await {
                    waited_out = true;
                }
                if let Some(t) = tx.take() {
                    let _ = t.send(());
                }
            }
            if reads < p.slow_n && !p.slow.is_zero() && tx.is_some() {
                tokio::time::sleep(p.slow).await;
            }
            reads += 1;
            let wait = if tx.is_some() { WAIT_T } else { EOS_T };
            match timeout(wait, stream.next()).await {
                Err(_) => {
                    if let Some(t) = tx.take() {
                        waited_out = true;
                        let _ = t.send(());
                    } else {
                        end = End::Timeout;
                        break;
                    }
                }
                Ok(None) => {
                    end = End::Eos;
                    break;
                }
                Ok(Some(Ok(WsMsg::Binary(b)))) => {
                    bytes += b.len();
                    match oracle::valid_parse(&b, true) {
                        Some((h, ql, bl)) => frames.push(Frame { header: h, query: b[48..48 + ql].to_vec(), body: b[48 + ql..48 + ql + bl].to_vec(), at: frames.len() }),
                        None => {
                            if garbage.is_none() {
                                garbage = Some(format!("binary message #{} of {} bytes is not exactly one REPE frame", frames.len(), b.len()));
                            }
                        }
                    }
                }
                Ok(Some(Ok(WsMsg::Text(t)))) => {
                    if garbage.is_none() {
                        garbage = Some(format!("text message of {} bytes", t.len()));
                    }
                }
                Ok(Some(Ok(_))) => {}
                Ok(Some(Err(e))) => {
                    use tokio_tungstenite::tungstenite::Error as E;
                    end = match e {
                        E::ConnectionClosed | E::AlreadyClosed => End::Eos,
                        other => End::Unclean(other.to_string()),
                    };
                    break;
                }
            }
        }
        drop(tx);
        (frames, end, garbage, waited_out, bytes, obs)
    };
    let ((_sink, write_stalled, wrote_all), (frames, end, garbage, waited_out, bytes, obs)) = tokio::join!(writer, reader);
    if write_stalled {
        return (ConnOut::harness(format!("the peer could not write its pipeline within {WAIT_T:?} although it was reading ({} frames received)", frames.len())), obs);
    }
    (ConnOut { frames, end, garbage, waited_out, bytes, wrote_all }, obs)
}
