// C09 — slow-consumer family (textually included into `mod imp` of c09.rs), both stages.
//
// The slow-producer family (c09_slow.rs) lets the PRODUCER go quiet. Here the CONSUMER does: the
// closure handed to pull_consume / pull_consume_async, or the digest `Write` that
// pull_to_file_verified_async / pull_to_file_trailer_verified(_async) feed while they fill the file,
// reads a part of the stream, then does not read at all for several seconds in one go (longer than
// any plausible internal hand-off timeout: 6.5 s in the quick tier, 12 s and 35 s in the thorough
// tier), then reads on to the end — while hundreds of small chunks (chunk sizes 1..64) are still
// to come, so every queue between the wire and the consumer is full during the stall. Stage raw
// does the same with the raw client (no `next` for that long in the middle of a stream).
// Oracle, independent of any timing: `Ok` carries exactly the producer's bytes / the committed file
// holds exactly the producer's bytes; a clean `Err` is tolerated and counted; `Ok` with other bytes,
// or a committed file with other bytes, never.
//
// Every scenario sleeps through its stall on its own thread, next to the stage's pool.

mod slowc {
    use super::sidecar;
    use super::slow::{AnyClient, Cl};
    use super::*;
    use repe::value_stream::{pull_to_file_trailer_verified, pull_to_file_trailer_verified_async, pull_to_file_verified_async};

    #[derive(Clone, Copy, Debug, PartialEq, Eq, Hash)]
    enum Who {
        Consume,
        Verified,
        Trailer,
        Raw,
    }
    const TRAILER: usize = 8;

    #[derive(Clone, Debug)]
    pub struct Plan {
        cl: Option<Cl>,
        tr: Tr,
        who: Who,
        kind: Kind,
        chunk: usize,
        depth: usize,
        zstd: bool,
        n_chunks: usize,
        stall_ms: u64,
        /// the consumer stalls after this share of the logical bytes
        stall_permille: usize,
        seed: u64,
    }
    impl Plan {
        fn opts(&self) -> StreamOpts {
            StreamOpts { chunk_bytes: self.chunk, compression: if self.zstd { Compression::Zstd } else { Compression::None }, zstd_level: 3, session_depth: self.depth }
        }
        fn puller(&self) -> &'static str {
            let is_async = self.cl.map(|c| c != Cl::Sync).unwrap_or(false);
            match (self.who, is_async) {
                (Who::Raw, _) => "raw",
                (Who::Consume, false) => "pull_consume",
                (Who::Consume, true) => "pull_consume_async",
                (Who::Verified, _) => "pull_to_file_verified_async",
                (Who::Trailer, false) => "pull_to_file_trailer_verified",
                (Who::Trailer, true) => "pull_to_file_trailer_verified_async",
            }
        }
        fn json(&self) -> Value {
            json!({"family": "slow-consumer", "client": self.cl.map(|c| c.name()).unwrap_or("raw client"), "transport": format!("{:?}", self.tr), "puller": self.puller(), "kind": self.kind.name(),
                   "chunk_bytes": self.chunk, "session_depth": self.depth, "zstd": self.zstd, "chunks_planned": self.n_chunks, "consumer_stall_ms": self.stall_ms, "stall_after_permille_of_stream": self.stall_permille})
        }
    }

    /// What the stalling consumer did (written on the consumer's thread).
    #[derive(Default, Clone, Debug)]
    struct StallLog {
        bytes_before_stall: usize,
        stalled: Option<Duration>,
        bytes_total: usize,
        ended: bool,
    }

    fn stall_now(log: &Mutex<StallLog>, consumed: usize, stall: Duration) {
        log.lock().unwrap_or_else(|e| e.into_inner()).bytes_before_stall = consumed;
        let t = Instant::now();
        std::thread::sleep(stall);
        log.lock().unwrap_or_else(|e| e.into_inner()).stalled = Some(t.elapsed());
    }

    /// The consumer closure: seeded small reads; one long stall after `stall_after` bytes.
    fn stalling_drain(reader: &mut dyn Read, seed: u64, chunk: usize, stall_after: usize, stall: Duration, log: &Mutex<StallLog>) -> Result<Vec<u8>, RepeError> {
        let mut r = Rng::new(seed ^ 0x57A11);
        let mut out = Vec::new();
        let mut buf = vec![0u8; 2 * chunk + 3];
        let mut stalled = false;
        loop {
            let want = 1 + r.usize_below(buf.len());
            let n = reader.read(&mut buf[..want])?;
            if n == 0 {
                let mut g = log.lock().unwrap_or_else(|e| e.into_inner());
                g.bytes_total = out.len();
                g.ended = true;
                return Ok(out);
            }
            out.extend_from_slice(&buf[..n]);
            if !stalled && out.len() >= stall_after {
                stalled = true;
                stall_now(log, out.len(), stall);
            }
        }
    }

    /// The digest handed to the verifying file pullers: keeps what it is fed; one long stall.
    struct StallDigest {
        seen: Vec<u8>,
        stall_after: usize,
        stall: Duration,
        stalled: bool,
        log: Arc<Mutex<StallLog>>,
    }
    impl Write for StallDigest {
        fn write(&mut self, b: &[u8]) -> io::Result<usize> {
            self.seen.extend_from_slice(b);
            if !self.stalled && self.seen.len() >= self.stall_after {
                self.stalled = true;
                stall_now(&self.log, self.seen.len(), self.stall);
            }
            self.log.lock().unwrap_or_else(|e| e.into_inner()).bytes_total = self.seen.len();
            Ok(b.len())
        }
        fn flush(&mut self) -> io::Result<()> {
            Ok(())
        }
    }

    struct Pulled {
        /// Ok: the logical bytes the puller returned / committed (file ++ trailer)
        logical: Result<Vec<u8>, String>,
        /// what the digest had been fed when verify was called
        digest_seen: Option<Vec<u8>>,
        /// the committed file (file pullers)
        file: Option<Vec<u8>>,
    }

    fn pull_sync(plan: &Plan, client: &Client, res: &str, dest: &std::path::Path, stall_after: usize, log: &Arc<Mutex<StallLog>>) -> Pulled {
        let et = |e: RepeError| err_text(&e);
        let stall = Duration::from_millis(plan.stall_ms);
        match plan.who {
            Who::Consume => Pulled { logical: pull_consume(client, res, |r| stalling_drain(r, plan.seed, plan.chunk, stall_after, stall, log)).map_err(et), digest_seen: None, file: None },
            Who::Trailer => {
                let (mut seen, mut trailer) = (None, vec![]);
                let d = StallDigest { seen: vec![], stall_after, stall, stalled: false, log: log.clone() };
                let r = pull_to_file_trailer_verified(client, res, dest, TRAILER, d, |d: StallDigest, t: &[u8]| {
                    seen = Some(d.seen);
                    trailer = t.to_vec();
                    Ok(())
                });
                let file = std::fs::read(dest).ok();
                let logical = r.map_err(et).and_then(|_| file.clone().ok_or_else(|| "harness: the published file cannot be read".to_string())).map(|mut f| {
                    f.extend_from_slice(&trailer);
                    f
                });
                Pulled { logical, digest_seen: seen, file }
            }
            _ => Pulled { logical: Err("harness: no blocking form of this puller".into()), digest_seen: None, file: None },
        }
    }

    async fn pull_async<C: repe::value_stream::AsyncSvsClient>(plan: &Plan, client: &C, res: &str, dest: &std::path::Path, stall_after: usize, log: &Arc<Mutex<StallLog>>) -> Pulled {
        let et = |e: RepeError| err_text(&e);
        let stall = Duration::from_millis(plan.stall_ms);
        match plan.who {
            Who::Consume => {
                let (seed, chunk, log2) = (plan.seed, plan.chunk, log.clone());
                let r = pull_consume_async(client, res, move |mut r| stalling_drain(&mut *r, seed, chunk, stall_after, stall, &log2)).await;
                Pulled { logical: r.map_err(et), digest_seen: None, file: None }
            }
            Who::Verified | Who::Trailer => {
                let (mut seen, mut trailer) = (None, vec![]);
                let d = StallDigest { seen: vec![], stall_after, stall, stalled: false, log: log.clone() };
                let r = if plan.who == Who::Verified {
                    pull_to_file_verified_async(client, res, dest, d, |d: StallDigest| {
                        seen = Some(d.seen);
                        Ok(())
                    })
                    .await
                } else {
                    pull_to_file_trailer_verified_async(client, res, dest, TRAILER, d, |d: StallDigest, t: &[u8]| {
                        seen = Some(d.seen);
                        trailer = t.to_vec();
                        Ok(())
                    })
                    .await
                };
                let file = std::fs::read(dest).ok();
                let logical = r.map_err(et).and_then(|_| file.clone().ok_or_else(|| "harness: the published file cannot be read".to_string())).map(|mut f| {
                    f.extend_from_slice(&trailer);
                    f
                });
                Pulled { logical, digest_seen: seen, file }
            }
            Who::Raw => Pulled { logical: Err("harness: not a library puller".into()), digest_seen: None, file: None },
        }
    }

    /// The payload: `n_chunks` chunks on the wire.
    fn spec_for(plan: &Plan, rng: &mut Rng) -> Spec {
        let mut s = Spec { p: 0, seed: rng.below(1 << 40), compressible: false, fail: None, panic: false, delay: false, vt: rng.below(2) as u8 };
        s.p = param_for(plan.kind, plan.zstd, plan.chunk * plan.n_chunks + rng.usize_below(plan.chunk), &s);
        s
    }

    fn note_stall(plan: &Plan, log: &StallLog, expected_len: usize, acc: &mut Acc) -> bool {
        let sat = log.stalled.map(|d| d >= Duration::from_millis(plan.stall_ms)).unwrap_or(false);
        if sat {
            acc.count("slow_consumer_stalls_completed", 1);
            acc.count(&format!("slow_consumer_stalls_completed[{}ms]", plan.stall_ms), 1);
            let pending = expected_len.saturating_sub(log.bytes_before_stall) / plan.chunk;
            if pending >= 100 {
                acc.count("slow_consumer_stalls_with_100_or_more_chunks_still_to_come", 1);
            }
        } else {
            acc.count("slow_consumer_pulls_that_ended_before_the_stall", 1);
        }
        sat
    }

    fn puller_scenario(plan: &Plan, rt: &Arc<tokio::runtime::Runtime>, acc: &mut Acc) -> Result<(), String> {
        let srv = start_server_with(build_router(plan.kind, plan.opts()), plan.tr, rt).map_err(|e| format!("server start: {e}"))?;
        let cl = plan.cl.unwrap_or(Cl::Sync);
        let client = match cl {
            Cl::Sync => Client::connect(srv.addr).map(AnyClient::Sync).map_err(|e| format!("Client::connect: {e}")),
            Cl::Async => rt.block_on(AsyncClient::connect(srv.addr)).map(AnyClient::Async).map_err(|e| format!("AsyncClient::connect: {e}")),
            Cl::Ws => rt.block_on(WebSocketClient::connect(&format!("ws://{}/repe", srv.addr))).map(AnyClient::Ws).map_err(|e| format!("WebSocketClient::connect: {e}")),
        }?;
        let mut rng = Rng::new(plan.seed ^ 0x510C);
        let spec = spec_for(plan, &mut rng);
        let expected = logical_bytes(plan.kind, &spec);
        let res = spec.res();
        let stall_after = (expected.len() * plan.stall_permille / 1000).max(1);
        let dir = svs::fresh_dir("c09-slowc");
        let dest = dir.join("dest.bin");
        let log = Arc::new(Mutex::new(StallLog::default()));
        let fetched0 = FETCHED.with(|c| c.get());
        let started = Instant::now();
        let got = match &client {
            AnyClient::Sync(c) => pull_sync(plan, c, &res, &dest, stall_after, &log),
            AnyClient::Async(c) => rt.block_on(pull_async(plan, c, &res, &dest, stall_after, &log)),
            AnyClient::Ws(c) => rt.block_on(pull_async(plan, c, &res, &dest, stall_after, &log)),
        };
        let took = started.elapsed();
        let fetched = FETCHED.with(|c| c.get()) - fetched0;
        let _ = std::fs::remove_dir_all(&dir);
        let log = log.lock().unwrap_or_else(|e| e.into_inner()).clone();
        let puller = plan.puller();
        let who = format!("{puller} over {}", cl.name());
        let observed = |extra: Value| {
            let mut j = plan.json();
            j["resource"] = json!(res);
            j["logical_len"] = json!(expected.len());
            j["observed"] = json!({"consumer_had_read_bytes_before_its_stall": log.bytes_before_stall, "consumer_stalled_ms": log.stalled.map(|d| d.as_millis() as u64), "consumer_read_bytes_in_total": log.bytes_total,
                                   "consumer_saw_a_clean_end": log.ended, "chunks_fetched_by_the_puller": fetched, "pull_took_ms": took.as_millis() as u64, "result": extra});
            j
        };
        if let Err(e) = &got.logical {
            if e.starts_with("harness:") {
                acc.inconclusive.push(format!("slow-consumer family, {who}: {e}"));
                return Ok(());
            }
        }
        acc.evals += 1;
        acc.count("slow_consumer_pulls", 1);
        acc.count("chunks_fetched_by_slow_consumer_pulls", fetched);
        let sat = note_stall(plan, &log, expected.len(), acc);
        acc.distinct.push(hash_of(&("slow-consumer", cl, plan.who, plan.kind, plan.chunk, plan.zstd, plan.depth, plan.stall_ms, got.logical.is_ok(), sat)));
        let stall_text = format!(
            "its consumer had read {} of {} logical bytes, then did not read for {} ms ({} chunks of {} bytes were still to come), then read on",
            log.bytes_before_stall,
            expected.len(),
            log.stalled.map(|d| d.as_millis()).unwrap_or(0),
            expected.len().saturating_sub(log.bytes_before_stall) / plan.chunk,
            plan.chunk
        );
        match &got.logical {
            Ok(b) if *b == expected => {
                acc.count("slow_consumer_pulls_exact", 1);
                if sat {
                    acc.count("slow_consumer_pulls_exact_after_a_completed_stall", 1);
                    acc.count(&format!("slow_consumer_pulls_exact_after_a_completed_stall[{}]", cl.name()), 1);
                }
                acc.count("pulls_matching", 1);
                if acc.samples.is_empty() && sat {
                    acc.samples.push(observed(json!(format!("Ok({} bytes, exact)", b.len()))));
                }
            }
            Ok(b) => {
                let (what, how) = sidecar::diff_what(b, &expected, plan.chunk);
                let what = if got.file.is_some() { format!("committed-file-{what}") } else { what.to_string() };
                acc.violation(
                    format!("C09:slow-consumer:{puller}:{what}"),
                    format!(
                        "{who} returned Ok with {} logical bytes{} although the producer emitted {}: {how}; {stall_text}; the puller fetched {fetched} chunks in all",
                        b.len(),
                        if got.file.is_some() { " in the committed file" } else { "" },
                        expected.len()
                    ),
                    observed(json!(format!("Ok({} bytes)", b.len()))),
                );
            }
            Err(e) => {
                // a clean failure is not a wrong stream; a published file with other bytes would be
                acc.count("slow_consumer_pulls_failed_cleanly", 1);
                if let Some(f) = &got.file {
                    let want = &expected[..expected.len().saturating_sub(if plan.who == Who::Trailer { TRAILER } else { 0 })];
                    if f != want {
                        acc.violation(
                            format!("C09:slow-consumer:{puller}:error-but-wrong-file-published"),
                            format!("{who} failed ({}) yet a destination file with {} bytes (producer: {}) exists; {stall_text}", trunc(e, 100), f.len(), want.len()),
                            observed(json!(format!("Err({})", trunc(e, 100)))),
                        );
                    }
                }
                if acc.samples.len() < 2 {
                    acc.samples.push(observed(json!(format!("Err({})", trunc(e, 120)))));
                }
            }
        }
        // whenever verify was called, the digest must have been fed exactly what the stream carries before the trailer
        if let Some(d) = &got.digest_seen {
            let want = &expected[..expected.len().saturating_sub(if plan.who == Who::Trailer { TRAILER } else { 0 })];
            if d == want {
                acc.count("slow_consumer_digests_fed_exactly_the_stream", 1);
            } else if got.logical.as_ref().map(|b| *b == expected).unwrap_or(true) {
                let (what, how) = sidecar::diff_what(d, want, plan.chunk);
                acc.violation(
                    format!("C09:slow-consumer:{puller}:verify-called-on-{what}"),
                    format!("{who} called verify as after a clean end although the digest had been fed {} bytes of the {}-byte content: {how}; {stall_text}", d.len(), want.len()),
                    observed(json!(format!("{:?}", got.logical.as_ref().map(|b| b.len()).map_err(|e| trunc(e, 80))))),
                );
            }
        }
        Ok(())
    }

    fn raw_scenario(plan: &Plan, rt: &Arc<tokio::runtime::Runtime>, acc: &mut Acc) -> Result<(), String> {
        let srv = start_server_with(build_router(plan.kind, plan.opts()), plan.tr, rt).map_err(|e| format!("server start: {e}"))?;
        let mut rng = Rng::new(plan.seed ^ 0x510C);
        let spec = spec_for(plan, &mut rng);
        let expected = logical_bytes(plan.kind, &spec);
        let pause = Some((plan.n_chunks * plan.stall_permille / 1000, Duration::from_millis(plan.stall_ms)));
        let p = match plan.tr {
            Tr::Tcp => sidecar::raw_pull_all(&mut RawSvs::new(TcpRaw::connect(srv.addr)?), &spec.res(), expected.len(), pause)?,
            Tr::Ws => sidecar::raw_pull_all(&mut RawSvs::new(WsRaw::connect(rt.clone(), &format!("ws://{}/repe", srv.addr))?), &spec.res(), expected.len(), pause)?,
        };
        acc.evals += 1;
        acc.count("slow_consumer_raw_streams", 1);
        acc.count("chunks_observed", p.chunks.len() as u64);
        let sat = p.paused.map(|d| d >= Duration::from_millis(plan.stall_ms)).unwrap_or(false);
        if sat {
            acc.count("slow_consumer_stalls_completed", 1);
            acc.count(&format!("slow_consumer_stalls_completed[{}ms]", plan.stall_ms), 1);
        }
        acc.distinct.push(hash_of(&("slow-consumer-raw", plan.tr, plan.kind, plan.chunk, plan.zstd, plan.depth, plan.stall_ms, sat, matches!(p.end, sidecar::RawEnd::Last))));
        let (defects, exact) = sidecar::raw_defects(&p, plan.zstd, plan.kind.beve(), plan.chunk, &expected, None);
        for (what, detail) in defects {
            if what == "error-instead-of-content" && p.paused.is_some() {
                // a server that gives up on a consumer this slow fails the stream cleanly: tolerated
                acc.count("slow_consumer_raw_streams_failed_cleanly", 1);
                continue;
            }
            let mut j = plan.json();
            j["resource"] = json!(spec.res());
            j["logical_len"] = json!(expected.len());
            j["observed"] = json!({"chunks": p.chunks.len(), "client_paused_ms": p.paused.map(|d| d.as_millis() as u64)});
            acc.violation(
                format!("C09:slow-consumer:raw:{what}"),
                format!("a raw client paused {} ms after {} chunks of a {}-chunk stream, then pulled on: {detail}", p.paused.map(|d| d.as_millis()).unwrap_or(0), pause.unwrap().0, plan.n_chunks),
                j,
            );
        }
        if exact {
            acc.count("slow_consumer_raw_streams_exact", 1);
            acc.count("streams_completed", 1);
            if sat {
                acc.count("slow_consumer_raw_streams_exact_after_a_completed_stall", 1);
            }
        }
        Ok(())
    }

    fn work(plan: &Plan, rt: &Arc<tokio::runtime::Runtime>, acc: &mut Acc) {
        let r = if plan.who == Who::Raw { raw_scenario(plan, rt, acc) } else { puller_scenario(plan, rt, acc) };
        if let Err(e) = r {
            acc.inconclusive.push(format!("slow-consumer family trouble on {}: {e}", trunc(&format!("{plan:?}"), 240)));
        }
        acc.count("slow_consumer_scenarios", 1);
    }

    pub fn stalls_ms(args: &Args) -> Vec<u64> {
        if args.thorough() { vec![12_000, 35_000] } else { vec![6_500] }
    }

    fn plans(args: &Args, raw: bool) -> Vec<Plan> {
        let mut rng = Rng::new(args.seed ^ 0xC09_510C ^ raw as u64);
        let mut v = vec![];
        let small = |rng: &mut Rng| *rng.pick(&[1usize, 2, 3, 5, 7, 16, 33, 64]);
        let bytes_kind = |rng: &mut Rng| *rng.pick(&[Kind::Reader, Kind::Writer, Kind::Value, Kind::Typed(Elem::U8)]);
        for &stall_ms in &stalls_ms(args) {
            if raw {
                for tr in [Tr::Tcp, Tr::Ws] {
                    for zstd in [false, true] {
                        let chunk = if zstd { 64 } else { small(&mut rng) };
                        v.push(Plan { cl: None, tr, who: Who::Raw, kind: bytes_kind(&mut rng), chunk, depth: rng.usize_below(9), zstd, n_chunks: 300 + rng.usize_below(600), stall_ms, stall_permille: 50 + rng.usize_below(450), seed: rng.next_u64() });
                    }
                }
                continue;
            }
            for cl in [Cl::Sync, Cl::Async, Cl::Ws] {
                let tr = if cl == Cl::Ws { Tr::Ws } else { Tr::Tcp };
                let mut whos = vec![(Who::Consume, 1usize, false), (Who::Consume, small(&mut rng).max(2), false), (Who::Consume, 64, true), (Who::Trailer, small(&mut rng), false)];
                if cl != Cl::Sync {
                    whos.push((Who::Verified, small(&mut rng), false));
                    whos.push((Who::Verified, 48 + rng.usize_below(17), true));
                }
                for (who, chunk, zstd) in whos {
                    // a zstd decoder hands out nothing before a whole block (128 KiB of input) has arrived: such streams are several blocks long
                    let (n_chunks, permille) = if zstd { (6000 + rng.usize_below(2000), 300 + rng.usize_below(250)) } else { (300 + rng.usize_below(600), 50 + rng.usize_below(450)) };
                    v.push(Plan { cl: Some(cl), tr, who, kind: bytes_kind(&mut rng), chunk, depth: rng.usize_below(9), zstd, n_chunks, stall_ms, stall_permille: permille, seed: rng.next_u64() });
                }
            }
        }
        let n = args.budget(v.len() as u64, v.len() as u64) as usize;
        if n < v.len() {
            rng.shuffle(&mut v);
            v.truncate(n.max(1));
        }
        v
    }

    /// One thread per scenario: they mostly sleep.
    pub fn spawn(args: &Args, raw: bool) -> sidecar::Family {
        let plans = plans(args, raw);
        let longest = stalls_ms(args).into_iter().max().unwrap_or(0);
        let n = plans.len();
        sidecar::spawn("slow-consumer", plans, n, Duration::from_millis(longest) + Duration::from_secs(40), work)
    }
}
