//! C10 — a failed or interrupted pull never publishes a file, and never a partial one.
//!
//! Stages:
//!  * `faults`  — a scripted FAKE SVS server (raw TCP, oracle.rs frames) injects every fault of a
//!    table into every file puller / value-decoding puller; oracle = directory snapshot before/after.
//!  * `crash`   — the pull runs in a CHILD process whose verif-hooks probe kills it (SIGKILL) at the
//!    n-th occurrence of each named point; the parent compares directory snapshots.
//!  * `strace`  — child pulls under `strace -f`; the syscall trace is checked against
//!    write*(tmp) -> fsync(tmp) -> rename(tmp, dest), and "no rename onto dest on a failing run".
//!  * `inject`  — `strace -e inject=<syscall>:signal=SIGKILL:when=N` as a hook-independent source of
//!    crash points.
//!  * `crash-child` — internal (the child).

#[cfg(not(feature = "net"))]
use crate::common::*;

#[cfg(not(feature = "net"))]
pub fn run(args: &Args) -> Report {
    let mut rep = Report::new(args, "c10", "needs the net feature");
    rep.inconclusive("built without the `net` feature");
    rep
}

#[cfg(feature = "net")]
pub use imp::run;

#[cfg(feature = "net")]
mod imp {
    use crate::c09::svs::{self, FakeServer, Fnv, Script, Snapshot, Step};
    use crate::common::*;
    use repe::value_stream::{
        pull_to_beve_file, pull_to_beve_zst_file, pull_to_file, pull_to_file_async, pull_to_file_trailer_verified, pull_to_file_trailer_verified_async,
        pull_to_file_verified_async, pull_to_vec, pull_to_vec_async, pull_typed_slice, pull_typed_slice_async, pull_value, pull_value_async,
    };
    use repe::{AsyncClient, Client, RepeError};
    use serde_json::{Value, json};
    use std::collections::BTreeMap;
    use std::net::SocketAddr;
    use std::path::{Path, PathBuf};
    use std::sync::atomic::{AtomicU64, Ordering};
    use std::sync::{Arc, Mutex, mpsc};
    use std::time::{Duration, Instant};

    const DEST: &str = "out.bin";
    const TEMP: &str = "out.bin.svspart";
    const PRIOR: &[u8] = b"PRIOR CONTENT of the destination - must survive any failed pull\n";
    const STALE: &[u8] = b"stale temp from an earlier crashed pull";
    const RES: &str = "blob";

    // ------------------------------------------------------------------ the tables

    #[derive(Clone, Copy, Debug, PartialEq, Eq, Hash, PartialOrd, Ord)]
    pub enum Puller {
        ToFile,
        ToBeveFile,
        ToBeveZst,
        TrailerVerified,
        ToFileAsync,
        VerifiedAsync,
        TrailerVerifiedAsync,
        // value-decoding pulls (no file): must return Err on a truncated stream
        Value,
        ToVec,
        TypedSlice,
        ValueAsync,
        ToVecAsync,
        TypedSliceAsync,
    }
    use Puller::*;
    const FILE_PULLERS: [Puller; 7] = [ToFile, ToBeveFile, ToBeveZst, TrailerVerified, ToFileAsync, VerifiedAsync, TrailerVerifiedAsync];
    const DECODE_PULLERS: [Puller; 6] = [Value, ToVec, TypedSlice, ValueAsync, ToVecAsync, TypedSliceAsync];

    impl Puller {
        fn name(&self) -> &'static str {
            match self {
                ToFile => "pull_to_file",
                ToBeveFile => "pull_to_beve_file",
                ToBeveZst => "pull_to_beve_zst_file",
                TrailerVerified => "pull_to_file_trailer_verified",
                ToFileAsync => "pull_to_file_async",
                VerifiedAsync => "pull_to_file_verified_async",
                TrailerVerifiedAsync => "pull_to_file_trailer_verified_async",
                Value => "pull_value",
                ToVec => "pull_to_vec",
                TypedSlice => "pull_typed_slice",
                ValueAsync => "pull_value_async",
                ToVecAsync => "pull_to_vec_async",
                TypedSliceAsync => "pull_typed_slice_async",
            }
        }
        fn from_name(s: &str) -> Option<Puller> {
            FILE_PULLERS.iter().chain(DECODE_PULLERS.iter()).copied().find(|p| p.name() == s)
        }
        fn is_async(&self) -> bool {
            matches!(self, ToFileAsync | VerifiedAsync | TrailerVerifiedAsync | ValueAsync | ToVecAsync | TypedSliceAsync)
        }
        fn is_file(&self) -> bool {
            FILE_PULLERS.contains(self)
        }
        fn trailer(&self) -> bool {
            matches!(self, TrailerVerified | TrailerVerifiedAsync)
        }
        fn verified(&self) -> bool {
            matches!(self, TrailerVerified | TrailerVerifiedAsync | VerifiedAsync)
        }
        fn zstd_only(&self) -> bool {
            matches!(self, ToBeveFile | ToBeveZst)
        }
        /// does the puller run the zstd decoder over the stream
        fn decodes_zstd(&self) -> bool {
            !matches!(self, ToBeveZst)
        }
        fn compressions(&self) -> &'static [bool] {
            if self.zstd_only() { &[true] } else { &[false, true] }
        }
    }

    #[derive(Clone, Debug, PartialEq, Eq, Hash)]
    pub enum Fault {
        None,
        /// k good chunks, then an error response
        ErrAfterChunks(usize),
        /// exactly d stream bytes delivered (re-chunked), then an error response
        ErrAtByte(usize),
        CutAfterOpen,
        /// connection closed right after the k-th `next` response
        CutAfterResp(usize),
        /// k good chunks, then the connection closes instead of an answer
        CutNoReply(usize),
        /// the (k+1)-th chunk response is cut in the middle of the frame
        CutMidFrame(usize),
        /// every chunk arrives with last=0, then the server closes
        NoEndClose,
        /// every chunk arrives with last=0, then the server answers with an error
        NoEndError,
        OpenError,
        BadVersion,
        BadCompression,
        /// stream tags the chosen output cannot honour
        TagMismatch,
        VerifyReject,
        /// trailer_len exceeds the whole stream
        TrailerTooLong,
        /// zstd frame truncated to t bytes but delivered with an end marker
        ZstdTruncated(usize),
    }

    impl Fault {
        fn class(&self) -> &'static str {
            match self {
                Fault::None => "none",
                Fault::ErrAfterChunks(_) => "producer-error-after-chunk",
                Fault::ErrAtByte(_) => "producer-error-at-byte",
                Fault::CutAfterOpen => "cut-after-open",
                Fault::CutAfterResp(_) => "cut-after-response",
                Fault::CutNoReply(_) => "cut-instead-of-reply",
                Fault::CutMidFrame(_) => "cut-mid-frame",
                Fault::NoEndClose => "no-end-marker-close",
                Fault::NoEndError => "no-end-marker-error",
                Fault::OpenError => "open-error",
                Fault::BadVersion => "bad-version",
                Fault::BadCompression => "bad-compression-tag",
                Fault::TagMismatch => "tag-mismatch",
                Fault::VerifyReject => "verify-reject",
                Fault::TrailerTooLong => "trailer-longer-than-stream",
                Fault::ZstdTruncated(_) => "zstd-frame-truncated",
            }
        }
    }

    #[derive(Clone, Copy, Debug, PartialEq, Eq, Hash)]
    pub enum DestState {
        Absent,
        Existing,
        ExistingWithStaleTemp,
    }

    /// What is streamed and what a successful pull must publish.
    pub struct Content {
        logical: Vec<u8>,
        wire: Vec<u8>,
        publish: Vec<u8>,
        format: u16,
        trailer_len: usize,
    }

    fn gen_string(seed: u64, n: usize) -> String {
        let mut r = Rng::new(seed ^ 0x57);
        r.bytes(n).iter().map(|b| (b'a' + b % 26) as char).collect()
    }

    /// Content classes of raw payloads (bits 6..7 of the seed): as generated, as generated, a zero run from the middle to the
    /// end (page images, preallocated stores), nothing but zeros.
    fn shaped(mut v: Vec<u8>, seed: u64) -> Vec<u8> {
        match (seed >> 6) & 3 {
            2 => {
                let from = v.len() / 2;
                v[from..].fill(0);
            }
            3 => v.fill(0),
            _ => {}
        }
        v
    }

    fn content_for(p: Puller, zstd: bool, seed: u64, n: usize) -> Content {
        let (logical, publish, format, trailer_len) = match p {
            ToFile | ToFileAsync | VerifiedAsync | ToVec | ToVecAsync => {
                let l = shaped(svs::payload(seed, n, seed & 1 == 1), seed);
                (l.clone(), l, svs::FMT_RAW, 0)
            }
            ToBeveFile | ToBeveZst | Value | ValueAsync => {
                let l = beve::to_vec(&gen_string(seed, n)).unwrap();
                (l.clone(), l, svs::FMT_BEVE, 0)
            }
            TypedSlice | TypedSliceAsync => {
                let mut r = Rng::new(seed);
                let v: Vec<u16> = (0..n / 2).map(|_| r.next_u64() as u16).collect();
                let l = beve::to_vec_typed_slice(&v);
                (l.clone(), l, svs::FMT_BEVE, 0)
            }
            TrailerVerified | TrailerVerifiedAsync => {
                // trailer lengths from none at all (the digest is then known out of band; the verifier is still the gate)
                // through shorter and longer than the digest itself
                let tl = [8usize, 0, 1, 8, 3, 16, 64, 0][((seed >> 3) % 8) as usize];
                let pl = shaped(svs::payload(seed, n, seed & 1 == 1), seed);
                let mut l = pl.clone();
                l.extend_from_slice(&trailer_bytes(Fnv::of(&pl), tl));
                (l, pl, svs::FMT_RAW, tl)
            }
        };
        let wire = if zstd { svs::zstd_compress(&logical) } else { logical.clone() };
        let publish = if p == ToBeveZst { wire.clone() } else { publish };
        Content { logical, wire, publish, format, trailer_len }
    }

    /// All faults applicable to (puller, compression) for a stream of `m` chunks of `chunk` bytes.
    fn faults_for(p: Puller, zstd: bool, wire_len: usize, chunk: usize) -> Vec<Fault> {
        let m = svs::split_chunks(&vec![0u8; wire_len], chunk).len();
        let mut f = vec![Fault::None, Fault::CutAfterOpen, Fault::NoEndClose, Fault::NoEndError, Fault::OpenError, Fault::BadVersion, Fault::BadCompression];
        for k in 0..m {
            f.push(Fault::ErrAfterChunks(k));
            f.push(Fault::CutNoReply(k));
            f.push(Fault::CutMidFrame(k));
        }
        for k in 1..=m {
            f.push(Fault::CutAfterResp(k));
        }
        let mut ds = vec![];
        let mut b = chunk;
        while b < wire_len {
            ds.push(b - 1);
            ds.push(b + 1);
            b += chunk;
        }
        if wire_len > 0 {
            ds.push(wire_len - 1);
        }
        ds.retain(|d| *d < wire_len);
        ds.sort();
        ds.dedup();
        for d in ds {
            f.push(Fault::ErrAtByte(d));
        }
        if p.verified() {
            f.push(Fault::VerifyReject);
        }
        if p.trailer() {
            f.push(Fault::TrailerTooLong);
        }
        if zstd && p.decodes_zstd() && wire_len > 2 {
            for t in [wire_len - 1, wire_len / 2, 1] {
                f.push(Fault::ZstdTruncated(t));
            }
        }
        if matches!(p, ToBeveFile | ToBeveZst | Value | ValueAsync | TypedSlice | TypedSliceAsync) {
            f.push(Fault::TagMismatch);
        }
        f.dedup();
        f
    }

    /// Build the fake server's script. Returns (script, complete) where complete = the client is sent
    /// the whole stream ending in an end marker.
    fn script_for(p: Puller, zstd: bool, c: &Content, chunk: usize, fault: &Fault) -> (Script, bool) {
        let chunks = svs::split_chunks(&c.wire, chunk);
        let m = chunks.len();
        let mut s = Script::clean(c.format, zstd as u8, chunks.clone());
        let unmarked = |cs: &[Vec<u8>]| -> Vec<Step> { cs.iter().map(|b| Step::Chunk { bytes: b.clone(), last: false }).collect() };
        let mut complete = false;
        match fault {
            Fault::None | Fault::VerifyReject | Fault::TrailerTooLong => complete = true,
            Fault::ErrAfterChunks(k) => {
                s.steps = unmarked(&chunks[..(*k).min(m)]);
                s.steps.push(Step::Error("injected producer failure".into()));
            }
            Fault::ErrAtByte(d) => {
                s.steps = if *d == 0 { vec![] } else { unmarked(&svs::split_chunks(&c.wire[..*d], chunk)) };
                s.steps.push(Step::Error("injected producer failure".into()));
            }
            Fault::CutAfterOpen => s.cut_after_open = true,
            Fault::CutAfterResp(k) => {
                s.cut_after_responses = Some(*k);
                complete = *k == m;
            }
            // (a fixed k from a caller that did not look at the chunk count is clamped: highly compressible content has few chunks)
            Fault::CutNoReply(k) => {
                s.steps = unmarked(&chunks[..(*k).min(m)]);
                s.steps.push(Step::CutNoReply);
            }
            Fault::CutMidFrame(k) if m == 0 => {
                let _ = k;
                s.steps.push(Step::CutNoReply);
            }
            Fault::CutMidFrame(k) => {
                let k = (*k).min(m - 1);
                s.steps = unmarked(&chunks[..k]);
                s.steps.push(Step::CutMidFrame { bytes: chunks[k].clone(), last: k + 1 == m });
            }
            Fault::NoEndClose => {
                s.steps = unmarked(&chunks);
                s.exhausted_closes = true;
            }
            Fault::NoEndError => {
                s.steps = unmarked(&chunks);
                s.exhausted_closes = false;
            }
            Fault::OpenError => s.open_error = Some("svs open: unknown resource".into()),
            Fault::BadVersion => s.version = 9,
            Fault::BadCompression => s.compression = 7,
            Fault::TagMismatch => {
                if p.zstd_only() {
                    s.compression = 0;
                } else {
                    s.format = svs::FMT_RAW;
                }
            }
            Fault::ZstdTruncated(t) => {
                let cs = svs::split_chunks(&c.wire[..*t], chunk);
                s = Script::clean(c.format, zstd as u8, cs);
            }
        }
        (s, complete)
    }

    // ------------------------------------------------------------------ invoking the pullers

    #[derive(Debug)]
    pub enum PullRes {
        Published,
        Bytes(Vec<u8>),
    }

    fn et(e: RepeError) -> String {
        trunc(&e.to_string(), 200)
    }

    /// The trailer a stream of digest `d` carries when its trailer is `tl` bytes long.
    fn trailer_bytes(d: u64, tl: usize) -> Vec<u8> {
        (0..tl).map(|i| d.to_le_bytes()[i % 8] ^ (i / 8) as u8).collect()
    }

    /// How often a caller-supplied trailer verifier was consulted (process-wide).
    static VERIFY_CALLS: std::sync::atomic::AtomicU64 = std::sync::atomic::AtomicU64::new(0);

    fn verify_trailer(reject: bool) -> impl FnOnce(Fnv, &[u8]) -> Result<(), RepeError> {
        move |d: Fnv, trailer: &[u8]| {
            VERIFY_CALLS.fetch_add(1, std::sync::atomic::Ordering::SeqCst);
            if reject || trailer_bytes(d.0, trailer.len()) != trailer {
                Err(RepeError::Io(std::io::Error::new(std::io::ErrorKind::InvalidData, "digest trailer rejected")))
            } else {
                Ok(())
            }
        }
    }

    fn pull_sync(p: Puller, client: &Client, dest: &Path, reject: bool, trailer_len: usize) -> Result<PullRes, String> {
        match p {
            ToFile => pull_to_file(client, RES, dest).map(|_| PullRes::Published).map_err(et),
            ToBeveFile => pull_to_beve_file(client, RES, dest).map(|_| PullRes::Published).map_err(et),
            ToBeveZst => pull_to_beve_zst_file(client, RES, dest).map(|_| PullRes::Published).map_err(et),
            TrailerVerified => pull_to_file_trailer_verified(client, RES, dest, trailer_len, Fnv::new(), verify_trailer(reject)).map(|_| PullRes::Published).map_err(et),
            Value => pull_value::<String>(client, RES).map(|v| PullRes::Bytes(beve::to_vec(&v).unwrap())).map_err(et),
            ToVec => pull_to_vec(client, RES).map(PullRes::Bytes).map_err(et),
            TypedSlice => pull_typed_slice::<u16>(client, RES).map(|v| PullRes::Bytes(beve::to_vec_typed_slice(&v))).map_err(et),
            _ => Err("not a sync puller".into()),
        }
    }

    async fn pull_async(p: Puller, client: &AsyncClient, dest: &Path, reject: bool, trailer_len: usize, want_digest: u64) -> Result<PullRes, String> {
        match p {
            ToFileAsync => pull_to_file_async(client, RES, dest).await.map(|_| PullRes::Published).map_err(et),
            VerifiedAsync => pull_to_file_verified_async(client, RES, dest, Fnv::new(), move |d: Fnv| {
                if reject || d.0 != want_digest {
                    Err(RepeError::Io(std::io::Error::new(std::io::ErrorKind::InvalidData, "content digest rejected")))
                } else {
                    Ok(())
                }
            })
            .await
            .map(|_| PullRes::Published)
            .map_err(et),
            TrailerVerifiedAsync => pull_to_file_trailer_verified_async(client, RES, dest, trailer_len, Fnv::new(), verify_trailer(reject)).await.map(|_| PullRes::Published).map_err(et),
            ValueAsync => pull_value_async::<String, _>(client, RES).await.map(|v| PullRes::Bytes(beve::to_vec(&v).unwrap())).map_err(et),
            ToVecAsync => pull_to_vec_async(client, RES).await.map(PullRes::Bytes).map_err(et),
            TypedSliceAsync => pull_typed_slice_async::<u16, _>(client, RES).await.map(|v| PullRes::Bytes(beve::to_vec_typed_slice(&v))).map_err(et),
            _ => Err("not an async puller".into()),
        }
    }

    /// Run one pull against `addr`, bounded by a watchdog. Err(Hang) when the call did not return.
    enum Ran {
        Done(Result<PullRes, String>),
        Hang,
        Harness(String),
    }

    fn run_pull(rt: &Arc<tokio::runtime::Runtime>, p: Puller, addr: SocketAddr, dest: PathBuf, reject: bool, trailer_len: usize, want_digest: u64, pre: Option<(SocketAddr, u64)>) -> Ran {
        let limit = Duration::from_secs(15);
        if p.is_async() {
            rt.block_on(async move {
                let fut = async {
                    let client = match AsyncClient::connect(addr).await {
                        Ok(c) => c,
                        Err(e) => return Ran::Harness(format!("AsyncClient::connect: {e}")),
                    };
                    Ran::Done(pull_async(p, &client, &dest, reject, trailer_len, want_digest).await)
                };
                tokio::time::timeout(limit, fut).await.unwrap_or(Ran::Hang)
            })
        } else {
            let (tx, rx) = mpsc::channel();
            std::thread::spawn(move || {
                // history on this OS thread: earlier file pulls (plain and BEVE, to a scratch directory of their own) that FAILED
                // mid-stream; whatever they leave behind in per-thread state must not show in the pull that is judged
                if let Some((pre_addr, kind)) = pre {
                    if let Ok(c2) = Client::connect(pre_addr) {
                        let scratch = svs::fresh_dir("c10pre");
                        let r = if kind & 1 == 0 { pull_to_file(&c2, RES, &scratch.join("pre.bin")).map(|_| ()) } else { pull_to_beve_file(&c2, RES, &scratch.join("pre.beve")).map(|_| ()) };
                        PRE_FAILED.fetch_add(r.is_err() as u64, std::sync::atomic::Ordering::Relaxed);
                        PRE_OK.fetch_add(r.is_ok() as u64, std::sync::atomic::Ordering::Relaxed);
                        let _ = std::fs::remove_dir_all(&scratch);
                    }
                }
                let r = match Client::connect(addr) {
                    Ok(client) => Ran::Done(pull_sync(p, &client, &dest, reject, trailer_len)),
                    Err(e) => Ran::Harness(format!("Client::connect: {e}")),
                };
                let _ = tx.send(r);
            });
            rx.recv_timeout(limit).unwrap_or(Ran::Hang)
        }
    }

    thread_local! {
        static FAKE: FakeServer = FakeServer::start(Script::clean(0, 0, vec![vec![]]));
        /// serves the same-thread history pulls (see run_pull)
        static FAKE_PRE: FakeServer = FakeServer::start(Script::clean(0, 0, vec![vec![]]));
    }
    static PRE_FAILED: std::sync::atomic::AtomicU64 = std::sync::atomic::AtomicU64::new(0);
    static PRE_OK: std::sync::atomic::AtomicU64 = std::sync::atomic::AtomicU64::new(0);
    /// A stream that fails after a few chunks (producer error / connection cut), for the history pull.
    fn pre_history(seed: u64) -> (SocketAddr, u64) {
        let kind = seed >> 9;
        let (p, zstd) = if kind & 1 == 0 { (ToFile, kind & 2 == 2) } else { (ToBeveFile, true) };
        let n = [15_000usize, 70_000, 300_000][(kind % 3) as usize];
        let chunk = [5000usize, 4096, 65536][((kind >> 2) % 3) as usize];
        let c = content_for(p, zstd, seed ^ 0x9E, n);
        let m = svs::split_chunks(&c.wire, chunk).len();
        let fault = if kind & 4 == 0 { Fault::ErrAfterChunks((m / 2).max(1).min(m.saturating_sub(1))) } else { Fault::CutAfterResp((m / 2).max(1)) };
        let (script, _) = script_for(p, zstd, &c, chunk, &fault);
        FAKE_PRE.with(|f| {
            f.set_script(script);
            (f.addr, kind)
        })
    }
    /// The worker thread's fake server, loaded with `script`.
    fn fake_with(script: Script) -> SocketAddr {
        FAKE.with(|f| {
            f.set_script(script);
            f.addr
        })
    }
    fn fake_stats() -> svs::FakeStats {
        FAKE.with(|f| f.stats())
    }

    fn prepare_dir(state: DestState) -> (PathBuf, Snapshot) {
        let dir = svs::fresh_dir("c10");
        match state {
            DestState::Absent => {}
            DestState::Existing => std::fs::write(dir.join(DEST), PRIOR).unwrap(),
            DestState::ExistingWithStaleTemp => {
                std::fs::write(dir.join(DEST), PRIOR).unwrap();
                // every other stale temp is far LONGER than anything pulled here (a crashed pull of a bigger resource)
                static NTH: std::sync::atomic::AtomicU64 = std::sync::atomic::AtomicU64::new(0);
                if NTH.fetch_add(1, std::sync::atomic::Ordering::Relaxed) % 2 == 0 {
                    std::fs::write(dir.join(TEMP), STALE).unwrap();
                } else {
                    std::fs::write(dir.join(TEMP), STALE.repeat(3000)).unwrap();
                }
            }
        }
        let snap = svs::snapshot(&dir);
        (dir, snap)
    }

    /// Classify the destination after a run.
    #[derive(Debug, PartialEq, Eq, Clone, Copy)]
    enum DestNow {
        Prior,
        Complete,
        Other,
    }
    fn classify(before: &Snapshot, after: &Snapshot, publish: &[u8]) -> DestNow {
        match (before.get(DEST), after.get(DEST)) {
            (b, a) if a.map(|x| &x[..]) == Some(publish) && b != a => DestNow::Complete,
            (b, a) if a == b => DestNow::Prior,
            _ => DestNow::Other,
        }
    }
    fn describe_dest(after: &Snapshot, publish: &[u8]) -> String {
        match after.get(DEST) {
            None => "absent".into(),
            Some(a) if a == PRIOR => "prior content".into(),
            Some(a) if &a[..] == publish => "complete content".into(),
            Some(a) => {
                let pre = a.len() <= publish.len() && a[..] == publish[..a.len()];
                format!("{} bytes ({}) where complete content is {} bytes", a.len(), if pre { "a strict prefix of the complete content" } else { "neither prior nor a prefix" }, publish.len())
            }
        }
    }

    // ------------------------------------------------------------------ accumulation

    #[derive(Default)]
    struct Acc {
        evals: u64,
        distinct: Vec<u64>,
        viol: Vec<(String, String, Value)>,
        counts: BTreeMap<String, u64>,
        inconclusive: Vec<String>,
        samples: Vec<Value>,
        cells: BTreeMap<String, u64>,
    }
    impl Acc {
        fn count(&mut self, k: &str, n: u64) {
            *self.counts.entry(k.to_string()).or_insert(0) += n;
        }
        fn cell(&mut self, k: String) {
            *self.cells.entry(k).or_insert(0) += 1;
        }
        fn merge(&mut self, o: Acc) {
            self.evals += o.evals;
            self.distinct.extend(o.distinct);
            self.viol.extend(o.viol);
            for (k, v) in o.counts {
                *self.counts.entry(k).or_insert(0) += v;
            }
            for (k, v) in o.cells {
                *self.cells.entry(k).or_insert(0) += v;
            }
            self.inconclusive.extend(o.inconclusive);
            self.samples.extend(o.samples);
        }
        fn into_report(self, rep: &mut Report) {
            rep.evaluations += self.evals;
            for d in self.distinct {
                rep.distinct(&d);
            }
            for (k, v) in self.counts {
                rep.count(&k, v);
            }
            for (s, d, r) in self.viol {
                rep.violation(s, d, r);
            }
            let mut seen = std::collections::HashSet::new();
            for i in self.inconclusive {
                if seen.insert(i.clone()) {
                    rep.inconclusive(i);
                }
            }
            for s in self.samples {
                rep.sample(s);
            }
            rep.set("cells_executed", json!(self.cells.values().sum::<u64>()));
            rep.set("cells_distinct", json!(self.cells.len()));
            rep.set("cell_table", json!(self.cells));
        }
    }

    /// Generic bounded pool: items are processed by `n` detached threads, the caller collects.
    fn pool<I: Send + 'static>(items: Vec<I>, n: usize, wall: Duration, rep: &mut Report, work: impl Fn(I, &Arc<tokio::runtime::Runtime>, &mut Acc) + Send + Sync + 'static) -> Acc {
        let rt = Arc::new(tokio::runtime::Builder::new_multi_thread().worker_threads(4).enable_all().build().expect("tokio runtime"));
        let total = items.len();
        let queue = Arc::new(Mutex::new(items));
        queue.lock().unwrap().reverse();
        let work = Arc::new(work);
        let (tx, rx) = mpsc::channel::<Acc>();
        for _ in 0..n {
            let (queue, tx, rt, work) = (queue.clone(), tx.clone(), rt.clone(), work.clone());
            std::thread::spawn(move || {
                loop {
                    let Some(item) = queue.lock().unwrap().pop() else { break };
                    let mut acc = Acc::default();
                    if let Err(p) = catching(|| work(item, &rt, &mut acc)) {
                        acc.inconclusive.push(format!("harness panic: {p}"));
                    }
                    if tx.send(acc).is_err() {
                        break;
                    }
                }
            });
        }
        drop(tx);
        let hb = Heartbeat::start();
        let start = Instant::now();
        let mut all = Acc::default();
        let mut done = 0;
        while done < total {
            match rx.recv_timeout(wall.saturating_sub(start.elapsed()).max(Duration::from_millis(1))) {
                Ok(a) => {
                    all.merge(a);
                    done += 1;
                }
                Err(mpsc::RecvTimeoutError::Timeout) => {
                    rep.inconclusive(format!("wall-clock budget exhausted after {done}/{total} work items (max machine stall {} ms)", hb.max_gap_ms()));
                    break;
                }
                Err(_) => break,
            }
        }
        rep.set("work_items_total", json!(total));
        rep.set("work_items_completed", json!(done));
        std::mem::forget(rt);
        all
    }

    pub fn run(args: &Args) -> Report {
        match args.stage.as_str() {
            "crash-child" => {
                crash_child(args);
                std::process::exit(12);
            }
            "crash" => run_crash(args),
            "strace" => run_strace(args, false),
            "inject" => run_strace(args, true),
            _ => run_faults(args),
        }
    }

    // ================================================================== stage faults

    #[derive(Clone, Debug)]
    struct Scn {
        p: Puller,
        zstd: bool,
        n: usize,
        chunk: usize,
        fault: Fault,
        dest: DestState,
        seed: u64,
    }
    impl Scn {
        fn json(&self) -> Value {
            json!({"puller": self.p.name(), "zstd": self.zstd, "payload_len": self.n, "chunk": self.chunk, "fault": format!("{:?}", self.fault), "dest": format!("{:?}", self.dest), "seed": self.seed})
        }
    }

    fn fault_scenario(sc: Scn, rt: &Arc<tokio::runtime::Runtime>, acc: &mut Acc) {
        let c = content_for(sc.p, sc.zstd, sc.seed, sc.n);
        let (script, complete) = script_for(sc.p, sc.zstd, &c, sc.chunk, &sc.fault);
        let answered = script.cut_after_responses.unwrap_or(usize::MAX);
        let delivered: usize = if script.cut_after_open { 0 } else { script.steps.iter().take(answered).map(|s| if let Step::Chunk { bytes, .. } = s { bytes.len() } else { 0 }).sum() };
        let addr = fake_with(script);
        let (dir, before) = prepare_dir(if sc.p.is_file() { sc.dest } else { DestState::Absent });
        let dest = dir.join(DEST);
        let reject = sc.fault == Fault::VerifyReject;
        let trailer_len = if sc.fault == Fault::TrailerTooLong { c.logical.len() + 1 + (sc.seed % 5) as usize } else { c.trailer_len };
        let verify_calls_before = VERIFY_CALLS.load(std::sync::atomic::Ordering::SeqCst);
        // every clean blocking pull and a third of the others run behind a failed pull on the same thread
        let pre = (!sc.p.is_async() && (sc.fault == Fault::None || sc.seed % 3 == 0)).then(|| pre_history(sc.seed));
        if pre.is_some() {
            acc.count("blocking_pulls_judged_behind_a_failed_pull_on_the_same_thread", 1);
        }
        let ran = run_pull(rt, sc.p, addr, dest.clone(), reject, trailer_len, Fnv::of(&c.logical), pre);
        let verifier_consulted = VERIFY_CALLS.load(std::sync::atomic::Ordering::SeqCst) > verify_calls_before;
        let after = svs::snapshot(&dir);
        let stats = fake_stats();
        let _ = std::fs::remove_dir_all(&dir);
        let class = sc.fault.class();
        let pn = sc.p.name();
        acc.evals += 1;
        acc.cell(format!("{pn}/{}/{class}/{}", if sc.zstd { "zstd" } else { "none" }, if sc.p.is_file() { format!("{:?}", sc.dest) } else { "-".into() }));
        acc.distinct.push(hash_of(&(pn, sc.zstd, &sc.fault, sc.dest, sc.n, sc.chunk)));
        acc.count("fake_server_next_requests", stats.nexts);
        acc.count("fake_server_cancels_received", stats.cancels);
        let res = match ran {
            Ran::Done(r) => r,
            Ran::Hang => {
                acc.count("pulls_hung_15s", 1);
                acc.inconclusive.push(format!("{pn} did not return within 15 s on fault class {class} (not a C10 verdict)"));
                return;
            }
            Ran::Harness(e) => {
                acc.inconclusive.push(format!("harness: {e}"));
                return;
            }
        };
        let replay = sc.json();
        let must_fail = !(complete && !matches!(sc.fault, Fault::VerifyReject | Fault::TrailerTooLong | Fault::ZstdTruncated(_)));
        // the cut-after-final-response cell may legitimately go either way
        let either = matches!(sc.fault, Fault::CutAfterResp(_)) && complete;
        if !sc.p.is_file() {
            match res {
                Ok(PullRes::Bytes(b)) => {
                    if b != c.logical {
                        acc.viol.push((
                            format!("C10:value-from-truncated-stream:{pn}:{class}"),
                            format!("{pn} returned Ok with {} decoded bytes; the full value is {} bytes and only {delivered} of {} stream bytes were delivered", b.len(), c.logical.len(), c.wire.len()),
                            replay,
                        ));
                    } else if must_fail && !either {
                        if delivered >= c.wire.len() && matches!(sc.p, Value | ValueAsync | TypedSlice | TypedSliceAsync) {
                            // the whole encoding arrived before the stream failed: the decoder had a complete value
                            acc.count("complete_value_decoded_before_stream_failure", 1);
                        } else {
                            acc.viol.push((
                                format!("C10:value-despite-failed-stream:{pn}:{class}"),
                                format!("{pn} returned Ok although the stream failed ({delivered} of {} stream bytes delivered)", c.wire.len()),
                                replay,
                            ));
                        }
                    } else {
                        acc.count("decoding_pulls_ok_complete", 1);
                    }
                }
                Ok(PullRes::Published) => {}
                Err(e) => {
                    if !must_fail {
                        acc.viol.push((format!("C10:pull-failed-on-clean-stream:{pn}"), format!("{pn} failed on a clean stream: {e}"), replay));
                    } else {
                        acc.count("decoding_pulls_err_as_required", 1);
                    }
                }
            }
            if !after.is_empty() {
                acc.viol.push((format!("C10:stray-file:{pn}:{class}"), format!("a value-decoding pull left files: {}", svs::describe_snapshot(&after)), sc.json()));
            }
            return;
        }
        let now = classify(&before, &after, &c.publish);
        // a stale temp that predates this pull and was never touched by it is not "left" by it
        let temp_left = after.contains_key(TEMP) && after.get(TEMP) != before.get(TEMP);
        let strays: Vec<&String> = after.keys().filter(|k| k.as_str() != DEST && k.as_str() != TEMP).collect();
        let detail = |what: &str| {
            format!(
                "{pn} ({}), fault {:?}, dest before: {}; result {}; dest after: {}; directory after: {}; {what}",
                if sc.zstd { "zstd" } else { "none" },
                sc.fault,
                if before.contains_key(DEST) { "prior content" } else { "absent" },
                match &res {
                    Ok(_) => "Ok".to_string(),
                    Err(e) => format!("Err({e})"),
                },
                describe_dest(&after, &c.publish),
                svs::describe_snapshot(&after)
            )
        };
        if sc.p.trailer() && res.is_ok() {
            // published only after it passed the caller-supplied verification: an Ok that never asked the verifier did not
            if verifier_consulted {
                acc.count(if c.trailer_len == 0 { "trailer_verified_publishes_that_consulted_the_verifier_empty_trailer" } else { "trailer_verified_publishes_that_consulted_the_verifier" }, 1);
            } else {
                acc.viol.push((format!("C10:published-without-verification:{pn}"), detail(&format!("Ok although the caller's verifier was never consulted (trailer_len {})", c.trailer_len)), replay.clone()));
            }
        }
        match (&res, now) {
            (Ok(_), DestNow::Complete) if !must_fail || either => acc.count("published_complete_content", 1),
            (Ok(_), DestNow::Complete) => acc.viol.push((format!("C10:published-after-fault:{pn}:{class}"), detail("a failing pull published the file"), replay.clone())),
            (Ok(_), DestNow::Prior) => acc.viol.push((format!("C10:ok-without-publishing:{pn}:{class}"), detail("Ok but the destination was not replaced"), replay.clone())),
            (Ok(_), DestNow::Other) => acc.viol.push((format!("C10:published-wrong-content:{pn}:{class}"), detail("Ok but the destination is not the complete content"), replay.clone())),
            (Err(_), DestNow::Prior) if must_fail || either => acc.count("failed_pull_left_destination_untouched", 1),
            (Err(e), DestNow::Prior) => acc.viol.push((format!("C10:pull-failed-on-clean-stream:{pn}"), format!("{pn} failed on a clean stream: {e}"), replay.clone())),
            (Err(_), DestNow::Complete) => acc.viol.push((format!("C10:published-despite-error:{pn}:{class}"), detail("Err returned but the destination was replaced"), replay.clone())),
            (Err(_), DestNow::Other) => acc.viol.push((format!("C10:dest-changed-on-failure:{pn}:{class}"), detail("the destination is neither its prior state nor the complete content"), replay.clone())),
        }
        if temp_left {
            acc.viol.push((format!("C10:temp-left:{pn}:{class}"), detail("an in-process pull left the .svspart file behind"), replay.clone()));
        } else if matches!(res, Err(_)) {
            acc.count("failed_pull_left_no_temp", 1);
        }
        if !strays.is_empty() {
            acc.viol.push((format!("C10:stray-file:{pn}:{class}"), detail("unexpected extra files"), replay));
        }
        if acc.samples.is_empty() && sc.seed % 97 == 0 {
            acc.samples.push(json!({"scenario": sc.json(), "result_ok": res.is_ok(), "dest_after": describe_dest(&after, &c.publish)}));
        }
    }

    fn run_faults(args: &Args) -> Report {
        let mut rep = Report::new(
            args,
            "c10-fault-table",
            "scripted fake SVS server x fault table {producer error after chunk k (every k) and at chunk boundary +-1 byte, connection cut \
             after open / after the k-th response / instead of the k-th reply / mid-frame (every k), no end marker then close|error, open \
             error, bad version/compression tag, tag mismatch, rejecting verifier, trailer longer than stream, truncated zstd frame} x \
             pullers {pull_to_file, pull_to_beve_file, pull_to_beve_zst_file, pull_to_file_trailer_verified, pull_to_file_async, \
             pull_to_file_verified_async, pull_to_file_trailer_verified_async; decoding: pull_value, pull_to_vec, pull_typed_slice + async} \
             x {none,zstd} x destination {absent, existing, existing+stale temp}; oracle: directory snapshot before/after",
        );
        let mut rng = Rng::new(args.seed ^ 0xC10F);
        // (payload_len, chunk) layouts: empty, single chunk, exact multiple, 3-4 chunks, larger
        let mut layouts: Vec<(usize, usize)> = vec![(0, 16), (5, 16), (48, 16), (50, 16), (9000, 4096), (8192, 4096), (24576, 8192)];
        if args.thorough() {
            layouts.extend([(1, 1), (7, 1), (64, 7), (300, 64), (200_000, 65536)]);
        }
        let mut scns = vec![];
        for p in FILE_PULLERS.iter().chain(DECODE_PULLERS.iter()).copied() {
            for &zstd in p.compressions() {
                for (li, &(n, chunk)) in layouts.iter().enumerate() {
                    // bits 3..5 of the seed pick the trailer length (content_for): rotate so every length class, the empty
                    // trailer included, meets every puller x compression within a few layouts
                    let seed = (rng.below(1 << 40) & !0x38) | ((((li + zstd as usize * 3 + args.seed as usize) % 8) as u64) << 3);
                    // bits 6..7 pick the content class (shaped): rotate it over the layouts as well
                    let seed = (seed & !0xC0) | ((((li + 1 + zstd as usize) % 4) as u64) << 6);
                    let c = content_for(p, zstd, seed, n);
                    let faults = faults_for(p, zstd, c.wire.len(), chunk);
                    for fault in faults {
                        let dests: Vec<DestState> = if !p.is_file() {
                            vec![DestState::Absent]
                        } else if matches!(fault, Fault::None) {
                            vec![DestState::Absent, DestState::Existing, DestState::ExistingWithStaleTemp]
                        } else {
                            // quick: both absent and existing always; the stale-temp state on a rotating third
                            let mut d = vec![DestState::Absent, DestState::Existing];
                            if rng.chance(1, 3) {
                                d.push(DestState::ExistingWithStaleTemp);
                            }
                            d
                        };
                        for dest in dests {
                            scns.push(Scn { p, zstd, n, chunk, fault: fault.clone(), dest, seed });
                        }
                    }
                }
            }
        }
        rng.shuffle(&mut scns);
        let budget = args.budget(scns.len() as u64, scns.len() as u64) as usize;
        scns.truncate(budget.min(scns.len()).max(1));
        rep.set("scenarios_enumerated", json!(scns.len()));
        let wall = Duration::from_secs(if args.thorough() { 420 } else { 40 });
        let acc = pool(scns, 10, wall, &mut rep, fault_scenario);
        acc.into_report(&mut rep);
        rep.set("same_thread_history_pulls_that_failed_as_scripted", json!(PRE_FAILED.load(std::sync::atomic::Ordering::Relaxed)));
        rep.set("same_thread_history_pulls_that_returned_ok", json!(PRE_OK.load(std::sync::atomic::Ordering::Relaxed)));
        rep.exhaustive = Some(rep.counters.get("work_items_total") == rep.counters.get("work_items_completed"));
        if rep.evaluations == 0 {
            rep.inconclusive("no scenario executed");
        }
        rep
    }

    // ================================================================== stage crash (child side)

    const POINTS: [&str; 7] = ["svs.temp_created", "svs.chunk_fetched", "svs.before_flush", "svs.before_sync", "svs.after_sync", "svs.before_rename", "svs.after_rename"];

    /// extra = [addr, puller, dest, point, nth, reject(0/1), trailer_len, want_digest]
    fn crash_child(args: &Args) {
        let x = &args.extra;
        if x.len() < 8 {
            eprintln!("crash-child: bad arguments {x:?}");
            std::process::exit(11);
        }
        let addr: SocketAddr = x[0].parse().expect("addr");
        let p = Puller::from_name(&x[1]).expect("puller");
        let dest = PathBuf::from(&x[2]);
        let point = x[3].clone();
        let nth: u64 = x[4].parse().unwrap_or(1);
        let reject = x[5] == "1";
        let trailer_len: usize = x[6].parse().unwrap_or(0);
        let want_digest: u64 = x[7].parse().unwrap_or(0);
        let seen = AtomicU64::new(0);
        repe::verif_hooks::set_probe(Some(Arc::new(move |pt: &'static str, id: u64| {
            if !pt.starts_with("svs.") {
                return;
            }
            // unbuffered: one write(2) per event so the log survives the kill
            let line = format!("EV {pt} {id}\n");
            unsafe {
                libc::write(2, line.as_ptr() as *const libc::c_void, line.len());
            }
            if pt == point {
                let n = seen.fetch_add(1, Ordering::SeqCst) + 1;
                if n == nth {
                    let k = format!("KILL {pt} {n}\n");
                    unsafe {
                        libc::write(2, k.as_ptr() as *const libc::c_void, k.len());
                        libc::kill(libc::getpid(), libc::SIGKILL);
                    }
                    // SIGKILL is not deliverable late: never continue past this point
                    loop {
                        std::thread::sleep(Duration::from_secs(1));
                    }
                }
            }
        })));
        let res = if p.is_async() {
            let rt = tokio::runtime::Builder::new_multi_thread().worker_threads(2).enable_all().build().expect("rt");
            rt.block_on(async {
                match AsyncClient::connect(addr).await {
                    Ok(c) => pull_async(p, &c, &dest, reject, trailer_len, want_digest).await,
                    Err(e) => {
                        eprintln!("connect: {e}");
                        std::process::exit(11)
                    }
                }
            })
        } else {
            match Client::connect(addr) {
                Ok(c) => pull_sync(p, &c, &dest, reject, trailer_len),
                Err(e) => {
                    eprintln!("connect: {e}");
                    std::process::exit(11)
                }
            }
        };
        match res {
            Ok(_) => {
                eprintln!("RESULT ok");
                std::process::exit(0)
            }
            Err(e) => {
                eprintln!("RESULT err {e}");
                std::process::exit(10)
            }
        }
    }

    struct ChildRun {
        /// Some(signal) when killed by a signal
        signal: Option<i32>,
        code: Option<i32>,
        stderr: String,
        timed_out: bool,
    }

    fn wait_bounded(mut ch: std::process::Child, limit: Duration) -> ChildRun {
        use std::io::Read;
        use std::os::unix::process::ExitStatusExt;
        let mut err = ch.stderr.take();
        let reader = std::thread::spawn(move || {
            let mut s = String::new();
            if let Some(e) = err.as_mut() {
                let mut b = Vec::new();
                let _ = e.read_to_end(&mut b);
                s = String::from_utf8_lossy(&b).into_owned();
            }
            s
        });
        let start = Instant::now();
        let mut timed_out = false;
        let status = loop {
            match ch.try_wait() {
                Ok(Some(s)) => break Some(s),
                Ok(None) => {
                    if start.elapsed() > limit {
                        let _ = ch.kill();
                        timed_out = true;
                        break ch.wait().ok();
                    }
                    std::thread::sleep(Duration::from_millis(3));
                }
                Err(_) => break None,
            }
        };
        let stderr = reader.join().unwrap_or_default();
        ChildRun { signal: status.and_then(|s| s.signal()), code: status.and_then(|s| s.code()), stderr, timed_out }
    }

    fn child_args(seed: u64, addr: SocketAddr, p: Puller, dest: &Path, point: &str, nth: u64, reject: bool, trailer_len: usize, digest: u64) -> Vec<String> {
        vec![
            "c10".into(),
            "--stage".into(),
            "crash-child".into(),
            "--seed".into(),
            seed.to_string(),
            addr.to_string(),
            p.name().into(),
            dest.to_string_lossy().into_owned(),
            point.into(),
            nth.to_string(),
            (reject as u8).to_string(),
            trailer_len.to_string(),
            digest.to_string(),
        ]
    }

    #[derive(Clone, Debug)]
    struct Cell {
        p: Puller,
        zstd: bool,
        n: usize,
        chunk: usize,
        dest: DestState,
        point: &'static str,
        nth: u64,
        seed: u64,
        /// how the destination is spelled for the child: 0 absolute, 1 bare file name (cwd = its directory), 2 "./name",
        /// 3 "dirname/name" (cwd = the parent directory)
        spelling: u8,
    }

    const SPELLINGS: [&str; 4] = ["absolute", "bare-relative", "dot-relative", "parent-relative"];

    fn crash_cell(cell: Cell, _rt: &Arc<tokio::runtime::Runtime>, acc: &mut Acc) {
        let c = content_for(cell.p, cell.zstd, cell.seed, cell.n);
        let (script, _) = script_for(cell.p, cell.zstd, &c, cell.chunk, &Fault::None);
        let addr = fake_with(script);
        let (dir, before) = prepare_dir(cell.dest);
        let dest = dir.join(DEST);
        let exe = std::env::current_exe().expect("current_exe");
        let (dest_arg, cwd): (PathBuf, Option<PathBuf>) = match cell.spelling {
            1 => (PathBuf::from(DEST), Some(dir.clone())),
            2 => (PathBuf::from(format!("./{DEST}")), Some(dir.clone())),
            3 => (PathBuf::from(dir.file_name().expect("temp dir name")).join(DEST), dir.parent().map(|p| p.to_path_buf())),
            _ => (dest.clone(), None),
        };
        let mut cmd = std::process::Command::new(&exe);
        if let Some(cwd) = &cwd {
            cmd.current_dir(cwd);
        }
        let ch = cmd
            .args(child_args(cell.seed, addr, cell.p, &dest_arg, cell.point, cell.nth, false, c.trailer_len, Fnv::of(&c.logical)))
            .stdin(std::process::Stdio::null())
            .stdout(std::process::Stdio::null())
            .stderr(std::process::Stdio::piped())
            .spawn();
        let ch = match ch {
            Ok(c) => c,
            Err(e) => {
                acc.inconclusive.push(format!("spawn child: {e}"));
                return;
            }
        };
        let run = wait_bounded(ch, Duration::from_secs(20));
        let after = svs::snapshot(&dir);
        let _ = std::fs::remove_dir_all(&dir);
        let pn = cell.p.name();
        let events: Vec<&str> = run.stderr.lines().filter(|l| l.starts_with("EV ")).map(|l| l.split(' ').nth(1).unwrap_or("")).collect();
        acc.count("probe_events_observed_in_children", events.len() as u64);
        let spelling = SPELLINGS[cell.spelling as usize % 4];
        let replay = json!({"puller": pn, "zstd": cell.zstd, "payload_len": cell.n, "chunk": cell.chunk, "dest": format!("{:?}", cell.dest), "kill_point": cell.point, "nth": cell.nth, "seed": cell.seed, "destination_spelling": spelling});
        acc.count(&format!("children_with_{}_destination", spelling.replace('-', "_")), 1);
        if run.timed_out {
            acc.inconclusive.push(format!("child {pn} @ {}#{} exceeded 20 s", cell.point, cell.nth));
            return;
        }
        let cell_id = format!("{pn}/{}/{:?}/{}#{}", if cell.zstd { "zstd" } else { "none" }, cell.dest, cell.point, cell.nth);
        let now = classify(&before, &after, &c.publish);
        let strays: Vec<&String> = after.keys().filter(|k| k.as_str() != DEST && k.as_str() != TEMP).collect();
        let dir_desc = svs::describe_snapshot(&after);
        let order: Vec<String> = {
            let mut o: Vec<String> = vec![];
            for e in &events {
                if o.last().map(|l| l.as_str()) != Some(*e) {
                    o.push(e.to_string());
                }
            }
            o
        };
        if cell.point == "none" {
            // control: the uninterrupted child must publish the complete content
            acc.evals += 1;
            acc.cell(cell_id);
            acc.distinct.push(hash_of(&(pn, cell.zstd, cell.dest, "control", cell.spelling)));
            if run.code == Some(10) && now != DestNow::Prior {
                // the pull reported failure, yet the destination is no longer what it was
                acc.viol.push((
                    format!("C10:failed-pull-changed-destination:{pn}:{spelling}"),
                    format!("uninterrupted child with a {spelling} destination: the pull returned an error ({}) but the destination changed: {}; directory {dir_desc}", trunc(run.stderr.lines().last().unwrap_or(""), 160), describe_dest(&after, &c.publish)),
                    replay,
                ));
            } else if run.code != Some(0) || now != DestNow::Complete || after.contains_key(TEMP) {
                acc.viol.push((
                    format!("C10:control-pull-did-not-publish:{pn}"),
                    format!("uninterrupted child ({spelling} destination) exit={:?} signal={:?}; destination: {}; directory {dir_desc}; stderr tail: {}", run.code, run.signal, describe_dest(&after, &c.publish), trunc(run.stderr.lines().last().unwrap_or(""), 160)),
                    replay,
                ));
            } else {
                acc.count("control_children_published", 1);
                for pt in POINTS {
                    if !events.contains(&pt) {
                        acc.inconclusive.push(format!("probe point {pt} never fired in an uninterrupted {pn}"));
                    }
                }
            }
            return;
        }
        if run.signal != Some(libc::SIGKILL) || !run.stderr.contains("KILL ") {
            // the point was not reached the n-th time
            acc.inconclusive.push(format!("kill point {}#{} never reached in {pn} (child exit={:?} signal={:?})", cell.point, cell.nth, run.code, run.signal));
            return;
        }
        acc.evals += 1;
        acc.cell(cell_id);
        acc.count("children_killed_at_point", 1);
        acc.distinct.push(hash_of(&(pn, cell.zstd, cell.dest, cell.point, cell.nth, cell.n, cell.chunk, cell.spelling)));
        let allowed = if cell.point == "svs.after_rename" { DestNow::Complete } else { DestNow::Prior };
        let d = format!(
            "{pn} ({}, {spelling} destination) killed at {}#{}; probe order seen: {}; destination before: {}; after: {}; directory after: {dir_desc}",
            if cell.zstd { "zstd" } else { "none" },
            cell.point,
            cell.nth,
            order.join(" > "),
            if before.contains_key(DEST) { "prior content" } else { "absent" },
            describe_dest(&after, &c.publish)
        );
        match now {
            DestNow::Other => acc.viol.push((format!("C10:crash-partial-dest:{pn}:{}", cell.point), d, replay)),
            n if n != allowed => {
                let what = if n == DestNow::Complete { "crash-published-early" } else { "crash-not-published-after-rename" };
                acc.viol.push((format!("C10:{what}:{pn}:{}", cell.point), d, replay))
            }
            DestNow::Prior => acc.count("killed_before_rename_destination_prior", 1),
            DestNow::Complete => acc.count("killed_after_rename_destination_complete", 1),
        }
        if after.contains_key(TEMP) {
            acc.count("stale_temp_after_sigkill_allowed", 1);
        }
        if !strays.is_empty() {
            acc.viol.push((format!("C10:stray-file:{pn}:{}", cell.point), format!("unexpected files after the crash: {dir_desc}"), json!({"cell": format!("{cell:?}")})));
        }
        if acc.samples.is_empty() && cell.seed % 13 == 0 {
            acc.samples.push(json!({"cell": format!("{cell:?}"), "probe_order": order, "directory_after": dir_desc}));
        }
    }

    fn run_crash(args: &Args) -> Report {
        let mut rep = Report::new(
            args,
            "c10-crash-points",
            "each file puller x {none,zstd} x destination {absent, existing} x destination spelling {absolute, bare file name, ./name, dir/name relative to the cwd} x kill point {svs.temp_created, svs.chunk_fetched#1..m, \
             svs.before_flush, svs.before_sync, svs.after_sync, svs.before_rename, svs.after_rename} executed in a child process that \
             SIGKILLs itself inside the probe callback; oracle: directory snapshot - destination exactly prior before the rename point, \
             exactly complete after it, never anything else (a stale .svspart is tolerated after SIGKILL); plus one uninterrupted control \
             child per puller/compression/destination",
        );
        let mut rng = Rng::new(args.seed ^ 0xC10C);
        let layouts: Vec<(usize, usize)> = if args.thorough() { vec![(40, 16), (0, 16), (20000, 4096), (9, 1), (300_000, 65536), (48, 16)] } else { vec![(40, 16), (0, 16), (20000, 4096)] };
        let mut cells = vec![];
        for p in FILE_PULLERS {
            for &zstd in p.compressions() {
                for &(n, chunk) in &layouts {
                    let dests: &[DestState] = &[DestState::Absent, DestState::Existing, DestState::ExistingWithStaleTemp];
                    for &dest in dests {
                        let seed = rng.below(1 << 40);
                        let m = svs::split_chunks(&content_for(p, zstd, seed, n).wire, chunk).len() as u64;
                        cells.push(Cell { p, zstd, n, chunk, dest, point: "none", nth: 0, seed, spelling: (seed % 4) as u8 });
                        if (n, chunk) == layouts[0] {
                            // every spelling of the destination gets an uninterrupted control for every puller / compression / state
                            for sp in 0..4u8 {
                                if sp != (seed % 4) as u8 {
                                    cells.push(Cell { p, zstd, n, chunk, dest, point: "none", nth: 0, seed, spelling: sp });
                                }
                            }
                        }
                        for point in POINTS {
                            let nths: Vec<u64> = if point == "svs.chunk_fetched" { (1..=m.min(9)).collect() } else { vec![1] };
                            for nth in nths {
                                cells.push(Cell { p, zstd, n, chunk, dest, point, nth, seed, spelling: ((seed >> 2) % 4) as u8 });
                            }
                        }
                    }
                }
            }
        }
        rng.shuffle(&mut cells);
        let budget = args.budget(cells.len() as u64, cells.len() as u64) as usize;
        cells.truncate(budget.min(cells.len()).max(1));
        rep.set("cells_enumerated", json!(cells.len()));
        let wall = Duration::from_secs(if args.thorough() { 420 } else { 40 });
        let acc = pool(cells, 8, wall, &mut rep, crash_cell);
        acc.into_report(&mut rep);
        rep.exhaustive = Some(rep.counters.get("cells_enumerated") == rep.counters.get("cells_executed"));
        if rep.get_count("children_killed_at_point") == 0 {
            rep.inconclusive("no child was killed at a probe point");
        }
        rep
    }

    // ================================================================== stage strace / inject

    #[derive(Debug, Clone)]
    struct Sys {
        pid: u32,
        name: String,
        args: String,
        ret: i64,
        /// line index where the call started / completed
        start: usize,
        end: usize,
    }

    /// Parse `strace -f -o` output, merging `<unfinished ...>` / `<... resumed>` pairs.
    fn parse_strace(text: &str) -> Vec<Sys> {
        let mut out = vec![];
        let mut pending: BTreeMap<u32, (String, usize)> = BTreeMap::new();
        for (idx, line) in text.lines().enumerate() {
            let line = line.trim_end();
            let Some((pid_s, rest)) = line.split_once(' ') else { continue };
            let Ok(pid) = pid_s.trim().parse::<u32>() else { continue };
            let rest = rest.trim_start();
            if rest.starts_with("+++") || rest.starts_with("---") {
                continue;
            }
            let (full, start) = if let Some(r) = rest.strip_prefix("<... ") {
                let Some((_, tail)) = r.split_once(" resumed>") else { continue };
                let Some((head, st)) = pending.remove(&pid) else { continue };
                (format!("{head}{tail}"), st)
            } else if let Some(i) = rest.find(" <unfinished ...>") {
                pending.insert(pid, (rest[..i].to_string(), idx));
                continue;
            } else {
                (rest.to_string(), idx)
            };
            let Some(op) = full.find('(') else { continue };
            let name = full[..op].to_string();
            let Some(eq) = full.rfind(" = ") else { continue };
            let ret_s = full[eq + 3..].split_whitespace().next().unwrap_or("");
            let ret = ret_s.parse::<i64>().unwrap_or(if ret_s == "?" { i64::MIN } else { -1 });
            let close = full[..eq].rfind(')').unwrap_or(eq);
            let args = full[op + 1..close].to_string();
            out.push(Sys { pid, name, args, ret, start, end: idx });
        }
        out
    }

    fn quoted(args: &str) -> Vec<String> {
        let mut v = vec![];
        let mut cur: Option<String> = None;
        let mut esc = false;
        for ch in args.chars() {
            match (&mut cur, ch) {
                (Some(s), c) if esc => {
                    s.push(c);
                    esc = false;
                }
                (Some(_), '\\') => esc = true,
                (Some(_), '"') => v.push(cur.take().unwrap()),
                (Some(s), c) => s.push(c),
                (None, '"') => cur = Some(String::new()),
                _ => {}
            }
        }
        v
    }

    #[derive(Default, Debug)]
    struct TraceFacts {
        temp_opened: bool,
        temp_writes: usize,
        temp_syncs: usize,
        rename_to_dest: usize,
        rename_ok: bool,
        unlink_temp: bool,
        problems: Vec<(String, String)>,
        syscalls_seen: BTreeMap<String, usize>,
    }

    /// Check the trace against the commit specification.
    fn analyse_trace(sys: &[Sys], dest: &str, temp: &str) -> TraceFacts {
        let mut f = TraceFacts::default();
        let mut temp_fd: Option<i64> = None;
        let mut last_write_end: Option<usize> = None;
        let mut sync_after_last_write: Option<usize> = None;
        for s in sys {
            *f.syscalls_seen.entry(s.name.clone()).or_insert(0) += 1;
            let first_int = s.args.split(',').next().and_then(|a| a.trim().parse::<i64>().ok());
            match s.name.as_str() {
                "openat" | "open" | "creat" => {
                    let paths = quoted(&s.args);
                    let writing = s.args.contains("O_WRONLY") || s.args.contains("O_RDWR") || s.args.contains("O_CREAT") || s.args.contains("O_TRUNC") || s.name == "creat";
                    if paths.iter().any(|p| p == temp) && s.ret >= 0 {
                        f.temp_opened = true;
                        temp_fd = Some(s.ret);
                        last_write_end = None;
                        sync_after_last_write = None;
                    }
                    if paths.iter().any(|p| p == dest) && writing && s.ret >= 0 {
                        f.problems.push(("dest-opened-for-write".into(), format!("the destination itself was opened for writing: {}({})", s.name, trunc(&s.args, 160))));
                    }
                }
                "write" | "pwrite64" | "writev" | "pwritev" | "pwritev2" => {
                    if first_int.is_some() && first_int == temp_fd && s.ret > 0 {
                        f.temp_writes += 1;
                        last_write_end = Some(s.end);
                        if let Some(sy) = sync_after_last_write.take() {
                            f.problems.push(("write-after-sync".into(), format!("the temp file was written (trace line {}) after its fsync (line {sy})", s.start + 1)));
                        }
                    }
                }
                "fsync" | "fdatasync" => {
                    if first_int.is_some() && first_int == temp_fd && s.ret == 0 {
                        f.temp_syncs += 1;
                        sync_after_last_write = Some(s.end);
                    }
                }
                "close" => {
                    if first_int.is_some() && first_int == temp_fd {
                        temp_fd = None;
                    }
                }
                "rename" | "renameat" | "renameat2" => {
                    let paths = quoted(&s.args);
                    if paths.last().map(|p| p == dest).unwrap_or(false) {
                        f.rename_to_dest += 1;
                        f.rename_ok |= s.ret == 0;
                        let from_temp = paths.first().map(|p| p == temp).unwrap_or(false);
                        if !from_temp {
                            f.problems.push(("rename-from-elsewhere".into(), format!("rename onto the destination from {:?}", paths.first())));
                        }
                        match sync_after_last_write {
                            Some(sy) if sy < s.start => {}
                            _ => f.problems.push((
                                "rename-before-sync".into(),
                                format!(
                                    "rename(tmp -> dest) at trace line {} without a completed fsync/fdatasync of the temp file after its last write (last write line {:?}, {} syncs seen)",
                                    s.start + 1,
                                    last_write_end.map(|x| x + 1),
                                    f.temp_syncs
                                ),
                            )),
                        }
                    }
                }
                "unlink" | "unlinkat" => {
                    if quoted(&s.args).iter().any(|p| p == temp) && s.ret == 0 {
                        f.unlink_temp = true;
                    }
                }
                _ => {}
            }
        }
        f
    }

    #[derive(Clone, Debug)]
    struct TraceRun {
        p: Puller,
        zstd: bool,
        fault: Fault,
        dest: DestState,
        seed: u64,
        /// Some((syscall, when)) for the inject stage
        inject: Option<(String, u64)>,
    }

    const TRACE_SET: &str = "trace=open,openat,creat,write,pwrite64,writev,pwritev,fsync,fdatasync,rename,renameat,renameat2,unlink,unlinkat,close,exit_group";

    struct Traced {
        run: ChildRun,
        text: String,
        before: Snapshot,
        after: Snapshot,
        content: Content,
        dest: String,
        temp: String,
        /// the script delivers the whole stream with an end marker and nothing vetoes the commit
        expect_ok: bool,
    }

    fn traced_child(tr: &TraceRun, n: usize, chunk: usize) -> Result<Traced, String> {
        let c = content_for(tr.p, tr.zstd, tr.seed, n);
        let (script, complete) = script_for(tr.p, tr.zstd, &c, chunk, &tr.fault);
        let expect_ok = complete && !matches!(tr.fault, Fault::VerifyReject | Fault::TrailerTooLong | Fault::ZstdTruncated(_));
        let addr = fake_with(script);
        let (dir, before) = prepare_dir(tr.dest);
        let dest = dir.join(DEST);
        let out = dir.with_extension("strace");
        let reject = tr.fault == Fault::VerifyReject;
        let trailer_len = if tr.fault == Fault::TrailerTooLong { c.logical.len() + 3 } else { c.trailer_len };
        let exe = std::env::current_exe().map_err(|e| e.to_string())?;
        let mut cmd = std::process::Command::new("strace");
        cmd.arg("-f").arg("-s").arg("0").arg("-o").arg(&out).arg("-e").arg(TRACE_SET);
        if let Some((sc, when)) = &tr.inject {
            if sc.contains(":error=") {
                // local I/O fault instead of a kill: the n-th <syscall> ON THE TEMP FILE OR THE DESTINATION fails with
                // the given errno (-P restricts tracing, and therefore injection, to syscalls touching those paths, so
                // the runtime's own eventfd/pipe writes are never hit)
                cmd.arg("-P").arg(dir.join(TEMP)).arg("-P").arg(&dest);
                cmd.arg("-e").arg(format!("inject={sc}:when={when}"));
            } else {
                cmd.arg("-e").arg(format!("inject={sc}:signal=SIGKILL:when={when}"));
            }
        }
        cmd.arg(&exe).args(child_args(tr.seed, addr, tr.p, &dest, "none", 0, reject, trailer_len, Fnv::of(&c.logical)));
        cmd.stdin(std::process::Stdio::null()).stdout(std::process::Stdio::null()).stderr(std::process::Stdio::piped());
        let ch = cmd.spawn().map_err(|e| format!("strace unavailable: {e}"))?;
        let run = wait_bounded(ch, Duration::from_secs(30));
        let after = svs::snapshot(&dir);
        let text = std::fs::read_to_string(&out).unwrap_or_default();
        let _ = std::fs::remove_file(&out);
        let _ = std::fs::remove_dir_all(&dir);
        Ok(Traced { run, text, before, after, content: c, dest: dest.to_string_lossy().into_owned(), temp: dir.join(TEMP).to_string_lossy().into_owned(), expect_ok })
    }

    fn ptrace_denied(stderr: &str) -> bool {
        let s = stderr.to_lowercase();
        s.contains("operation not permitted") || s.contains("ptrace(") || s.contains("permission denied")
    }

    fn strace_cell(tr: TraceRun, _rt: &Arc<tokio::runtime::Runtime>, acc: &mut Acc) {
        let (n, chunk) = (20_000usize, 4096usize);
        let t = match traced_child(&tr, n, chunk) {
            Ok(t) => t,
            Err(e) => {
                acc.inconclusive.push(e);
                return;
            }
        };
        let pn = tr.p.name();
        let class = tr.fault.class();
        let replay = json!({"puller": pn, "zstd": tr.zstd, "fault": format!("{:?}", tr.fault), "dest": format!("{:?}", tr.dest), "seed": tr.seed, "inject": format!("{:?}", tr.inject)});
        if t.run.timed_out {
            acc.inconclusive.push(format!("traced child {pn}/{class} exceeded 30 s"));
            return;
        }
        let sys = parse_strace(&t.text);
        if sys.is_empty() {
            let why = if ptrace_denied(&t.run.stderr) { "ptrace denied" } else { "empty trace" };
            acc.inconclusive.push(format!("strace produced no syscalls ({why}): {}", trunc(t.run.stderr.lines().next().unwrap_or(""), 160)));
            return;
        }
        acc.count("syscalls_parsed", sys.len() as u64);
        let f = analyse_trace(&sys, &t.dest, &t.temp);
        let now = classify(&t.before, &t.after, &t.content.publish);
        let dir_desc = svs::describe_snapshot(&t.after);
        if let Some((sc, when)) = &tr.inject {
            if sc.contains(":error=") {
                // injected local I/O error: the process lives on; whatever the pull returned, the destination is
                // exactly prior or exactly complete, and a pull that reported success has published everything
                if !t.text.contains("(INJECTED)") {
                    acc.count("inject_points_not_reached", 1);
                    return;
                }
                acc.evals += 1;
                acc.cell(format!("{pn}/{}/{:?}/inject:{sc}", if tr.zstd { "zstd" } else { "none" }, tr.dest));
                acc.count("children_with_injected_io_error", 1);
                acc.distinct.push(hash_of(&(pn, tr.zstd, tr.dest, sc, when)));
                let scn = sc.replace(":error=", "-");
                match now {
                    DestNow::Other => acc.viol.push((
                        format!("C10:io-error-partial-dest:{pn}:{scn}"),
                        format!("{pn} with {sc} injected at call #{when} (child exit {:?}): destination {}; directory {dir_desc}", t.run.code, describe_dest(&t.after, &t.content.publish)),
                        replay,
                    )),
                    DestNow::Complete if !f.rename_ok => acc.viol.push((format!("C10:crash-published-early:{pn}:{scn}"), format!("{pn} with {sc} injected at call #{when}: destination complete without a successful rename in the trace"), replay)),
                    DestNow::Prior if t.run.code == Some(0) => acc.viol.push((format!("C10:ok-but-not-published:{pn}:{scn}"), format!("{pn} with {sc} injected at call #{when} returned Ok but the destination is unchanged"), replay)),
                    DestNow::Complete => acc.count("io_error_runs_destination_complete", 1),
                    DestNow::Prior => acc.count("io_error_runs_destination_prior", 1),
                }
                return;
            }
            // hook-independent crash point: killed on entry to the n-th <syscall>
            if t.run.signal != Some(libc::SIGKILL) && t.run.code != Some(128 + libc::SIGKILL) && !t.text.contains("killed by SIGKILL") {
                acc.count("inject_points_not_reached", 1);
                return;
            }
            acc.evals += 1;
            acc.cell(format!("{pn}/{}/{:?}/inject:{sc}", if tr.zstd { "zstd" } else { "none" }, tr.dest));
            acc.count("children_killed_by_injection", 1);
            acc.distinct.push(hash_of(&(pn, tr.zstd, tr.dest, sc, when)));
            let renamed = f.rename_ok;
            for (k, d) in &f.problems {
                acc.viol.push((format!("C10:trace:{k}:{pn}"), format!("{pn} (killed on entry to {sc} #{when}): {d}"), replay.clone()));
            }
            match now {
                DestNow::Other => acc.viol.push((
                    format!("C10:crash-partial-dest:{pn}:inject-{sc}"),
                    format!("{pn} killed on entry to {sc} #{when}: destination {}; directory {dir_desc}", describe_dest(&t.after, &t.content.publish)),
                    replay,
                )),
                DestNow::Complete if !renamed => acc.viol.push((
                    format!("C10:crash-published-early:{pn}:inject-{sc}"),
                    format!("{pn} killed on entry to {sc} #{when}: destination is complete although no successful rename(tmp, dest) is in the trace"),
                    replay,
                )),
                DestNow::Complete => acc.count("killed_after_rename_destination_complete", 1),
                DestNow::Prior => acc.count("killed_before_rename_destination_prior", 1),
            }
            return;
        }
        acc.evals += 1;
        acc.cell(format!("{pn}/{}/{class}/{:?}/strace", if tr.zstd { "zstd" } else { "none" }, tr.dest));
        acc.distinct.push(hash_of(&(pn, tr.zstd, &tr.fault, tr.dest)));
        for (k, v) in &f.syscalls_seen {
            acc.count(&format!("syscall_{k}"), *v as u64);
        }
        let facts = format!("temp_opened={} temp_writes={} temp_syncs={} renames_onto_dest={} unlink_temp={}", f.temp_opened, f.temp_writes, f.temp_syncs, f.rename_to_dest, f.unlink_temp);
        for (k, d) in &f.problems {
            acc.viol.push((format!("C10:trace:{k}:{pn}"), format!("{pn} ({class}): {d}; {facts}"), replay.clone()));
        }
        if t.expect_ok {
            if t.run.code != Some(0) {
                acc.inconclusive.push(format!("traced clean pull {pn} exited {:?}/{:?}: {}", t.run.code, t.run.signal, trunc(t.run.stderr.lines().last().unwrap_or(""), 120)));
                return;
            }
            if !f.temp_opened || f.rename_to_dest == 0 {
                acc.viol.push((
                    format!("C10:trace:no-temp-then-rename:{pn}"),
                    format!("a successful {pn} did not go through create(temp) ... rename(temp, dest): {facts}; destination {}", describe_dest(&t.after, &t.content.publish)),
                    replay.clone(),
                ));
            } else if f.problems.is_empty() {
                acc.count("clean_traces_conforming_write_sync_rename", 1);
            }
            if now != DestNow::Complete {
                acc.viol.push((format!("C10:published-wrong-content:{pn}:none"), format!("traced clean pull: destination {}", describe_dest(&t.after, &t.content.publish)), replay));
            }
        } else {
            if t.run.code == Some(0) {
                acc.viol.push((format!("C10:published-after-fault:{pn}:{class}"), format!("traced failing pull returned Ok; destination {}", describe_dest(&t.after, &t.content.publish)), replay.clone()));
            }
            if f.rename_to_dest > 0 {
                acc.viol.push((format!("C10:trace:rename-on-failed-pull:{pn}:{class}"), format!("a failing pull issued rename onto the destination; {facts}"), replay.clone()));
            } else {
                acc.count("failing_traces_without_rename_onto_dest", 1);
            }
            if now != DestNow::Prior {
                acc.viol.push((format!("C10:dest-changed-on-failure:{pn}:{class}"), format!("traced failing pull: destination {}", describe_dest(&t.after, &t.content.publish)), replay));
            }
            if f.temp_opened && f.unlink_temp {
                acc.count("failing_traces_unlinking_temp", 1);
            }
        }
        if acc.samples.is_empty() && t.expect_ok {
            let lines: Vec<String> = sys
                .iter()
                .filter(|s| s.args.contains(".svspart") || matches!(s.name.as_str(), "fsync" | "fdatasync") || s.name.starts_with("rename"))
                .take(12)
                .map(|s| format!("{} {}({}) = {}", s.pid, s.name, trunc(&s.args.replace(&t.dest, "<dest>"), 100), s.ret))
                .collect();
            acc.samples.push(json!({"puller": pn, "zstd": tr.zstd, "commit_syscalls": lines}));
        }
    }

    fn strace_available() -> Result<(), String> {
        let out = std::process::Command::new("strace").arg("-f").arg("-o").arg("/dev/null").arg("-e").arg("trace=write").arg("true").output();
        match out {
            Err(e) => Err(format!("strace not runnable: {e}")),
            Ok(o) if !o.status.success() => Err(format!("strace cannot trace here: {}", trunc(String::from_utf8_lossy(&o.stderr).lines().next().unwrap_or(""), 200))),
            Ok(_) => Ok(()),
        }
    }

    fn run_strace(args: &Args, inject: bool) -> Report {
        let mut rep = Report::new(
            args,
            if inject { "c10-strace-inject" } else { "c10-strace-spec" },
            if inject {
                "child pulls under strace -f with inject=<syscall>:signal=SIGKILL:when=N for syscall in {write, fsync, rename*, openat, close, \
                 unlink}: a hook-independent enumeration of crash points; oracle: destination exactly prior or exactly complete (complete only \
                 with a successful rename in the trace)"
            } else {
                "child pulls (clean, and failing: producer error after chunk 1, cut after response 1, no end marker, rejecting verifier, trailer \
                 too long) under strace -f -e trace=open*,write*,fsync,fdatasync,rename*,unlink*,close; trace specification: every write to \
                 the temp fd precedes a completed fsync/fdatasync of that fd which precedes rename(tmp, dest); no write to the temp fd after \
                 the sync; the destination is never opened for writing; no rename onto dest on any failing run"
            },
        );
        if let Err(e) = strace_available() {
            rep.inconclusive(e);
            return rep;
        }
        let mut rng = Rng::new(args.seed ^ 0xC105);
        let mut runs = vec![];
        for p in FILE_PULLERS {
            for &zstd in p.compressions() {
                if inject {
                    let syscalls: &[(&str, u64)] = if args.thorough() {
                        &[("write", 16), ("fsync", 2), ("rename", 2), ("openat", 40), ("close", 30), ("unlink", 2), ("exit_group", 1), ("write:error=ENOSPC", 16), ("write:error=EFBIG", 16), ("fsync:error=EIO", 2), ("rename:error=EXDEV", 1), ("close:error=EIO", 12)]
                    } else {
                        &[("write", 8), ("fsync", 1), ("rename", 1), ("exit_group", 1), ("write:error=ENOSPC", 8), ("fsync:error=EIO", 1)]
                    };
                    for (sc, maxn) in syscalls {
                        for when in 1..=*maxn {
                            let dest = if rng.coin() { DestState::Existing } else { DestState::Absent };
                            runs.push(TraceRun { p, zstd, fault: Fault::None, dest, seed: rng.below(1 << 39) * 2, inject: Some((sc.to_string(), when)) });
                        }
                    }
                } else {
                    let mut faults = vec![Fault::None, Fault::ErrAfterChunks(1), Fault::CutAfterResp(1), Fault::NoEndClose];
                    if p.verified() {
                        faults.push(Fault::VerifyReject);
                    }
                    if p.trailer() {
                        faults.push(Fault::TrailerTooLong);
                    }
                    if args.thorough() {
                        faults.extend([Fault::ErrAfterChunks(0), Fault::CutMidFrame(1), Fault::NoEndError, Fault::CutNoReply(2), Fault::OpenError]);
                    }
                    for fault in faults {
                        let dests: Vec<DestState> = if args.thorough() || fault == Fault::None { vec![DestState::Absent, DestState::Existing] } else { vec![if rng.coin() { DestState::Existing } else { DestState::Absent }] };
                        for dest in dests {
                            runs.push(TraceRun { p, zstd, fault: fault.clone(), dest, seed: rng.below(1 << 39) * 2, inject: None });
                        }
                    }
                }
            }
        }
        rng.shuffle(&mut runs);
        let budget = args.budget(runs.len() as u64, runs.len() as u64) as usize;
        runs.truncate(budget.min(runs.len()).max(1));
        rep.set("traced_runs_enumerated", json!(runs.len()));
        let wall = Duration::from_secs(if args.thorough() { 420 } else { 40 });
        let acc = pool(runs, 6, wall, &mut rep, strace_cell);
        acc.into_report(&mut rep);
        if rep.evaluations == 0 && rep.inconclusive.is_empty() {
            rep.inconclusive("no traced run was evaluated");
        }
        rep
    }
}
