//! C01, client side — every request-emitting entry point of Client, AsyncClient, WebSocketClient, Fleet and AsyncFleet
//! and the two pass-through routes (AsyncClient::forward_message, proxy_connection) observed by RAW capture peers.
//!
//! Oracle: the spec codec in oracle.rs. For every call the harness knows the logical message (notify flag, query bytes,
//! query format, body bytes, body format); the capture peer records the bytes that arrived; they must equal the spec frame
//! for that logical message with the id the client chose. Since every route is compared with the same spec frame, all
//! client-side routes are compared pairwise with each other and with the in-process routes of `c01::run`.
//! For the pass-through routes the logical message is the frame handed in: upstream must see it byte for byte, and the
//! reply the raw upstream sends (arbitrary reserved bits, format codes, error code, query, body) must come back byte for byte.

use crate::common::*;
use crate::oracle::{self, SpecHeader};
use futures_util::{SinkExt, StreamExt};
use repe::{AsyncClient, AsyncFleet, Client, Fleet, FleetOptions, Message, NodeConfig, RetryPolicy, WebSocketClient};
use serde_json::{Value, json};
use std::io::{Read, Write};
use std::net::{SocketAddr, TcpListener, TcpStream};
use std::sync::{Arc, Mutex};
use std::time::{Duration, Instant};
use tokio_tungstenite::tungstenite::Message as WsMsg;

const MAX_FRAME: u64 = 8 << 20;
const T: Duration = Duration::from_secs(20);

/// What the capture peer answers with (everything except the id, which echoes the request's).
#[derive(Clone, Default)]
struct Reply {
    /// None: echo mode (query echoed; body echoed with its format, or JSON `null` for an empty request body)
    fixed: Option<(SpecHeader, Vec<u8>, Vec<u8>)>,
}

#[derive(Default)]
pub(crate) struct Shared {
    frames: Mutex<Vec<Vec<u8>>>,
    replies_sent: Mutex<Vec<Vec<u8>>>,
    reply: Mutex<Reply>,
    junk: Mutex<Option<String>>,
    /// one-shot: deliver the next reply in two pieces, cut at this byte offset, with this pause (ms) in between
    split_reply: Mutex<Option<(usize, u64)>>,
}

impl Shared {
    fn reply_for(&self, req: &[u8]) -> Option<Vec<u8>> {
        let h = SpecHeader::decode(req);
        if h.notify == 1 {
            return None;
        }
        let q = &req[48..48 + h.query_length as usize];
        let b = &req[48 + h.query_length as usize..];
        let out = match &self.reply.lock().unwrap().fixed {
            Some((rh, rq, rb)) => oracle::frame(SpecHeader { id: h.id, ..*rh }, rq, rb),
            None => {
                let (bf, body): (u16, &[u8]) = if b.is_empty() { (2, b"null") } else { (h.body_format, b) };
                oracle::frame(SpecHeader { spec: oracle::SPEC, version: 1, id: h.id, query_format: h.query_format, body_format: bf, ..Default::default() }, q, body)
            }
        };
        self.replies_sent.lock().unwrap().push(out.clone());
        Some(out)
    }
    pub(crate) fn take_frames(&self) -> Vec<Vec<u8>> {
        std::mem::take(&mut *self.frames.lock().unwrap())
    }
    fn wait_frames(&self, n: usize) -> bool {
        let end = Instant::now() + T;
        while Instant::now() < end {
            if self.frames.lock().unwrap().len() >= n {
                return true;
            }
            std::thread::sleep(Duration::from_micros(200));
        }
        false
    }
}

/// Raw TCP capture peer: splits the byte stream on the declared lengths only (spec oracle), records every frame verbatim.
pub(crate) fn tcp_capture() -> (SocketAddr, Arc<Shared>) {
    let l = TcpListener::bind("127.0.0.1:0").expect("bind");
    let addr = l.local_addr().unwrap();
    let sh = Arc::new(Shared::default());
    let sh2 = sh.clone();
    std::thread::spawn(move || {
        for s in l.incoming() {
            let Ok(s) = s else { break };
            let sh = sh2.clone();
            std::thread::spawn(move || tcp_conn(s, sh));
        }
    });
    (addr, sh)
}

fn tcp_conn(mut s: TcpStream, sh: Arc<Shared>) {
    let _ = s.set_nodelay(true);
    loop {
        let mut hdr = [0u8; 48];
        let mut got = 0;
        while got < 48 {
            match s.read(&mut hdr[got..]) {
                Ok(0) => {
                    if got != 0 {
                        *sh.junk.lock().unwrap() = Some(format!("stream ended {got} bytes into a header: {}", hex(&hdr[..got])));
                    }
                    return;
                }
                Ok(n) => got += n,
                Err(_) => return,
            }
        }
        let h = SpecHeader::decode(&hdr);
        if !h.consistent() || h.length > MAX_FRAME {
            *sh.junk.lock().unwrap() = Some(format!("header is not a consistent frame header: {}", hex(&hdr)));
            return;
        }
        let mut f = hdr.to_vec();
        f.resize(h.length as usize, 0);
        if s.read_exact(&mut f[48..]).is_err() {
            *sh.junk.lock().unwrap() = Some(format!("stream ended inside the payload of a frame declaring {} bytes", h.length));
            return;
        }
        let reply = sh.reply_for(&f);
        sh.frames.lock().unwrap().push(f);
        if let Some(r) = reply {
            let split = sh.split_reply.lock().unwrap().take();
            let ok = match split {
                Some((cut, ms)) if cut > 0 && cut < r.len() => {
                    let a = s.write_all(&r[..cut]).and_then(|_| s.flush());
                    std::thread::sleep(Duration::from_millis(ms));
                    a.and_then(|_| s.write_all(&r[cut..])).is_ok()
                }
                _ => s.write_all(&r).is_ok(),
            };
            if !ok {
                return;
            }
        }
    }
}

/// Serializes as a map with tuple keys: serde_json writes the opening bytes and then fails ("key must be a string").
struct BadBody(u64);
impl serde::Serialize for BadBody {
    fn serialize<S: serde::Serializer>(&self, ser: S) -> Result<S::Ok, S::Error> {
        use serde::ser::SerializeMap;
        let mut m = ser.serialize_map(Some(2))?;
        m.serialize_entry("device", &format!("probe-{}", self.0))?;
        m.serialize_entry(&(1u8, 2u8), &self.0)?;
        m.end()
    }
}

/// Raw WebSocket capture peer: every binary message is recorded verbatim.
pub(crate) async fn ws_capture() -> (SocketAddr, Arc<Shared>) {
    let l = tokio::net::TcpListener::bind("127.0.0.1:0").await.expect("bind");
    let addr = l.local_addr().unwrap();
    let sh = Arc::new(Shared::default());
    let sh2 = sh.clone();
    tokio::spawn(async move {
        loop {
            let Ok((s, _)) = l.accept().await else { break };
            let sh = sh2.clone();
            tokio::spawn(async move {
                let Ok(mut ws) = tokio_tungstenite::accept_async(s).await else { return };
                while let Some(Ok(m)) = ws.next().await {
                    match m {
                        WsMsg::Binary(b) => {
                            let b = b.to_vec();
                            if b.len() < 48 || !SpecHeader::decode(&b).consistent() || SpecHeader::decode(&b).length != b.len() as u64 {
                                *sh.junk.lock().unwrap() = Some(format!("binary message is not exactly one frame: {}", hex_trunc(&b, 80)));
                                sh.frames.lock().unwrap().push(b);
                                continue;
                            }
                            let reply = sh.reply_for(&b);
                            sh.frames.lock().unwrap().push(b);
                            if let Some(r) = reply {
                                if ws.send(WsMsg::Binary(r.into())).await.is_err() {
                                    return;
                                }
                            }
                        }
                        WsMsg::Close(_) => break,
                        WsMsg::Text(t) => *sh.junk.lock().unwrap() = Some(format!("text message {:?}", trunc(&t.to_string(), 60))),
                        _ => {}
                    }
                }
            });
        }
    });
    (addr, sh)
}

// ------------------------------------------------------------------ logical messages

#[derive(Clone, Debug)]
struct Logical {
    notify: u8,
    query: Vec<u8>,
    qf: u16,
    body: Vec<u8>,
    bf: u16,
}

fn rand_path(r: &mut Rng) -> String {
    const SEG: [&str; 12] = ["a", "b~1c", "~0", "é", "日本", "x y", "0", "", "k\"q", "Z9", "%2F", "\u{1F600}"];
    match r.below(12) {
        0 => String::new(),
        1 => "/".into(),
        2 => {
            // long: around the 255/256 and 8191/8192 boundaries
            let n = *r.pick(&[200usize, 255, 256, 300, 8180, 8192 - 48, 8192, 9000]);
            let mut s = String::from("/");
            while s.len() < n {
                s.push((b'a' + r.below(26) as u8) as char);
            }
            s
        }
        _ => {
            let k = 1 + r.usize_below(5);
            let mut s = String::new();
            for _ in 0..k {
                s.push('/');
                s.push_str(r.pick(&SEG));
            }
            s
        }
    }
}

fn rand_json(r: &mut Rng, depth: u32) -> Value {
    match r.below(if depth == 0 { 7 } else { 9 }) {
        0 => Value::Null,
        1 => json!(r.coin()),
        2 => json!(r.boundary_u64()),
        3 => json!(r.boundary_u64() as i64),
        4 => json!((r.below(2_000_001) as f64 - 1_000_000.0) / 64.0),
        5 => {
            let n = *r.pick(&[0usize, 1, 7, 40, 300, 5000]);
            let s: String = (0..n).map(|_| *r.pick(&['a', 'Z', ' ', '"', '\\', '\n', 'é', '日', '\u{1F600}', '0'])).collect();
            json!(s)
        }
        6 => json!([]),
        7 => Value::Array((0..r.usize_below(5)).map(|_| rand_json(r, depth - 1)).collect()),
        _ => Value::Object((0..r.usize_below(4)).map(|i| (format!("k{i}{}", r.pick(&["", "é", " "])), rand_json(r, depth - 1))).collect()),
    }
}

#[derive(Clone, Copy, Debug, PartialEq, Eq, Hash)]
enum Api {
    CallJson,
    CallJsonTimeout,
    CallTypedJson,
    CallTypedJsonTimeout,
    CallTypedBeve,
    CallTypedBeveTimeout,
    CallTypedSlice,
    CallTypedSliceTimeout,
    CallTypedSliceAligned,
    CallTypedSliceAlignedTimeout,
    CallMessage,
    CallMessageTimeout,
    CallWithFormats,
    CallWithFormatsTimeout,
    RegistryRead,
    RegistryReadTyped,
    RegistryReadTimeout,
    RegistryReadTypedTimeout,
    RegistryWriteJson,
    RegistryCallJson,
    NotifyJson,
    NotifyTypedJson,
    NotifyTypedBeve,
    NotifyWithFormats,
    BatchJson,
    BatchJsonTimeout,
    Forward,
    ForwardTimeout,
    FleetCallJson,
    FleetCallJsonNoParams,
    FleetCallMessage,
    FleetBroadcast,
}
const COMMON: [Api; 24] = [
    Api::CallJson, Api::CallJsonTimeout, Api::CallTypedJson, Api::CallTypedJsonTimeout, Api::CallTypedBeve, Api::CallTypedBeveTimeout,
    Api::CallMessage, Api::CallMessageTimeout, Api::CallWithFormats, Api::CallWithFormatsTimeout, Api::RegistryRead, Api::RegistryReadTyped,
    Api::RegistryReadTimeout, Api::RegistryReadTypedTimeout, Api::RegistryWriteJson, Api::RegistryCallJson, Api::NotifyJson, Api::NotifyTypedJson,
    Api::NotifyTypedBeve, Api::NotifyWithFormats, Api::BatchJson, Api::BatchJsonTimeout, Api::CallWithFormats, Api::NotifyWithFormats,
];
const TCP_ONLY: [Api; 4] = [Api::CallTypedSlice, Api::CallTypedSliceTimeout, Api::CallTypedSliceAligned, Api::CallTypedSliceAlignedTimeout];
const ASYNC_ONLY: [Api; 2] = [Api::Forward, Api::ForwardTimeout];
const FLEET: [Api; 4] = [Api::FleetCallJson, Api::FleetCallJsonNoParams, Api::FleetCallMessage, Api::FleetBroadcast];

/// One planned call: the API, its arguments, and the logical messages that must appear (in order) at the peer.
struct Plan {
    api: Api,
    path: String,
    value: Value,
    qf: u16,
    bf: u16,
    raw_body: Option<Vec<u8>>,
    slice: Vec<f64>,
    batch: Vec<(String, Value)>,
    fwd: Option<Message>,
    expect: Vec<Logical>,
}

fn beve_bytes(v: &Value) -> Vec<u8> {
    Message::builder().body_beve(v).expect("beve").build().body
}

fn plan(r: &mut Rng, api: Api) -> Plan {
    let path = rand_path(r);
    let value = rand_json(r, 3);
    let q = path.as_bytes().to_vec();
    let jbody = serde_json::to_vec(&value).unwrap();
    let lg = |notify: u8, qf: u16, body: Vec<u8>, bf: u16| Logical { notify, query: q.clone(), qf, body, bf };
    let mut p = Plan { api, path: path.clone(), value: value.clone(), qf: 1, bf: 2, raw_body: None, slice: vec![], batch: vec![], fwd: None, expect: vec![] };
    match api {
        Api::CallJson | Api::CallJsonTimeout | Api::CallTypedJson | Api::CallTypedJsonTimeout | Api::RegistryWriteJson | Api::RegistryCallJson | Api::FleetCallJson | Api::FleetBroadcast => {
            p.expect.push(lg(0, 1, jbody, 2))
        }
        Api::CallTypedBeve | Api::CallTypedBeveTimeout => p.expect.push(lg(0, 1, beve_bytes(&value), 1)),
        Api::CallTypedSlice | Api::CallTypedSliceTimeout => {
            let n = *r.pick(&[0usize, 1, 2, 3, 7, 8, 100, 1017, 1018, 1019, 5000]);
            p.slice = (0..n).map(|_| f64::from_bits(r.boundary_u64())).collect();
            let body = Message::builder().body_typed_slice(&p.slice).build().body;
            p.expect.push(lg(0, 1, body, 1));
        }
        Api::CallTypedSliceAligned | Api::CallTypedSliceAlignedTimeout => {
            // the aligned form pads for the payload's offset in the FRAME (48 + query length): the reference is the builder with
            // the query set first, as its contract says
            let n = *r.pick(&[0usize, 1, 2, 3, 7, 8, 33, 100, 1017]);
            p.slice = (0..n).map(|_| f64::from_bits(r.boundary_u64())).collect();
            let body = Message::builder().query_str(&path).body_aligned_typed_slice(&p.slice).build().body;
            p.expect.push(lg(0, 1, body, 1));
        }
        Api::CallMessage | Api::CallMessageTimeout | Api::RegistryRead | Api::RegistryReadTyped | Api::RegistryReadTimeout | Api::RegistryReadTypedTimeout | Api::FleetCallJsonNoParams | Api::FleetCallMessage => {
            p.expect.push(lg(0, 1, vec![], 0))
        }
        Api::CallWithFormats | Api::CallWithFormatsTimeout | Api::NotifyWithFormats => {
            p.qf = if r.coin() { r.boundary_u16() } else { r.below(3) as u16 };
            p.bf = if r.coin() { r.boundary_u16() } else { r.below(5) as u16 };
            let rbl = *r.pick(&[0usize, 1, 8, 47, 48, 49, 1000, 8191, 8192, 8193, 40000]);
            p.raw_body = if r.below(4) == 0 { None } else { Some(r.bytes(rbl)) };
            let notify = (api == Api::NotifyWithFormats) as u8;
            p.expect.push(lg(notify, p.qf, p.raw_body.clone().unwrap_or_default(), p.bf));
        }
        Api::NotifyJson | Api::NotifyTypedJson => p.expect.push(lg(1, 1, jbody, 2)),
        Api::NotifyTypedBeve => p.expect.push(lg(1, 1, beve_bytes(&value), 1)),
        Api::BatchJson | Api::BatchJsonTimeout => {
            let n = 1 + r.usize_below(6);
            for _ in 0..n {
                let (bp, bv) = (rand_path(r), rand_json(r, 2));
                p.expect.push(Logical { notify: 0, query: bp.as_bytes().to_vec(), qf: 1, body: serde_json::to_vec(&bv).unwrap(), bf: 2 });
                p.batch.push((bp, bv));
            }
        }
        Api::Forward | Api::ForwardTimeout => {
            let (h, fq, fb) = arbitrary_frame(r, true);
            let bytes = oracle::frame(h, &fq, &fb);
            p.fwd = Some(Message::from_slice_exact(&bytes).expect("harness: a spec-consistent frame must parse"));
            p.expect.push(Logical { notify: h.notify, query: fq, qf: h.query_format, body: fb, bf: h.body_format });
        }
    }
    p
}

/// A spec-consistent frame with every header field arbitrary (version 1 unless `any_version`).
fn arbitrary_frame(r: &mut Rng, any_version: bool) -> (SpecHeader, Vec<u8>, Vec<u8>) {
    let ql = *r.pick(&[0usize, 1, 2, 7, 8, 47, 48, 49, 255, 1000, 8191, 8192, 8193]);
    let bl = *r.pick(&[0usize, 1, 2, 7, 8, 47, 48, 49, 255, 4096, 8191, 8192, 8193, 65535, 65536]);
    let h = SpecHeader {
        spec: oracle::SPEC,
        version: if any_version && r.below(6) == 0 { r.boundary_u8() } else { 1 },
        notify: match r.below(8) {
            0 | 1 => 1,
            2 => 2 + r.below(254) as u8,
            _ => 0,
        },
        reserved: if r.coin() { r.boundary_u32() } else { 0 },
        id: r.boundary_u64(),
        query_format: if r.coin() { r.boundary_u16() } else { 1 },
        body_format: if r.coin() { r.boundary_u16() } else { r.below(4) as u16 },
        ec: if r.below(3) == 0 { r.boundary_u32() } else { 0 },
        ..Default::default()
    };
    (h, r.bytes(ql), r.bytes(bl))
}

fn judge(rep: &mut Report, who: &str, p: &Plan, frames: &[Vec<u8>], ids_seen: &mut std::collections::HashSet<u64>, check_ids: bool) {
    let api = format!("{:?}", p.api);
    let replay = json!({"who": who, "api": api, "path": p.path, "value": p.value, "qf": p.qf, "bf": p.bf, "raw_body": p.raw_body.as_ref().map(|b| hex_trunc(b, 64)), "slice_len": p.slice.len(), "batch": p.batch});
    if frames.len() != p.expect.len() {
        rep.violation(format!("C01:client-frame-count:{who}:{api}"), format!("{who}.{api}: {} frame(s) reached the peer, {} expected", frames.len(), p.expect.len()), replay);
        return;
    }
    // a batch is written concurrently: match frames to expectations as a multiset (ids are the client's choice)
    let mut left: Vec<&Logical> = p.expect.iter().collect();
    for f in frames {
        let h = SpecHeader::decode(f);
        let pos = left.iter().position(|l| oracle::frame(SpecHeader { spec: oracle::SPEC, version: 1, notify: l.notify, id: h.id, query_format: l.qf, body_format: l.bf, ..Default::default() }, &l.query, &l.body) == *f);
        match pos {
            Some(i) => {
                left.remove(i);
                rep.count("client_frames_identical_to_spec_frame", 1);
            }
            None => {
                let l = left[0];
                let want = oracle::frame(SpecHeader { spec: oracle::SPEC, version: 1, notify: l.notify, id: if p.fwd.is_some() { p.fwd.as_ref().unwrap().header.id } else { h.id }, query_format: l.qf, body_format: l.bf, ..Default::default() }, &l.query, &l.body);
                let field = crate::c03::first_diff_field(f, &want);
                rep.violation(format!("C01:client-frame-differs:{who}:{api}:{field}"), format!("{who}.{api}: bytes at the peer differ from the spec frame of the logical message in {field}; got {} want {}", hex_trunc(f, 96), hex_trunc(&want, 96)), replay.clone());
                return;
            }
        }
        if check_ids && !ids_seen.insert(h.id) {
            // not a C01 clause, but a reused id would make the capture ambiguous
            rep.count("client_reused_an_id", 1);
        }
    }
}

/// Forward routes: the frame handed in must arrive unchanged (all 48 header bytes, id included).
fn judge_forward(rep: &mut Report, who: &str, sent: &[u8], frames: &[Vec<u8>], what: &str) -> bool {
    if frames.len() != 1 || frames[0] != sent {
        let got = frames.first().map(|f| hex_trunc(f, 96)).unwrap_or_else(|| "nothing".into());
        let field = frames.first().map(|f| crate::c03::first_diff_field(f, sent)).unwrap_or("missing");
        rep.violation(format!("C01:passthrough-differs:{who}:{what}:{field}"), format!("{who}: {what} frame is not byte-identical after the pass-through ({} frame(s); field {field}); got {got} want {}", frames.len(), hex_trunc(sent, 96)), json!({"who": who, "what": what, "frame": hex(sent)}));
        return false;
    }
    true
}

enum AnyClient {
    Sync(Client),
    Async(AsyncClient),
    Ws(WebSocketClient),
}

fn run_call(c: &AnyClient, rt: &tokio::runtime::Runtime, p: &Plan) -> Result<(), String> {
    let e = |x: repe::RepeError| x.to_string();
    let (path, v) = (&p.path, &p.value);
    let rb = p.raw_body.as_deref();
    macro_rules! common {
        ($c:expr, $w:ident) => {
            match p.api {
                Api::CallJson => $w!($c.call_json(path, v)).map(|_| ()).map_err(e),
                Api::CallJsonTimeout => $w!($c.call_json_with_timeout(path, v, T)).map(|_| ()).map_err(e),
                Api::CallTypedJson => $w!($c.call_typed_json::<_, _, Value>(path, v)).map(|_| ()).map_err(e),
                Api::CallTypedJsonTimeout => $w!($c.call_typed_json_with_timeout::<_, _, Value>(path, v, T)).map(|_| ()).map_err(e),
                Api::CallTypedBeve => $w!($c.call_typed_beve::<_, _, Value>(path, v)).map(|_| ()).map_err(e),
                Api::CallTypedBeveTimeout => $w!($c.call_typed_beve_with_timeout::<_, _, Value>(path, v, T)).map(|_| ()).map_err(e),
                Api::CallMessage => $w!($c.call_message(path)).map(|_| ()).map_err(e),
                Api::CallMessageTimeout => $w!($c.call_message_with_timeout(path, T)).map(|_| ()).map_err(e),
                Api::CallWithFormats => $w!($c.call_with_formats(path, p.qf, rb, p.bf)).map(|_| ()).map_err(e),
                Api::CallWithFormatsTimeout => $w!($c.call_with_formats_and_timeout(path, p.qf, rb, p.bf, T)).map(|_| ()).map_err(e),
                Api::RegistryRead => $w!($c.registry_read(path)).map(|_| ()).map_err(e),
                Api::RegistryReadTyped => $w!($c.registry_read_typed::<_, Value>(path)).map(|_| ()).map_err(e),
                Api::RegistryReadTimeout => $w!($c.registry_read_with_timeout(path, T)).map(|_| ()).map_err(e),
                Api::RegistryReadTypedTimeout => $w!($c.registry_read_typed_with_timeout::<_, Value>(path, T)).map(|_| ()).map_err(e),
                Api::RegistryWriteJson => $w!($c.registry_write_json(path, v)).map(|_| ()).map_err(e),
                Api::RegistryCallJson => $w!($c.registry_call_json(path, v)).map(|_| ()).map_err(e),
                Api::NotifyJson => $w!($c.notify_json(path, v)).map_err(e),
                Api::NotifyTypedJson => $w!($c.notify_typed_json(path, v)).map_err(e),
                Api::NotifyTypedBeve => $w!($c.notify_typed_beve(path, v)).map_err(e),
                Api::NotifyWithFormats => $w!($c.notify_with_formats(path, p.qf, rb, p.bf)).map_err(e),
                Api::BatchJson => $w!($c.batch_json(p.batch.clone())).into_iter().map(|r| r.map(|_| ()).map_err(e)).collect::<Result<Vec<_>, _>>().map(|_| ()),
                Api::BatchJsonTimeout => $w!($c.batch_json_with_timeout(p.batch.clone(), T)).into_iter().map(|r| r.map(|_| ()).map_err(e)).collect::<Result<Vec<_>, _>>().map(|_| ()),
                _ => Err("harness: api not available on this client".into()),
            }
        };
    }
    macro_rules! now {
        ($x:expr) => {
            $x
        };
    }
    macro_rules! blk {
        ($x:expr) => {
            rt.block_on($x)
        };
    }
    match c {
        AnyClient::Sync(c) => match p.api {
            Api::CallTypedSlice => c.call_typed_slice::<_, f64, f64>(path, &p.slice).map(|_| ()).map_err(e),
            Api::CallTypedSliceTimeout => c.call_typed_slice_with_timeout::<_, f64, f64>(path, &p.slice, T).map(|_| ()).map_err(e),
            Api::CallTypedSliceAligned => c.call_typed_slice_aligned::<_, f64, f64>(path, &p.slice).map(|_| ()).map_err(e),
            Api::CallTypedSliceAlignedTimeout => c.call_typed_slice_aligned_with_timeout::<_, f64, f64>(path, &p.slice, T).map(|_| ()).map_err(e),
            _ => common!(c, now),
        },
        AnyClient::Async(c) => match p.api {
            Api::CallTypedSlice => rt.block_on(c.call_typed_slice::<_, f64, f64>(path, &p.slice)).map(|_| ()).map_err(e),
            Api::CallTypedSliceTimeout => rt.block_on(c.call_typed_slice_with_timeout::<_, f64, f64>(path, &p.slice, T)).map(|_| ()).map_err(e),
            Api::CallTypedSliceAligned => rt.block_on(c.call_typed_slice_aligned::<_, f64, f64>(path, &p.slice)).map(|_| ()).map_err(e),
            Api::CallTypedSliceAlignedTimeout => rt.block_on(c.call_typed_slice_aligned_with_timeout::<_, f64, f64>(path, &p.slice, T)).map(|_| ()).map_err(e),
            Api::Forward => rt.block_on(c.forward_message(p.fwd.as_ref().unwrap())).map(|_| ()).map_err(e),
            Api::ForwardTimeout => rt.block_on(c.forward_message_with_timeout(p.fwd.as_ref().unwrap(), T)).map(|_| ()).map_err(e),
            _ => common!(c, blk),
        },
        AnyClient::Ws(c) => common!(c, blk),
    }
}

/// A proxy (tokio_tungstenite accept + repe::proxy_connection) in front of a raw TCP capture peer.
fn start_proxy(rt: &tokio::runtime::Runtime) -> (SocketAddr, Arc<Shared>) {
    let (ua, ush) = tcp_capture();
    let proxy_addr = rt.block_on(async {
        let l = tokio::net::TcpListener::bind("127.0.0.1:0").await.expect("bind");
        let addr = l.local_addr().unwrap();
        tokio::spawn(async move {
            loop {
                let Ok((s, _)) = l.accept().await else { break };
                tokio::spawn(async move {
                    let Ok(ws) = tokio_tungstenite::accept_async(s).await else { return };
                    let Ok(up) = AsyncClient::connect(ua).await else { return };
                    let _ = repe::proxy_connection(ws, up).await;
                });
            }
        });
        addr
    });
    (proxy_addr, ush)
}

#[allow(clippy::too_many_arguments)]
fn proxy_non_frame_messages(args: &Args, rep: &mut Report, rt: &tokio::runtime::Runtime, rng: &mut Rng, proxy_addr: SocketAddr, ush: &Arc<Shared>, deadline: Instant, prefix: &str) {
    // ---- part D: a downstream message that is NOT exactly one frame (a frame followed by more bytes, two frames glued together,
    // a frame cut short). Whatever the proxy decides to do with it, what reaches the upstream connection is whole frames only:
    // either nothing, or exactly the one frame the message starts with — never the stray bytes.
    let mut odd = 0u64;
    let res: Result<(), String> = rt.block_on(async {
        for i in 0..args.budget(120, 2000) {
            if Instant::now() > deadline {
                break;
            }
            let mut r = rng.fork(3_000_000 + i);
            let (mut h, q, b) = arbitrary_frame(&mut r, false);
            h.notify = 0;
            let frame = oracle::frame(h, &q[..q.len().min(300)], &b[..b.len().min(2000)]);
            let kind = r.below(3);
            let mut msg = frame.clone();
            match kind {
                0 => { let k = 1 + r.usize_below(60); msg.extend_from_slice(&r.bytes(k)); }
                1 => msg.extend_from_slice(&frame),
                // a strict, non-empty prefix of the frame (cut inside the header, the query or the body)
                _ => msg.truncate(1 + r.usize_below(frame.len() - 1)),
            }
            *ush.reply.lock().unwrap() = Reply::default();
            let _ = ush.take_frames();
            ush.junk.lock().unwrap().take();
            let (mut ws, _) = tokio::time::timeout(T, tokio_tungstenite::connect_async(format!("ws://{proxy_addr}/"))).await.map_err(|_| "connect timeout")?.map_err(|e| e.to_string())?;
            ws.send(WsMsg::Binary(msg.clone().into())).await.map_err(|e| format!("ws send: {e}"))?;
            // the proxy either answers, or closes; wait for either
            let _ = tokio::time::timeout(Duration::from_secs(5), async {
                while let Some(Ok(m)) = ws.next().await {
                    if matches!(m, WsMsg::Binary(_) | WsMsg::Close(_)) {
                        break;
                    }
                }
            })
            .await;
            let _ = ws.close(None).await;
            tokio::time::sleep(Duration::from_millis(20)).await;
            let frames = ush.take_frames();
            let junk = ush.junk.lock().unwrap().take();
            rep.eval();
            odd += 1;
            rep.distinct(&(30, kind, len_class(frame.len())));
            let what = ["frame followed by stray bytes", "two frames in one message", "truncated frame"][kind as usize];
            if let Some(j) = junk {
                rep.violation(format!("{prefix}:proxy-forwarded-non-frame-bytes:{}", ["trailing", "glued", "truncated"][kind as usize]), format!("downstream message = {what} ({} bytes, frame {} bytes): upstream received bytes that are not whole frames: {j}", msg.len(), frame.len()), json!({"message": hex(&msg)}));
                return Ok(());
            }
            let ok = match kind {
                // glued: the two identical frames, one of them, or nothing
                1 => frames.iter().all(|f| *f == frame) && frames.len() <= 2,
                2 => frames.is_empty(),
                _ => frames.is_empty() || (frames.len() == 1 && frames[0] == frame),
            };
            if !ok {
                rep.violation(format!("{prefix}:proxy-forwarded-non-frame-bytes:{}", ["trailing", "glued", "truncated"][kind as usize]), format!("downstream message = {what}: upstream received {} frame(s), first {}", frames.len(), frames.first().map(|f| hex_trunc(f, 64)).unwrap_or_default()), json!({"message": hex(&msg)}));
                return Ok(());
            }
        }
        Ok(())
    });
    if let Err(e) = res {
        rep.inconclusive(format!("proxy part D: {e}"));
    }
    rep.count("proxy_messages_that_are_not_one_frame", odd);
}

/// C05 stage `proxy`: only the "what reaches the upstream connection is whole frames" part, reported under C05.
pub fn run_c05_proxy(args: &Args) -> Report {
    let mut rep = Report::new(
        args,
        "c05-proxy-upstream-stream",
        "downstream WebSocket messages that are not exactly one frame (a frame followed by stray bytes, two frames glued together, a \
         truncated frame) sent through proxy_connection; a raw TCP capture peer splits the upstream byte stream on declared lengths; \
         oracle: the upstream stream consists of whole frames that were sent, never of stray bytes; distinct = (kind, frame length class)",
    );
    let body = catching(|| {
        let rt = tokio::runtime::Builder::new_multi_thread().worker_threads(2).enable_all().build().expect("runtime");
        let mut rng = Rng::new(args.seed ^ 0xC05_C11);
        let (proxy_addr, ush) = start_proxy(&rt);
        let deadline = Instant::now() + Duration::from_secs(if args.thorough() { 300 } else { 40 });
        proxy_non_frame_messages(args, &mut rep, &rt, &mut rng, proxy_addr, &ush, deadline, "C05");
        rt.shutdown_timeout(Duration::from_secs(2));
    });
    if let Err(p) = body {
        rep.inconclusive(format!("harness panic: {p}"));
    }
    if rep.evaluations == 0 {
        rep.inconclusive("no message went through the proxy");
    }
    rep
}

pub fn run(args: &Args) -> Report {
    let mut rep = Report::new(
        args,
        "c01-client-emission",
        "every request-emitting entry point of Client / AsyncClient / WebSocketClient (call_json, typed json/beve, typed slice, \
         call_message, call_with_formats with arbitrary format codes and raw bodies, registry helpers, notifies, batches; each with \
         and without timeout) and of Fleet / AsyncFleet (call_json with and without params, call_message, broadcast_json), with random \
         paths (empty, root, escapes, unicode, lengths around 255 and 8192) and random JSON values; AsyncClient::forward_message and \
         proxy_connection with frames whose every header field is arbitrary. A raw capture peer (TCP: splits on declared lengths; \
         WebSocket: one binary message) records the bytes; oracle: they equal the spec frame of the logical message, and for the \
         pass-through routes the frame handed in, request and reply both; distinct = (client, api, query length class, body length class)",
    );
    let body = catching(|| run_inner(args, &mut rep));
    if let Err(p) = body {
        rep.inconclusive(format!("harness panic: {p}"));
    }
    rep
}

fn len_class(n: usize) -> u8 {
    match n {
        0 => 0,
        1..=7 => 1,
        8..=47 => 2,
        48..=255 => 3,
        256..=8143 => 4,
        8144..=8192 => 5,
        _ => 6,
    }
}

fn run_inner(args: &Args, rep: &mut Report) {
    let rt = tokio::runtime::Builder::new_multi_thread().worker_threads(3).enable_all().build().expect("runtime");
    let mut rng = Rng::new(args.seed ^ 0xC01_C11);
    let n_calls = args.budget(1500, 40_000);
    let n_proxy = args.budget(600, 15_000);
    let deadline = Instant::now() + Duration::from_secs(if args.thorough() { 600 } else { 60 });

    // ---- part A: the three clients, each against its own capture peer
    let (a1, sh1) = tcp_capture();
    let (a2, sh2) = tcp_capture();
    let (a3, sh3) = rt.block_on(ws_capture());
    let clients: Vec<(&str, AnyClient, Arc<Shared>)> = vec![
        ("client", AnyClient::Sync(Client::connect(a1).expect("connect")), sh1),
        ("async_client", AnyClient::Async(rt.block_on(AsyncClient::connect(a2)).expect("connect")), sh2),
        ("websocket_client", AnyClient::Ws(rt.block_on(WebSocketClient::connect(&format!("ws://{a3}/repe"))).expect("ws connect")), sh3),
    ];
    let mut ids: Vec<std::collections::HashSet<u64>> = vec![Default::default(); 3];
    let mut call_errs = 0u64;
    'a: for i in 0..n_calls {
        if Instant::now() > deadline {
            rep.inconclusive(format!("wall-clock budget reached after {i} of {n_calls} client calls"));
            break;
        }
        let mut r = rng.fork(i);
        // the same random plan seed for all three clients: same logical message on every route that offers the API
        let pool_sel = r.below(10);
        for (ci, (who, c, sh)) in clients.iter().enumerate() {
            let api = match (pool_sel, ci) {
                (0, 0) | (0, 1) => *r.fork(1).pick(&TCP_ONLY),
                (1, 1) | (2, 1) => *r.fork(2).pick(&ASYNC_ONLY),
                _ => *r.fork(3).pick(&COMMON),
            };
            let p = plan(&mut r.fork(4), api);
            if i % 8 == 5 {
                // a request whose body fails to serialize part-way: it must fail, put nothing on the wire, and leave nothing behind
                // that changes the NEXT request's bytes (judged below like any other)
                let bad = BadBody(i);
                let e = match c {
                    AnyClient::Sync(c) => if i % 16 == 5 { c.call_json(&p.path, &bad).is_err() } else { c.notify_json(&p.path, &bad).is_err() },
                    AnyClient::Async(c) => if i % 16 == 5 { rt.block_on(c.call_json(&p.path, &bad)).is_err() } else { rt.block_on(c.notify_json(&p.path, &bad)).is_err() },
                    AnyClient::Ws(c) => if i % 16 == 5 { rt.block_on(c.call_json(&p.path, &bad)).is_err() } else { rt.block_on(c.notify_json(&p.path, &bad)).is_err() },
                };
                std::thread::sleep(Duration::from_millis(2));
                let stray = sh.take_frames();
                rep.count("requests_with_unserializable_bodies", 1);
                if !e || !stray.is_empty() {
                    rep.violation(format!("C01:unserializable-body:{who}"), format!("{who}: a request whose body cannot be serialized returned ok={} and {} frame(s) reached the peer", !e, stray.len()), json!({"who": who, "path": p.path}));
                }
            }
            let res = run_call(c, &rt, &p);
            if !sh.wait_frames(p.expect.len()) && res.is_ok() {
                // fall through: judge reports the count mismatch
            }
            // a notify returns before the peer has read it; waited above. Give a stray extra frame a moment to show up.
            let frames = sh.take_frames();
            rep.eval();
            rep.distinct(&(ci, api, len_class(p.expect[0].query.len()), len_class(p.expect[0].body.len())));
            if let Some(j) = sh.junk.lock().unwrap().take() {
                rep.violation(format!("C01:client-stream-not-frames:{who}:{api:?}"), format!("{who}.{api:?}: the peer could not split what it received into frames: {j}"), json!({"who": who, "api": format!("{api:?}"), "path": p.path}));
                break 'a;
            }
            if let Some(m) = &p.fwd {
                let sent = oracle::frame(oracle::SpecHeader::from_repe(&m.header), &m.query, &m.body);
                if judge_forward(rep, who, &sent, &frames, "forwarded request") {
                    rep.count("forwarded_requests_identical", 1);
                }
            } else {
                judge(rep, who, &p, &frames, &mut ids[ci], true);
            }
            if let Err(e) = res {
                // version != 1 in a forwarded request is answered normally by the capture peer; other errors are harness trouble
                call_errs += 1;
                if call_errs <= 3 {
                    rep.sample(json!({"call_error": e, "who": who, "api": format!("{api:?}")}));
                }
            }
        }
        if rep.violations.len() > 20 {
            break;
        }
    }
    // ---- part A2: the reply reaches the TCP clients in two pieces with a pause well above a second in between (cut inside the
    // header, at the header end, inside the body): the call returns exactly the reply that was sent
    for (ci, (who, c, sh)) in clients.iter().enumerate().take(2) {
        for (k, cut_at) in [7usize, 48, 60].iter().enumerate() {
            let pause = if args.thorough() { 2600 } else { 1250 };
            let v = json!({"piece": k, "pad": "x".repeat(40), "who": who});
            *sh.split_reply.lock().unwrap() = Some((*cut_at, pause));
            let got: Result<Value, String> = match c {
                AnyClient::Sync(c) => c.call_json("/in/pieces", &v).map_err(|e| e.to_string()),
                AnyClient::Async(c) => rt.block_on(c.call_json("/in/pieces", &v)).map_err(|e| e.to_string()),
                AnyClient::Ws(_) => continue,
            };
            let _ = sh.take_frames();
            rep.eval();
            rep.distinct(&("reply-in-pieces", ci, cut_at));
            match got {
                Ok(g) if g == v => rep.count("replies_delivered_in_two_pieces_returned_intact", 1),
                other => rep.violation(format!("C01:reply-in-pieces:{who}"), format!("{who}: the reply was delivered in two pieces (cut at byte {cut_at}, {pause} ms apart); the call returned {other:?} instead of the echoed value"), json!({"who": who, "cut": cut_at, "pause_ms": pause})),
            }
        }
    }
    rep.count("client_calls_returning_err", call_errs);
    if call_errs * 20 > rep.evaluations {
        rep.inconclusive(format!("{call_errs} of {} client calls returned an error against the echoing capture peer: harness trouble", rep.evaluations));
    }
    drop(clients);

    // ---- part B: fleets (emission goes through a cached Client / AsyncClient)
    let (fa, fsh) = tcp_capture();
    let (fb, fsh_b) = tcp_capture();
    let opts = FleetOptions { default_timeout: T, retry_policy: RetryPolicy { max_attempts: 1, delay: Duration::from_millis(1) } };
    let mk = |a: SocketAddr, name: &str| NodeConfig::new("127.0.0.1", a.port()).unwrap().with_name(name).unwrap().with_timeout(T).unwrap();
    let fleet = Fleet::with_options(vec![mk(fa, "n")], opts).expect("fleet");
    let afleet = AsyncFleet::with_options(vec![mk(fb, "n")], opts).expect("fleet");
    let mut fids: Vec<std::collections::HashSet<u64>> = vec![Default::default(); 2];
    for i in 0..n_calls / 4 {
        if Instant::now() > deadline {
            break;
        }
        let mut r = rng.fork(1_000_000 + i);
        let api = *r.pick(&FLEET);
        for (ci, (who, sh)) in [("fleet", &fsh), ("async_fleet", &fsh_b)].iter().enumerate() {
            let p = plan(&mut r.fork(4), api);
            let no_tags: [&str; 0] = [];
            let ok = match (ci, api) {
                (0, Api::FleetCallJson) => fleet.call_json("n", &p.path, Some(&p.value)).map(|r| r.succeeded()).unwrap_or(false),
                (0, Api::FleetCallJsonNoParams) => fleet.call_json("n", &p.path, None).map(|r| r.succeeded()).unwrap_or(false),
                (0, Api::FleetCallMessage) => fleet.call_message("n", &p.path).map(|r| r.succeeded()).unwrap_or(false),
                (0, _) => fleet.broadcast_json(&p.path, Some(&p.value), &no_tags).values().all(|r| r.succeeded()),
                (_, Api::FleetCallJson) => rt.block_on(afleet.call_json("n", &p.path, Some(&p.value))).map(|r| r.succeeded()).unwrap_or(false),
                (_, Api::FleetCallJsonNoParams) => rt.block_on(afleet.call_json("n", &p.path, None)).map(|r| r.succeeded()).unwrap_or(false),
                (_, Api::FleetCallMessage) => rt.block_on(afleet.call_message("n", &p.path)).map(|r| r.succeeded()).unwrap_or(false),
                (_, _) => rt.block_on(afleet.broadcast_json(&p.path, Some(&p.value), &no_tags)).values().all(|r| r.succeeded()),
            };
            sh.wait_frames(1);
            let frames = sh.take_frames();
            rep.eval();
            rep.distinct(&(10 + ci, api, len_class(p.expect[0].query.len()), len_class(p.expect[0].body.len())));
            judge(rep, who, &p, &frames, &mut fids[ci], false);
            if !ok {
                rep.count("fleet_calls_not_succeeded", 1);
            }
        }
    }

    // ---- part C: proxy_connection — raw WS peer -> proxy -> raw TCP capture peer, and back
    let (proxy_addr, ush) = start_proxy(&rt);
    let mut done = 0u64;
    let res: Result<(), String> = rt.block_on(async {
        let (mut ws, _) = tokio::time::timeout(T, tokio_tungstenite::connect_async(format!("ws://{proxy_addr}/"))).await.map_err(|_| "connect timeout")?.map_err(|e| e.to_string())?;
        for i in 0..n_proxy {
            if Instant::now() > deadline {
                break;
            }
            let mut r = rng.fork(2_000_000 + i);
            let (h, q, b) = arbitrary_frame(&mut r, true);
            let sent = oracle::frame(h, &q, &b);
            // the raw upstream answers with arbitrary reserved bits / format codes / error code / query / body (version 1, id echoed)
            let (mut rh, rq, rb) = arbitrary_frame(&mut r, false);
            // a reply has the notify flag clear: the TCP clients drop inbound frames whose notify flag is set (server pushes)
            rh.notify = 0;
            *ush.reply.lock().unwrap() = Reply { fixed: Some((rh, rq, rb)) };
            ws.send(WsMsg::Binary(sent.clone().into())).await.map_err(|e| format!("ws send: {e}"))?;
            if !ush.wait_frames(1) {
                rep.violation("C01:passthrough-differs:proxy_connection:request:missing", format!("the proxied request never reached the upstream peer within {T:?}; sent {}", hex_trunc(&sent, 96)), json!({"frame": hex(&sent)}));
                return Ok(());
            }
            let frames = ush.take_frames();
            rep.eval();
            rep.distinct(&(20, h.notify == 1, len_class(q.len()), len_class(b.len()), h.version == 1, h.reserved == 0));
            if !judge_forward(rep, "proxy_connection", &sent, &frames, "request") {
                return Ok(());
            }
            rep.count("proxied_requests_identical", 1);
            if h.notify != 1 {
                let want = ush.replies_sent.lock().unwrap().pop().ok_or("harness: no reply recorded")?;
                let got = loop {
                    match tokio::time::timeout(T, ws.next()).await {
                        Err(_) => break None,
                        Ok(None) | Ok(Some(Err(_))) => break None,
                        Ok(Some(Ok(WsMsg::Binary(b)))) => break Some(b.to_vec()),
                        Ok(Some(Ok(WsMsg::Close(_)))) => break None,
                        Ok(Some(Ok(_))) => continue,
                    }
                };
                match got {
                    Some(g) if g == want => rep.count("proxied_replies_identical", 1),
                    Some(g) => {
                        let field = crate::c03::first_diff_field(&g, &want);
                        rep.violation(format!("C01:passthrough-differs:proxy_connection:reply:{field}"), format!("reply changed in {field} on its way through the proxy; got {} want {}", hex_trunc(&g, 96), hex_trunc(&want, 96)), json!({"request": hex(&sent), "reply": hex(&want)}));
                        return Ok(());
                    }
                    None => {
                        rep.violation("C01:passthrough-differs:proxy_connection:reply:missing", format!("no reply came back through the proxy for request {} (upstream sent {})", hex_trunc(&sent, 64), hex_trunc(&want, 64)), json!({"request": hex(&sent), "reply": hex(&want)}));
                        return Ok(());
                    }
                }
            }
            done += 1;
        }
        let _ = ws.close(None).await;
        Ok(())
    });
    if let Err(e) = res {
        rep.inconclusive(format!("proxy part: {e}"));
    }
    proxy_non_frame_messages(args, rep, &rt, &mut rng, proxy_addr, &ush, deadline, "C01");
    rep.count("proxy_round_trips", done);
    if rep.get_count("client_frames_identical_to_spec_frame") == 0 || done == 0 {
        rep.inconclusive("a part observed nothing");
    }
    rt.shutdown_timeout(Duration::from_secs(2));
}
