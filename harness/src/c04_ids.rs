//! C04, clause "all request ids issued on one connection are distinct": requests that draw an id and then never reach the wire
//! (refused locally because they exceed the WebSocket client's outbound limit, or because their body fails to serialize), with
//! OTHER calls drawing ids while the doomed request is still between "id drawn" and "given up". The window is held open by the
//! body's own `Serialize` impl (the only caller-controlled step inside a call). A raw capture peer records the frames; every id
//! on the wire is distinct, every ordinary call returns its own echo, and no call is refused as a duplicate.

use crate::c01_cli::{tcp_capture, ws_capture};
use crate::common::*;
use crate::oracle::SpecHeader;
use repe::{AsyncClient, Client, WebSocketClient, WebSocketLimits};
use serde_json::{Value, json};
use std::sync::Arc;
use std::sync::atomic::{AtomicBool, Ordering};
use std::time::{Duration, Instant};

/// Serializes (a) a long string or (b) fails, after having waited (bounded) for the harness to let it go.
struct Gated {
    entered: Arc<AtomicBool>,
    go: Arc<AtomicBool>,
    big: usize,
    fail: bool,
}
impl serde::Serialize for Gated {
    fn serialize<S: serde::Serializer>(&self, ser: S) -> Result<S::Ok, S::Error> {
        self.entered.store(true, Ordering::SeqCst);
        let t0 = Instant::now();
        while !self.go.load(Ordering::SeqCst) && t0.elapsed() < Duration::from_secs(5) {
            std::thread::yield_now();
        }
        if self.fail {
            return Err(serde::ser::Error::custom("harness: body cannot be serialized"));
        }
        ser.serialize_str(&"x".repeat(self.big))
    }
}

pub fn run(args: &Args) -> Report {
    let mut rep = Report::new(
        args,
        "c04-ids-after-abandoned-requests",
        "a request that has drawn its id and is then given up locally (WebSocket client: larger than the outbound limit; all clients: \
         body fails to serialize), while other calls draw ids inside that window (held open by the body's Serialize impl) and \
         afterwards; raw capture peer; oracle: ids on the wire pairwise distinct, ordinary calls return their own echo, none is \
         refused as a duplicate id; distinct = (client, way of giving up, calls inside the window, calls after)",
    );
    let body = catching(|| run_inner(args, &mut rep));
    if let Err(p) = body {
        rep.inconclusive(format!("harness panic: {p}"));
    }
    if rep.evaluations == 0 {
        rep.inconclusive("nothing ran");
    }
    rep
}

fn run_inner(args: &Args, rep: &mut Report) {
    let rt = tokio::runtime::Builder::new_multi_thread().worker_threads(4).enable_all().build().expect("runtime");
    let mut rng = Rng::new(args.seed ^ 0xC04_1D5);
    let rounds = args.budget(40, 1500);
    let mut window_forced = 0u64;
    for round in 0..rounds {
        for kind in 0..3usize {
            let who = ["client", "async_client", "websocket_client"][kind];
            // ways of giving up: 0 = serialization fails, 1 = refused as too large (WebSocket client only)
            let way = if kind == 2 { (round % 2) as usize } else { 0 };
            let inside = 1 + rng.usize_below(3);
            let after = 1 + rng.usize_below(3);
            rep.eval();
            rep.distinct(&(kind, way, inside, after));
            let (entered, go) = (Arc::new(AtomicBool::new(false)), Arc::new(AtomicBool::new(false)));
            let gated = Gated { entered: entered.clone(), go: go.clone(), big: 20_000, fail: way == 0 };
            let way_name = ["serialization failure", "MessageTooLarge"][way];
            let scenario = json!({"client": who, "gives_up_by": way_name, "calls_inside_window": inside, "calls_after": after, "round": round});
            let mut ok_calls = 0usize;
            let mut problems: Vec<String> = vec![];
            let frames: Vec<Vec<u8>>;
            let doomed_result: Result<(), String>;
            match kind {
                0 => {
                    let (addr, sh) = tcp_capture();
                    let c = Client::connect(addr).expect("connect");
                    let c2 = c.clone();
                    let th = std::thread::spawn(move || c2.call_json("/doomed", &gated).map(|_| ()).map_err(|e| e.to_string()));
                    wait_flag(&entered);
                    for i in 0..inside {
                        check_echo(c.call_json(format!("/in/{i}"), &json!({"i": i, "r": round})).map_err(|e| e.to_string()), json!({"i": i, "r": round}), &mut ok_calls, &mut problems);
                    }
                    go.store(true, Ordering::SeqCst);
                    doomed_result = th.join().unwrap_or(Err("panicked".into()));
                    for i in 0..after {
                        check_echo(c.call_json(format!("/after/{i}"), &json!({"a": i})).map_err(|e| e.to_string()), json!({"a": i}), &mut ok_calls, &mut problems);
                    }
                    frames = sh.take_frames();
                }
                1 => {
                    let (addr, sh) = tcp_capture();
                    let c = rt.block_on(AsyncClient::connect(addr)).expect("connect");
                    let c2 = c.clone();
                    let th = rt.spawn(async move { c2.call_json("/doomed", &gated).await.map(|_| ()).map_err(|e| e.to_string()) });
                    wait_flag(&entered);
                    for i in 0..inside {
                        check_echo(rt.block_on(c.call_json(format!("/in/{i}"), &json!({"i": i, "r": round}))).map_err(|e| e.to_string()), json!({"i": i, "r": round}), &mut ok_calls, &mut problems);
                    }
                    go.store(true, Ordering::SeqCst);
                    doomed_result = rt.block_on(th).unwrap_or(Err("panicked".into()));
                    for i in 0..after {
                        check_echo(rt.block_on(c.call_json(format!("/after/{i}"), &json!({"a": i}))).map_err(|e| e.to_string()), json!({"a": i}), &mut ok_calls, &mut problems);
                    }
                    frames = sh.take_frames();
                }
                _ => {
                    let (addr, sh) = rt.block_on(ws_capture());
                    let limits = WebSocketLimits::default().with_assumed_peer_frame_limit(Some(8192));
                    let c = rt.block_on(WebSocketClient::connect_with_limits(&format!("ws://{addr}/repe"), limits)).expect("ws connect");
                    let c2 = c.clone();
                    let th = rt.spawn(async move { c2.call_json("/doomed", &gated).await.map(|_| ()).map_err(|e| e.to_string()) });
                    wait_flag(&entered);
                    for i in 0..inside {
                        check_echo(rt.block_on(c.call_json(format!("/in/{i}"), &json!({"i": i, "r": round}))).map_err(|e| e.to_string()), json!({"i": i, "r": round}), &mut ok_calls, &mut problems);
                    }
                    go.store(true, Ordering::SeqCst);
                    doomed_result = rt.block_on(th).unwrap_or(Err("panicked".into()));
                    for i in 0..after {
                        check_echo(rt.block_on(c.call_json(format!("/after/{i}"), &json!({"a": i}))).map_err(|e| e.to_string()), json!({"a": i}), &mut ok_calls, &mut problems);
                    }
                    frames = sh.take_frames();
                }
            }
            if entered.load(Ordering::SeqCst) {
                window_forced += 1;
            }
            if doomed_result.is_ok() {
                problems.push("the doomed request (unserializable / over the outbound limit) returned Ok".into());
            }
            let ids: Vec<u64> = frames.iter().filter(|f| f.len() >= 48).map(|f| SpecHeader::decode(f).id).collect();
            let mut sorted = ids.clone();
            sorted.sort();
            sorted.dedup();
            if sorted.len() != ids.len() {
                rep.violation(format!("C04:{who}:ids-not-distinct:after-abandoned-request"), format!("{who}: request ids on the wire {ids:?} are not pairwise distinct; the doomed request gave up by {} ({:?}) while {inside} call(s) drew ids inside its window", ["serialization failure", "MessageTooLarge"][way], doomed_result), scenario.clone());
            }
            if ids.len() != inside + after {
                problems.push(format!("{} frames reached the peer, {} ordinary calls were made", ids.len(), inside + after));
            }
            if !problems.is_empty() {
                rep.violation(format!("C04:{who}:call-disturbed-by-abandoned-request"), format!("{who}: {}; ids on the wire {ids:?}; doomed request: {doomed_result:?}", problems.join("; ")), scenario);
            } else {
                rep.count("ordinary_calls_returned_own_echo", ok_calls as u64);
            }
        }
    }
    rep.set("windows_held_open_by_the_body_serializer", json!(window_forced));
    if window_forced == 0 {
        rep.inconclusive("the doomed request's serializer was never entered");
    }
    rt.shutdown_timeout(Duration::from_secs(2));
}

fn wait_flag(f: &AtomicBool) {
    let t0 = Instant::now();
    while !f.load(Ordering::SeqCst) && t0.elapsed() < Duration::from_secs(5) {
        std::thread::yield_now();
    }
}

fn check_echo(got: Result<Value, String>, want: Value, ok: &mut usize, problems: &mut Vec<String>) {
    match got {
        Ok(v) if v == want => *ok += 1,
        other => problems.push(format!("an ordinary call returned {other:?} instead of its own echo {want}")),
    }
}
