// C04 family `hostile-header`: well-FRAMED inbound frames whose other header fields are unusual.
//
// Every frame the other families interleave is built with version 1, reserved 0, query format 1, body format 2 and
// ec 0: the fields a client looks at per call (or not at all) never carried anything but the constant a well-behaved
// server puts there. A 48-byte header that has the magic and whose three lengths add up is a well-formed frame
// whatever its `version`, `reserved`, `query_format`, `body_format` and `ec` hold (a peer built against another
// protocol revision, a foreign implementation, a proxy that stamps its own fields). What such a frame says concerns
// the call it is ADDRESSED to, or nobody when its id is unknown, a duplicate, or when it is a push: "each call returns
// exactly the response whose id equals its own request's id ... including interleaved responses with unknown ids,
// duplicated responses, and server-pushed notifications that reuse an in-flight id".
//
// One case = one fresh connection (own fake server thread, cases run in parallel), several waves on it. A wave: 2..6
// calls in flight; the fake server answers in a seeded order and interleaves unknown-id frames (zero, huge, future
// ids), duplicates of answers already sent, and pushes (notify byte 1, 2, 0x80, 255) reusing in-flight ids or carrying
// unknown ids. Any of these frames, and the genuine answers of some of the calls, carry one of the unusual header
// variants below (alone and in combination); at least one call with a perfectly ordinary answer is still in flight
// when the first unusual frame arrives. WebSocket: with and without a notify subscriber.
//
// Which variants are used is decided by a run-time probe through the PUBLIC decoders of the library
// (`Message::from_slice_exact` and the stream reader `read_message`): a variant the frame decoder itself rejects as
// malformed ends the connection, which is C02's / C06's business, and is skipped (counted). The unchanged library's
// decoder accepts all of them (it checks the magic and the lengths only).
//
// Oracle (`judge_hostile`): a call whose own answer was ordinary returns exactly that answer; an error is a violation
// (every frame was completely written, the fake server never closed), as is anything else it returns. A call whose own
// answer carried an unusual header may return an error or its own response, never another frame's content. What a
// notify subscriber receives must be one of the pushes.

use super::trickle::{TApi, TCli, TRes, kind_char, show_tres, t_collect, t_connect, t_issue, ws_header};
use super::*;

const H_PAR_PER_KIND: usize = 16;
const H_WAVES: usize = 6;

#[derive(Clone, Copy, PartialEq, Eq, Hash, Debug, Default)]
pub(super) struct HFields {
    version: Option<u8>,
    reserved: Option<u32>,
    qf: Option<u16>,
    bf: Option<u16>,
    ec: Option<u32>,
}

impl HFields {
    fn apply(&self, h: &mut SpecHeader) {
        if let Some(v) = self.version {
            h.version = v;
        }
        if let Some(v) = self.reserved {
            h.reserved = v;
        }
        if let Some(v) = self.qf {
            h.query_format = v;
        }
        if let Some(v) = self.bf {
            h.body_format = v;
        }
        if let Some(v) = self.ec {
            h.ec = v;
        }
    }
    fn show(&self) -> String {
        let mut v = vec![];
        if let Some(x) = self.version {
            v.push(format!("version={x}"));
        }
        if let Some(x) = self.reserved {
            v.push(format!("reserved={x:#x}"));
        }
        if let Some(x) = self.qf {
            v.push(format!("query_format={x}"));
        }
        if let Some(x) = self.bf {
            v.push(format!("body_format={x}"));
        }
        if let Some(x) = self.ec {
            v.push(format!("ec={x}"));
        }
        v.join(",")
    }
}

/// (class, fields): whatever a length-consistent header can carry besides the magic and the lengths
fn variant_pool() -> Vec<(&'static str, HFields)> {
    let d = HFields::default();
    let mut v: Vec<(&'static str, HFields)> = vec![];
    for x in [0u8, 2, 3, 127, 255] {
        v.push(("version", HFields { version: Some(x), ..d }));
    }
    for x in [1u32, 0xDEAD_BEEF, u32::MAX] {
        v.push(("reserved", HFields { reserved: Some(x), ..d }));
    }
    for x in [0u16, 2, 7, 0xFFFF] {
        v.push(("query_format", HFields { qf: Some(x), ..d }));
    }
    for x in [0u16, 1, 3, 4, 0x1234, 0xFFFF] {
        v.push(("body_format", HFields { bf: Some(x), ..d }));
    }
    for x in [1u32, 2, 7, 999, 0x7FFF_FFFF, u32::MAX] {
        v.push(("ec", HFields { ec: Some(x), ..d }));
    }
    v.push(("combination", HFields { version: Some(2), reserved: Some(7), ..d }));
    v.push(("combination", HFields { version: Some(0), ec: Some(3), ..d }));
    v.push(("combination", HFields { version: Some(255), qf: Some(9), bf: Some(9), ..d }));
    v.push(("combination", HFields { reserved: Some(u32::MAX), bf: Some(3), ec: Some(1), ..d }));
    v.push(("combination", HFields { version: Some(2), reserved: Some(1), qf: Some(0), bf: Some(0), ec: Some(u32::MAX) }));
    v
}

/// The variants the library's public frame decoders accept (probe, see the head of the file).
fn accepted_variants(rep: &mut Report) -> Vec<(&'static str, HFields)> {
    let mut ok = vec![];
    for (class, f) in variant_pool() {
        let mut h = SpecHeader { spec: oracle::SPEC, version: 1, notify: 0, id: 77, query_format: 1, body_format: 2, ec: 0, ..Default::default() };
        f.apply(&mut h);
        let bytes = oracle::frame(h, b"/c04/probe", br#"{"k":"probe"}"#);
        let a = catching(|| repe::Message::from_slice_exact(&bytes).is_ok()).unwrap_or(false);
        let b = catching(|| repe::read_message(&mut std::io::Cursor::new(&bytes)).is_ok()).unwrap_or(false);
        let framed = oracle::valid_parse(&bytes, true).is_some();
        if a && b && framed {
            rep.count(&format!("hostile_header_variants_accepted_by_public_decoders_{class}"), 1);
            ok.push((class, f));
        } else {
            rep.count("hostile_header_variants_skipped_public_decoder_rejects_them", 1);
        }
    }
    ok
}

#[derive(Clone, Copy, PartialEq, Eq, Hash, Debug)]
enum HWhat {
    Real(usize),
    Dup(usize),
    Unknown,
    /// Some(slot): reuses the id of a call in flight
    Push(Option<usize>),
}

#[derive(Clone, Debug)]
struct HItem {
    what: HWhat,
    id: u64,
    notify: u8,
    fields: Option<(&'static str, HFields)>,
    written: bool,
}

#[derive(Clone, Debug)]
struct HWave {
    n: usize,
    apis: Vec<TApi>,
    tokens: Vec<String>,
    ids: Vec<Option<u64>>,
    /// own answer per slot: (json, body bytes, query)
    own: Vec<Option<(Value, Vec<u8>, Vec<u8>)>>,
    items: Vec<HItem>,
    outs: Vec<Option<(TRes, bool)>>,
    write_err: Option<String>,
}

#[derive(Clone, Debug)]
pub(super) struct HPlan {
    index: u64,
    kind: Kind,
    subscriber: bool,
    salt: u64,
}

pub(super) struct HHist {
    plan: HPlan,
    setup_err: Option<String>,
    trouble: Option<String>,
    dup_ids: Vec<u64>,
    waves: Vec<HWave>,
    /// (id, notify byte, body) of everything the notify subscriber received
    sub_items: Vec<(u64, u8, Vec<u8>)>,
}

fn run_conn(rt: &Runtime, seed: u64, p: &HPlan, variants: &[(&'static str, HFields)]) -> HHist {
    let mut rng = Rng::new(seed ^ p.salt.rotate_left(9) ^ 0x0C04_4057_11E);
    let mut h = HHist { plan: p.clone(), setup_err: None, trouble: None, dup_ids: vec![], waves: vec![], sub_items: vec![] };
    let (cli, mut peer) = match t_connect(rt, p.kind) {
        Ok(x) => x,
        Err(e) => {
            h.setup_err = Some(e);
            return h;
        }
    };
    let mut sub = match (&cli, p.subscriber) {
        (TCli::W(c), true) => c.subscribe_notifies().ok(),
        _ => None,
    };
    let kc = kind_char(p.kind);
    let (tx, rx) = mpsc::channel::<(usize, TRes)>();
    let mut seen: HashSet<u64> = HashSet::new();
    let mut max_id = 0u64;
    let mut tag_base = 0usize;
    for w in 0..H_WAVES {
        let n = 2 + rng.usize_below(5);
        let apis: Vec<TApi> = (0..n).map(|_| *rng.pick(&[TApi::Json, TApi::JsonT, TApi::Msg, TApi::MsgNoT])).collect();
        let tokens: Vec<String> = (0..n).map(|i| format!("h{kc}{}-{w}-{i}-{:x}", p.index, mix(seed ^ p.salt ^ ((w * 16 + i) as u64) << 36) & 0xffff_ffff)).collect();
        let mut wave = HWave { n, apis: apis.clone(), tokens: tokens.clone(), ids: vec![None; n], own: vec![None; n], items: vec![], outs: vec![None; n], write_err: None };
        let r = (|| -> Result<(), String> {
            let mut order: Vec<usize> = (0..n).collect();
            rng.shuffle(&mut order);
            for i in order {
                t_issue(rt, &cli, tag_base + i, apis[i], format!("/c04/h{i}"), json!({"tok": tokens[i], "slot": i}), tx.clone());
            }
            let mut queries: Vec<Vec<u8>> = vec![vec![]; n];
            let deadline = Instant::now() + REQ_WINDOW;
            while wave.ids.iter().any(|x| x.is_none()) {
                let Some(f) = peer.recv(deadline)? else {
                    return Err(format!("only {} of {n} requests reached the fake server inside {} s", wave.ids.iter().flatten().count(), REQ_WINDOW.as_secs()));
                };
                let parsed: Option<(usize, String)> = serde_json::from_slice::<Value>(&f.body).ok().and_then(|v| Some((v.get("slot")?.as_u64()? as usize, v.get("tok")?.as_str()?.to_string())));
                match parsed {
                    Some((slot, tok)) if slot < n && tokens[slot] == tok && wave.ids[slot].is_none() => {
                        if !seen.insert(f.header.id) {
                            h.dup_ids.push(f.header.id);
                        }
                        max_id = max_id.max(f.header.id);
                        wave.ids[slot] = Some(f.header.id);
                        queries[slot] = f.query.clone();
                    }
                    _ => return Err(format!("a request that does not belong to this wave reached the fake server: id {}", f.header.id)),
                }
            }
            if !h.dup_ids.is_empty() {
                return Ok(());
            }
            let ids: Vec<u64> = wave.ids.iter().map(|x| x.unwrap_or(0)).collect();
            // the script
            let mut order: Vec<usize> = (0..n).collect();
            rng.shuffle(&mut order);
            let mut unusual_real: Vec<bool> = (0..n).map(|_| rng.chance(1, 4)).collect();
            if unusual_real.iter().all(|x| *x) {
                unusual_real[order[n - 1]] = false;
            }
            let pickv = |rng: &mut Rng| -> Option<(&'static str, HFields)> { if variants.is_empty() { None } else { Some(*rng.pick(variants)) } };
            let mut items: Vec<HItem> = order.iter().map(|s| HItem { what: HWhat::Real(*s), id: ids[*s], notify: 0, fields: if unusual_real[*s] { pickv(&mut rng) } else { None }, written: false }).collect();
            let extras = 1 + rng.usize_below(5);
            for _ in 0..extras {
                let fields = if rng.chance(4, 5) { pickv(&mut rng) } else { None };
                let s = rng.usize_below(n);
                let pos = items.iter().position(|it| it.what == HWhat::Real(s)).unwrap_or(0);
                let (what, id, notify, at) = match rng.below(4) {
                    0 => {
                        // a "future" id (the connection will issue it in the next wave) must be out of the way before it is
                        // issued for real: such a frame goes in front of the last genuine answer, so the reader is past it
                        // once every call of this wave has returned
                        let last_real = items.iter().rposition(|it| matches!(it.what, HWhat::Real(_))).unwrap_or(0);
                        match rng.below(3) {
                            0 => (HWhat::Unknown, 0, 0u8, rng.usize_below(items.len() + 1)),
                            1 => (HWhat::Unknown, (1u64 << 40) + rng.below(1 << 20), 0u8, rng.usize_below(items.len() + 1)),
                            _ => (HWhat::Unknown, max_id + 1 + rng.below(4), 0u8, rng.usize_below(last_real + 1)),
                        }
                    }
                    1 => (HWhat::Dup(s), ids[s], 0u8, pos + 1 + rng.usize_below(items.len() - pos)),
                    2 => (HWhat::Push(Some(s)), ids[s], *rng.pick(&[1u8, 1, 2, 0x80, 255]), rng.usize_below(pos + 1)),
                    _ => (HWhat::Push(None), (1u64 << 41) + rng.below(1 << 20), *rng.pick(&[1u8, 1, 2, 0x80, 255]), rng.usize_below(items.len() + 1)),
                };
                items.insert(at, HItem { what, id, notify, fields, written: false });
            }
            // an ordinary answer must still be outstanding when the first unusual frame arrives
            let first_unusual = items.iter().position(|it| it.fields.is_some());
            let last_clean_real = items.iter().rposition(|it| matches!(it.what, HWhat::Real(_)) && it.fields.is_none());
            match (first_unusual, last_clean_real) {
                (Some(a), Some(b)) if a < b => {}
                (_, Some(_)) => {
                    if let Some(f) = pickv(&mut rng) {
                        items.insert(0, HItem { what: HWhat::Unknown, id: (1u64 << 40) + rng.below(1 << 20), notify: 0, fields: Some(f), written: false });
                    }
                }
                _ => {}
            }
            // frames
            let mut frames: Vec<Vec<u8>> = vec![];
            for it in &items {
                let (query, body): (Vec<u8>, Value) = match it.what {
                    HWhat::Real(s) | HWhat::Dup(s) => (queries[s].clone(), json!({"id": ids[s], "tok": tokens[s], "k": "resp"})),
                    HWhat::Unknown => (b"/c04/unknown".to_vec(), json!({"id": it.id, "tok": format!("unk-{}-{w}", p.index), "k": "unk"})),
                    HWhat::Push(_) => (b"/c04/push".to_vec(), json!({"id": it.id, "tok": format!("push-{}-{w}", p.index), "k": "push"})),
                };
                let b = serde_json::to_vec(&body).unwrap();
                if let HWhat::Real(s) = it.what {
                    wave.own[s] = Some((body.clone(), b.clone(), query.clone()));
                }
                let mut hd = SpecHeader { spec: oracle::SPEC, version: 1, notify: it.notify, id: it.id, query_format: 1, body_format: 2, ec: 0, ..Default::default() };
                if let Some((_, f)) = &it.fields {
                    f.apply(&mut hd);
                }
                let repe = oracle::frame(hd, &query, &b);
                frames.push(if p.kind == Kind::W { [ws_header(true, 2, repe.len()), repe].concat() } else { repe });
            }
            wave.items = items;
            let coalesce = rng.coin();
            if coalesce {
                match peer.stream().write_all(&frames.concat()) {
                    Ok(()) => wave.items.iter_mut().for_each(|it| it.written = true),
                    Err(e) => wave.write_err = Some(e.to_string()),
                }
            } else {
                for (i, f) in frames.iter().enumerate() {
                    match peer.stream().write_all(f) {
                        Ok(()) => wave.items[i].written = true,
                        Err(e) => {
                            wave.write_err = Some(e.to_string());
                            break;
                        }
                    }
                }
            }
            t_collect(&rx, &mut wave.outs, tag_base, Instant::now() + CALL_WINDOW, false);
            Ok(())
        })();
        tag_base += 16;
        let bad = r.is_err() || wave.write_err.is_some() || wave.outs.iter().any(|o| o.is_none()) || !h.dup_ids.is_empty();
        // an error is an anomaly only for a call whose own answer was ordinary
        let clean_failed = wave.items.iter().any(|it| matches!(it.what, HWhat::Real(s) if it.fields.is_none() && matches!(wave.outs[s], Some((TRes::Err(_), _)))));
        if let Err(e) = r {
            h.trouble = Some(e);
        }
        if let Some(rx) = sub.as_mut() {
            while let Ok(m) = rx.try_recv() {
                h.sub_items.push((m.header.id, m.header.notify, m.body.clone()));
            }
        }
        let stop = bad || clean_failed;
        if stop && wave.outs.iter().any(|o| o.is_none()) {
            peer.close();
            t_collect(&rx, &mut wave.outs, tag_base - 16, Instant::now() + Duration::from_secs(6), true);
        }
        h.waves.push(wave);
        if stop {
            break;
        }
    }
    peer.close();
    {
        let _g = rt.enter();
        drop(sub);
        drop(cli);
    }
    h
}

#[derive(Default)]
struct HVerdict {
    violations: Vec<(String, String)>,
    inconclusive: Vec<String>,
    counts: Vec<(String, u64)>,
    timeouts: u64,
    waves: u64,
}

fn judge_hostile(h: &HHist) -> HVerdict {
    let mut v = HVerdict::default();
    let p = &h.plan;
    let k = p.kind.name();
    let sigp = format!("C04:{k}:hostile-header");
    let mut counts: Vec<(String, u64)> = vec![];
    let mut cnt = |key: String, n: u64| counts.push((key, n));
    if let Some(e) = &h.setup_err {
        v.inconclusive.push(format!("hostile-header #{} ({k}): could not set up the connection: {e}", p.index));
        return v;
    }
    for id in &h.dup_ids {
        v.violations.push((format!("C04:{k}:duplicate-request-id"), format!("request id {id} had already been used on this connection")));
    }
    if let Some(t) = &h.trouble {
        v.inconclusive.push(format!("hostile-header #{} ({k}): harness trouble: {t}", p.index));
    }
    for (wi, w) in h.waves.iter().enumerate() {
        if w.items.is_empty() {
            continue;
        }
        v.waves += 1;
        cnt(format!("hostile_header_waves_{k}"), 1);
        let show_item = |it: &HItem| -> String {
            let what = match it.what {
                HWhat::Real(s) => format!("answer to slot {s}"),
                HWhat::Dup(s) => format!("duplicate of the answer to slot {s}"),
                HWhat::Unknown => "unknown-id frame".to_string(),
                HWhat::Push(Some(s)) => format!("push (notify={}) reusing the in-flight id of slot {s}", it.notify),
                HWhat::Push(None) => format!("push (notify={}) with an unknown id", it.notify),
            };
            format!("{what} id {}{}", it.id, it.fields.map(|(_, f)| format!(" [{}]", f.show())).unwrap_or_default())
        };
        let script = format!(
            "{} calls in flight on one {k} connection{} (wave {wi}, apis {:?}); the fake server sent, every frame well-formed (magic, consistent lengths) and completely written: {}; it did not close the connection",
            w.n,
            if p.kind == Kind::W { if p.subscriber { " with a notify subscriber" } else { " without a notify subscriber" } } else { "" },
            w.apis,
            w.items.iter().filter(|it| it.written).map(show_item).collect::<Vec<_>>().join("; "),
        );
        for it in w.items.iter().filter(|it| it.written) {
            if let Some((class, _)) = it.fields {
                let kind = match it.what {
                    HWhat::Real(_) => "answers",
                    HWhat::Dup(_) => "duplicates",
                    HWhat::Unknown => "unknown_id_frames",
                    HWhat::Push(Some(_)) => "pushes_reusing_inflight_id",
                    HWhat::Push(None) => "pushes_unknown_id",
                };
                cnt(format!("hostile_header_{kind}_with_unusual_{class}"), 1);
                cnt(format!("hostile_header_unusual_frames_sent_{k}"), 1);
            }
        }
        let tok_slot: HashMap<&str, usize> = w.tokens.iter().enumerate().map(|(i, t)| (t.as_str(), i)).collect();
        for slot in 0..w.n {
            let Some(pos) = w.items.iter().position(|it| it.what == HWhat::Real(slot)) else { continue };
            let real = &w.items[pos];
            let Some((own_json, own_body, own_query)) = &w.own[slot] else { continue };
            let id = w.ids[slot].unwrap_or(0);
            let unusual_before: Vec<&HItem> = w.items[..pos].iter().filter(|it| it.fields.is_some() && it.written).collect();
            let who = format!("slot {slot} (api {:?}, request id {id}, token {})", w.apis[slot], w.tokens[slot]);
            let Some((res, late)) = &w.outs[slot] else {
                v.timeouts += 1;
                v.inconclusive.push(format!("hostile-header #{} ({k}): {who} produced no result inside the harness bound (answer written: {})", p.index, real.written));
                continue;
            };
            let classify = |tok: Option<&str>, kk: Option<&str>| -> (String, String) {
                match (tok, kk) {
                    (_, Some("unk")) => ("unknown-id-frame-delivered".into(), "an unknown-id frame".into()),
                    (_, Some("push")) => ("push-delivered-to-call".into(), "a pushed frame".into()),
                    (Some(t), _) if tok_slot.get(t).map(|j| *j != slot).unwrap_or(false) => ("got-other-calls-response".into(), format!("the response of slot {}", tok_slot[t])),
                    _ => ("foreign-response".into(), "not a frame the fake server sent for this call".into()),
                }
            };
            // is what came back the call's own answer?
            let own = match res {
                TRes::Val(val) => Some(val == own_json),
                TRes::Msg { id: rid, notify, body, query, .. } => Some(*rid == id && *notify == 0 && body == own_body && query == own_query),
                TRes::Err(_) => None,
            };
            match (real.fields, own, res) {
                (None, Some(true), _) => {
                    cnt(format!("hostile_header_ordinary_calls_returned_own_response_{k}"), 1);
                    if !unusual_before.is_empty() {
                        cnt(format!("hostile_header_ordinary_calls_returned_own_response_after_unusual_frames_{k}"), 1);
                    }
                }
                (Some((class, _)), Some(true), _) => cnt(format!("hostile_header_addressed_call_returned_own_response_unusual_{class}"), 1),
                (_, Some(false), _) => {
                    let (tok, kk) = match res {
                        TRes::Val(val) => (val.get("tok").and_then(|t| t.as_str()).map(|s| s.to_string()), val.get("k").and_then(|t| t.as_str()).map(|s| s.to_string())),
                        TRes::Msg { body, .. } => {
                            let b: Option<Value> = serde_json::from_slice(body).ok();
                            (b.as_ref().and_then(|b| b.get("tok")).and_then(|t| t.as_str()).map(|s| s.to_string()), b.as_ref().and_then(|b| b.get("k")).and_then(|t| t.as_str()).map(|s| s.to_string()))
                        }
                        TRes::Err(_) => (None, None),
                    };
                    let (what, text) = classify(tok.as_deref(), kk.as_deref());
                    v.violations.push((format!("{sigp}:{what}"), format!("{who} returned {} which is {text}, not its own response; {script}", show_tres(res))));
                }
                (fields, None, TRes::Err(e)) => {
                    if let Some((expected, got)) = e.mismatch {
                        v.violations.push((format!("{sigp}:call-got-frame-of-other-id"), format!("{who} failed with ResponseIdMismatch(expected {expected}, got {got}); {script}")));
                    } else if let Some((class, _)) = fields {
                        // the frame addressed to this call was unusual: an error concerns this call only
                        cnt(format!("hostile_header_addressed_call_returned_error_unusual_{class}_{}", e.class.replace('.', "_")), 1);
                    } else if *late || !real.written {
                        v.timeouts += *late as u64;
                        v.inconclusive.push(format!("hostile-header #{} ({k}): {who} returned `{}` late / without its answer having been written", p.index, e.text));
                    } else {
                        let culprit = if unusual_before.is_empty() { "no unusual frame had been sent before its answer".to_string() } else { format!("frames NOT addressed to it sent before its answer: {}", unusual_before.iter().map(|it| show_item(it)).collect::<Vec<_>>().join("; ")) };
                        v.violations.push((
                            format!("{sigp}:other-call-failed:{}", e.class),
                            format!("{who} failed with `{}` ({}) although its own answer was an ordinary frame (version 1, ec 0) that the fake server wrote completely; {culprit}; {script}", e.text, e.class),
                        ));
                    }
                }
                _ => {}
            }
        }
    }
    // the subscriber sees pushes only
    for (id, nf, body) in &h.sub_items {
        let b: Option<Value> = serde_json::from_slice(body).ok();
        let is_push = *nf != 0 && b.as_ref().and_then(|b| b.get("k")).and_then(|x| x.as_str()) == Some("push");
        if is_push {
            cnt("hostile_header_pushes_received_by_ws_subscriber".into(), 1);
        } else {
            v.violations.push((format!("{sigp}:subscriber-got-non-push"), format!("the notify subscriber received a frame with id {id}, notify byte {nf}, body {} that is not one of the pushes", hex_trunc(body, 80))));
        }
    }
    v.counts = counts;
    v
}

pub(super) fn run_family(st: &mut Stage, args: &Args, index: &mut u64) {
    match st.only {
        None | Some(("hostile-header", _)) => {}
        Some(_) => return,
    }
    if st.stop.is_some() {
        return;
    }
    let t_family = Instant::now();
    let variants = accepted_variants(&mut st.rep);
    if variants.is_empty() {
        st.rep.inconclusive("hostile-header: the library's public frame decoders reject every unusual header variant; nothing to interleave");
        return;
    }
    let mut r = Rng::new(args.seed ^ 0x4057_11E0_C04);
    let per_kind = (args.budget(H_PAR_PER_KIND as u64, 6 * H_PAR_PER_KIND as u64) as usize * if args.stage == "hostile-header" { 4 } else { 1 }).max(4);
    let rounds = per_kind.div_ceil(H_PAR_PER_KIND);
    let mut anomalies = 0u64;
    for round in 0..rounds {
        if st.stop.is_some() || anomalies >= 12 {
            break;
        }
        let here = H_PAR_PER_KIND.min(per_kind - round * H_PAR_PER_KIND);
        let mut plans: Vec<HPlan> = vec![];
        for i in 0..here {
            for kind in [Kind::B, Kind::A, Kind::W] {
                *index += 1;
                plans.push(HPlan { index: *index, kind, subscriber: kind == Kind::W && i % 2 == 0, salt: r.next_u64() });
            }
        }
        let (rt, seed) = (st.ctx.rt, st.seed);
        let vs = &variants;
        let hists: Vec<Result<HHist, String>> = std::thread::scope(|s| {
            let hs: Vec<_> = plans.iter().map(|p| s.spawn(move || catching(|| run_conn(rt, seed, p, vs)))).collect();
            hs.into_iter().map(|h| h.join().unwrap_or_else(|_| Err("connection thread panicked".into()))).collect()
        });
        for (p, h) in plans.iter().zip(hists) {
            let h = match h {
                Ok(h) => h,
                Err(e) => {
                    st.rep.inconclusive(format!("hostile-header #{} ({}): harness panic: {e}", p.index, p.kind.name()));
                    continue;
                }
            };
            let v = judge_hostile(&h);
            let rep = &mut st.rep;
            for _ in 0..v.waves {
                rep.eval();
            }
            rep.count("scenarios_family_hostile_header", v.waves);
            if v.waves > 0 {
                rep.count(&format!("connections_{}_hostile_header", p.kind.name()), 1);
            }
            for (key, n) in &v.counts {
                rep.count(key, *n);
            }
            for (wi, w) in h.waves.iter().enumerate() {
                let ident = ("hostile-header-script", p.kind, p.subscriber, &w.apis, w.items.iter().map(|it| (it.what, it.notify, it.fields)).collect::<Vec<_>>());
                st.scripts.insert(hash_of(&ident));
                rep.distinct(&ident);
                if rep.samples.len() < rep.max_samples && p.index % 19 == 4 && wi == 1 {
                    rep.sample(json!({
                        "scenario": {"seed": st.seed, "stage": rep.stage, "family": "hostile-header", "index": p.index, "client": p.kind.name(), "subscriber": p.subscriber, "wave": wi},
                        "frames_sent": w.items.iter().map(|it| format!("{:?} id {} notify {} {}", it.what, it.id, it.notify, it.fields.map(|(_, f)| f.show()).unwrap_or_else(|| "ordinary".into()))).collect::<Vec<_>>(),
                        "results": w.outs.iter().map(|o| o.as_ref().map(|o| show_tres(&o.0)).unwrap_or_else(|| "no result".into())).collect::<Vec<_>>(),
                    }));
                }
            }
            if !v.violations.is_empty() || !v.inconclusive.is_empty() {
                anomalies += 1;
            }
            for (sig, detail) in v.violations {
                let detail = format!("[hostile-header #{} {}] {detail}", p.index, p.kind.name());
                let replay = json!({"seed": st.seed, "stage": st.rep.stage, "family": "hostile-header", "index": p.index, "client": p.kind.name(), "subscriber": p.subscriber, "salt": p.salt});
                st.rep.violation(sig, detail, replay);
            }
            for i in v.inconclusive {
                st.rep.inconclusive(i);
            }
            st.timeouts += v.timeouts;
        }
        if st.rep.violations.len() >= 12 {
            st.stop = Some("twelve distinct violations recorded; stopping early".into());
        }
    }
    if anomalies >= 12 {
        st.rep.set("hostile_header_family_stopped_after_anomalies", json!(anomalies));
    }
    if st.stop.is_none() && anomalies == 0 {
        for kind in [Kind::B, Kind::A, Kind::W] {
            let k = kind.name();
            if st.rep.get_count(&format!("hostile_header_ordinary_calls_returned_own_response_after_unusual_frames_{k}")) == 0 {
                st.rep.inconclusive(format!("hostile-header: no ordinary {k} call was observed returning after an unusual frame had arrived"));
            }
        }
    }
    st.deadline += t_family.elapsed();
}
