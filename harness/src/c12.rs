//! C12 — a parked producer is always woken by the event it waits for.
//!
//! Monitor over real threads: one waiter (credit or reconnect, far-future deadline) plus 1..3
//! signalling threads issuing ack / cancel / advance / resume / send / spurious-wake operations with
//! seeded spins. All operations and the waiter's park/wake probe events (H4, recorded under the
//! control's own mutex) are stamped from one atomic counter. Verdicts are logical:
//!  * after the signallers finished, the observable state decides whether the waiter's condition is
//!    true (credit: `wait_for_credit(chunk, expired)` as a pure predicate; reconnect: an accepted resume
//!    not followed by any advance, or a cancel). If it is true and the waiter is still parked after a
//!    grace period with a quiet heartbeat, `verif_notify_all()` (changes no state) is issued: if the
//!    waiter then returns successfully it WAS asleep with a true condition — a lost wake-up.
//!  * a waiter with a far-future deadline returning Timeout returned before its deadline.
//!  * never-true waits (with stale acks and spurious wakes thrown at them) must return Timeout, and
//!    `Instant::now() >= deadline` must hold at return.
//! Under Miri (stage miri*) the same scenarios run on Miri's scheduler with its virtual clock: time
//! only advances when every thread is blocked, so a missed notification shows up as the waiter
//! returning Timeout at a 10^6 s deadline — load-independent.

use crate::common::*;
use repe::{CreditError, NotifyBody, PeerHandle, PeerId, PeerSendError, PeerSink, ReconnectOutcome, TransferControl};
use serde_json::{Value, json};
use std::cell::RefCell;
use std::sync::atomic::{AtomicU64, Ordering};
use std::sync::{Arc, Mutex, mpsc};
use std::time::{Duration, Instant};

struct NullSink;
impl PeerSink for NullSink {
    fn send_notify(&self, _m: &str, _b: NotifyBody) -> Result<(), PeerSendError> {
        Ok(())
    }
}
/// A sink whose advisory `is_connected()` says "no": neither gate may depend on it.
struct DownSink;
impl PeerSink for DownSink {
    fn is_connected(&self) -> bool {
        false
    }
    fn send_notify(&self, _m: &str, _b: NotifyBody) -> Result<(), PeerSendError> {
        Ok(())
    }
}
static PEER_FLIP: AtomicU64 = AtomicU64::new(0);
/// every other peer handle handed to request_resume reports "not connected"
fn peer(id: u64) -> PeerHandle {
    if PEER_FLIP.fetch_add(1, Ordering::Relaxed) % 2 == 1 { PeerHandle::new(PeerId(id), Arc::new(DownSink)) } else { PeerHandle::new(PeerId(id), Arc::new(NullSink)) }
}

#[derive(Clone, Debug, PartialEq, Eq, Hash)]
enum Sig {
    Ack { file: u32, off: u64 },
    Cancel,
    Advance { file: u32 },
    Resume { file: u32, off: u64 },
    Send { n: u64 },
    /// spurious wake: notify_all without any state change
    Kick,
}

#[derive(Clone, Debug, PartialEq, Eq, Hash)]
enum Kind {
    Credit { chunk: u64 },
    Reconnect,
}

#[derive(Clone, Debug, Hash)]
struct Scenario {
    kind: Kind,
    window: u64,
    /// chunks of this size are pushed+sent before the waiter starts (sent = pre * unit)
    unit: u64,
    pre: u64,
    signallers: Vec<Vec<(Sig, u32)>>, // (op, spin count before it)
    /// Some(ms): a never-true wait with this deadline; None: far-future deadline
    short_deadline_ms: Option<u64>,
    waiter_delay_spins: u32,
    /// never-true waits only: one extra thread keeps issuing wakes that cannot satisfy the wait (spurious wakes,
    /// wrong-file and non-advancing acks) every quarter deadline until the waiter returns, for at most 75 deadlines
    steady_unrelated_wakes: bool,
    /// far-future waits: how far the deadline is (ms); drawn from classes incl. values just above multiples of 2^31 / 2^32 ms
    far_ms: u64,
    /// far-future waits: the signallers stay quiet this long after the waiter started (0 = start at once)
    quiet_ms: u64,
}

struct SchedLog {
    clock: AtomicU64,
    ev: Mutex<Vec<(u64, &'static str)>>,
}

thread_local! {
    static CUR: RefCell<Option<Arc<SchedLog>>> = const { RefCell::new(None) };
}

fn install_probe() {
    repe::verif_hooks::set_probe(Some(Arc::new(|point: &'static str, _id: u64| {
        if !point.starts_with("stream.") {
            return;
        }
        CUR.with(|c| {
            if let Some(l) = c.borrow().as_ref() {
                let s = l.clock.fetch_add(1, Ordering::SeqCst);
                l.ev.lock().unwrap().push((s, point));
            }
        });
    })));
}

#[derive(Debug, Clone, PartialEq)]
enum WaitRes {
    Ok,
    Resume(u64),
    Cancelled,
    Timeout,
}

fn gen_scenario(r: &mut Rng, miri: bool) -> Scenario {
    let unit = 1 + r.below(4);
    let pre = 1 + r.below(4);
    let sent = unit * pre;
    let never_true = r.chance(1, if miri { 6 } else { 8 });
    let reconnect = r.chance(1, 3);
    // credit: window chosen so that the waiter must park initially: sent + chunk > window
    let chunk = 1 + r.below(3);
    let window = if reconnect { 1 << 20 } else { (sent + chunk - 1).saturating_sub(r.below(unit.min(sent))) };
    let nsig = 1 + r.usize_below(3);
    let mut signallers = vec![];
    for _ in 0..nsig {
        let len = 1 + r.usize_below(if miri { 2 } else { 4 });
        let mut ops = vec![];
        for _ in 0..len {
            let spin = if miri { 0 } else { r.below(3000) as u32 };
            let op = if never_true {
                // only operations that cannot make the condition true
                match r.below(4) {
                    0 => Sig::Ack { file: 7, off: r.boundary_u64() },          // wrong file
                    1 => Sig::Ack { file: 0, off: 0 },                        // not advancing
                    2 => Sig::Kick,
                    _ => if reconnect { Sig::Resume { file: 3, off: 0 } } else { Sig::Send { n: 1 } }, // wrong-file resume / more in flight
                }
            } else if reconnect {
                match r.below(8) {
                    0 | 1 | 2 => Sig::Resume { file: 0, off: unit * r.below(pre + 1) },
                    3 => Sig::Resume { file: 0, off: unit * r.below(pre + 1) + if unit > 1 { 1 } else { 7 } }, // off boundary: rejected
                    4 => Sig::Cancel,
                    5 => Sig::Kick,
                    6 => Sig::Ack { file: 0, off: r.below(sent + 1) },
                    _ => Sig::Advance { file: 0 },
                }
            } else {
                match r.below(10) {
                    0 | 1 | 2 => Sig::Ack { file: 0, off: r.below(sent + 2) },
                    3 => Sig::Ack { file: r.below(2) as u32 + 1, off: u64::MAX },
                    4 => Sig::Cancel,
                    // any index: a restart of the same file (0), a later file, or an earlier one after another advance
                    5 => Sig::Advance { file: *r.pick(&[0u32, 1, 1, 2]) },
                    6 => Sig::Resume { file: 0, off: unit * r.below(pre + 1) },
                    7 => Sig::Send { n: 1 + r.below(2) },
                    8 => Sig::Kick,
                    _ => Sig::Ack { file: 0, off: sent },
                }
            };
            ops.push((op, spin));
        }
        signallers.push(ops);
    }
    // far-future deadline classes: what callers pass to mean "no timeout". A quiet start (nothing signalled for longer than the
    // residue above a power-of-two number of milliseconds) shows a deadline that was truncated or wrapped on the way to the park.
    let residue = 30 + r.below(90);
    let quiet = !never_true && r.chance(1, if miri { 4 } else { 12 });
    let far_ms = if quiet {
        *r.pick(&[(1u64 << 32) + residue, (1u64 << 31) + residue, (1u64 << 33) + residue, 3 * (1u64 << 32) + residue, (1u64 << 32) * 1000 + residue, (1u64 << 42) + residue])
    } else if miri {
        1_000_000_000
    } else {
        *r.pick(&[600_000u64, 600_000, 86_400_000, (1u64 << 32) + residue, 10 * 365 * 86_400_000, 1u64 << 40])
    };
    Scenario {
        far_ms,
        quiet_ms: if quiet { residue + 150 } else { 0 },
        kind: if reconnect { Kind::Reconnect } else { Kind::Credit { chunk } },
        window,
        unit,
        pre,
        signallers,
        short_deadline_ms: if never_true { Some(if miri { 50 } else { 15 + r.below(30) }) } else { None },
        waiter_delay_spins: if miri { 0 } else { r.below(4000) as u32 },
        steady_unrelated_wakes: never_true && r.chance(1, 3),
    }
}

struct Outcome {
    violation: Option<(String, String)>,
    inconclusive: Option<String>,
    class: &'static str,
    parks: usize,
}

fn spin(n: u32) {
    for _ in 0..n {
        std::hint::spin_loop();
    }
}

fn run_scenario(s: &Scenario, miri: bool, hb: Option<&Heartbeat>) -> Outcome {
    let ctl = TransferControl::with_replay_capacity(s.window, 1 << 20);
    for i in 0..s.pre {
        ctl.push_replay(i * s.unit, s.unit, false, vec![i as u8; s.unit as usize]);
        ctl.record_sent((i + 1) * s.unit);
    }
    let log = Arc::new(SchedLog { clock: AtomicU64::new(0), ev: Mutex::new(vec![]) });
    let far = Duration::from_millis(s.far_ms);
    let (tx, rx) = mpsc::channel::<(WaitRes, bool, Duration)>();
    let waiter_done = Arc::new(std::sync::atomic::AtomicBool::new(false));
    // waiter
    let w = {
        let (ctl, log, s2) = (ctl.clone(), log.clone(), s.clone());
        let waiter_done = waiter_done.clone();
        std::thread::spawn(move || {
            CUR.with(|c| *c.borrow_mut() = Some(log));
            spin(s2.waiter_delay_spins);
            let start = Instant::now();
            let mut dur = s2.short_deadline_ms.map(Duration::from_millis).unwrap_or(far);
            let deadline = match start.checked_add(dur) {
                Some(d) => d,
                None => {
                    dur = Duration::from_secs(600);
                    start + dur
                }
            };
            let res = match s2.kind {
                Kind::Credit { chunk } => match ctl.wait_for_credit(chunk, deadline) {
                    Ok(()) => WaitRes::Ok,
                    Err(CreditError::Cancelled(_)) => WaitRes::Cancelled,
                    Err(CreditError::Timeout) => WaitRes::Timeout,
                },
                Kind::Reconnect => match ctl.wait_for_reconnect(dur) {
                    ReconnectOutcome::ResumeReady(p) => WaitRes::Resume(p.resume_at_offset),
                    ReconnectOutcome::Cancelled(_) => WaitRes::Cancelled,
                    ReconnectOutcome::Timeout => WaitRes::Timeout,
                },
            };
            let now = Instant::now();
            waiter_done.store(true, Ordering::SeqCst);
            let _ = tx.send((res, now >= deadline, now.duration_since(start)));
            CUR.with(|c| *c.borrow_mut() = None);
        })
    };
    // signallers; each op stamped (call, return) with the same clock
    let ops_log: Arc<Mutex<Vec<(u64, u64, Sig, bool)>>> = Arc::new(Mutex::new(vec![]));
    let mut hs = vec![];
    for ops in &s.signallers {
        let (ctl, log, ops, ops_log) = (ctl.clone(), log.clone(), ops.clone(), ops_log.clone());
        let quiet_ms = s.quiet_ms;
        hs.push(std::thread::spawn(move || {
            if quiet_ms > 0 {
                std::thread::sleep(Duration::from_millis(quiet_ms));
            }
            for (op, sp) in ops {
                spin(sp);
                let c = log.clock.fetch_add(1, Ordering::SeqCst);
                let ok = match &op {
                    Sig::Ack { file, off } => {
                        ctl.record_ack(*file, *off);
                        true
                    }
                    Sig::Cancel => {
                        // the reason is the peer's text: empty, blank, the library's own watchdog wording, or descriptive
                        ctl.cancel(["cancelled-by-signaller", "", " ", "transfer idle", "\0"][(c % 5) as usize]);
                        true
                    }
                    Sig::Advance { file } => {
                        ctl.advance_to_file(*file);
                        true
                    }
                    Sig::Resume { file, off } => ctl.request_resume(peer(9), *file, *off).is_ok(),
                    Sig::Send { n } => {
                        let (sent, _) = ctl.offsets();
                        ctl.record_sent(sent + n);
                        true
                    }
                    Sig::Kick => {
                        ctl.verif_notify_all();
                        true
                    }
                };
                let d = log.clock.fetch_add(1, Ordering::SeqCst);
                ops_log.lock().unwrap().push((c, d, op, ok));
            }
        }));
    }
    let postponed = Arc::new(std::sync::atomic::AtomicBool::new(false));
    if let (true, Some(ms)) = (s.steady_unrelated_wakes, s.short_deadline_ms) {
        let (ctl, done, postponed) = (ctl.clone(), waiter_done.clone(), postponed.clone());
        hs.push(std::thread::spawn(move || {
            let step = Duration::from_millis((ms / 4).max(1));
            for k in 0..300u32 {
                if done.load(Ordering::SeqCst) {
                    return;
                }
                match k % 3 {
                    0 => ctl.verif_notify_all(),
                    1 => ctl.record_ack(9, u64::MAX),
                    _ => ctl.record_ack(0, 0),
                }
                std::thread::sleep(step);
            }
            // 75 deadlines of unrelated wakes later the wait has still not timed out
            postponed.store(!done.load(Ordering::SeqCst), Ordering::SeqCst);
        }));
    }
    for h in hs {
        let _ = h.join();
    }
    let ops = ops_log.lock().unwrap().clone();
    let cancelled = ops.iter().any(|(_, _, o, _)| *o == Sig::Cancel);
    let describe = |extra: &str| {
        let ev = log.ev.lock().unwrap().clone();
        format!("{extra}; scenario {s:?}; ops (call,ret,op,accepted) {ops:?}; waiter probe events {ev:?}; offsets {:?}", ctl.offsets())
    };
    let classify = |log: &SchedLog| -> (&'static str, usize) {
        let ev = log.ev.lock().unwrap();
        let parks = ev.iter().filter(|e| e.1.ends_with(".park")).count();
        (match parks { 0 => "never-parked", 1 => "parked-once", _ => "parked-repeatedly" }, parks)
    };

    // ---- never-true waits: must end with Timeout at/after the deadline
    if let Some(ms) = s.short_deadline_ms {
        let got = rx.recv_timeout(Duration::from_secs(if miri { 3_000_000 } else { 20 }));
        let _ = w.join();
        let (class, parks) = classify(&log);
        if postponed.load(Ordering::SeqCst) {
            let stalled = hb.map(|h| h.max_gap_ms() > 1000).unwrap_or(false);
            return if stalled {
                Outcome { violation: None, inconclusive: Some("timeout late under steady wakes but the machine stalled".into()), class, parks }
            } else {
                Outcome { violation: Some(("C12:timeout-postponed-by-unrelated-wakes".into(), describe(&format!("a wait with a {ms} ms deadline whose condition never became true had not returned after 75 deadlines while unrelated wakes (spurious, wrong-file and non-advancing acks) kept arriving every {} ms; it returned {:?} only after they stopped", (ms / 4).max(1), got.as_ref().map(|g| &g.0))))), inconclusive: None, class, parks }
            };
        }
        return match got {
            Ok((WaitRes::Timeout, after_deadline, took)) => {
                if !after_deadline {
                    Outcome { violation: Some(("C12:timeout-before-deadline".into(), describe(&format!("Timeout returned after {took:?}, before the {ms} ms deadline")))), inconclusive: None, class, parks }
                } else {
                    Outcome { violation: None, inconclusive: None, class, parks }
                }
            }
            Ok((other, _, took)) => Outcome { violation: Some((format!("C12:never-true-wait-returned:{}", format!("{other:?}").split('(').next().unwrap_or("")), describe(&format!("a wait whose condition never became true returned {other:?} after {took:?}")))), inconclusive: None, class, parks },
            Err(_) => {
                if hb.map(|h| h.max_gap_ms() > 1000).unwrap_or(false) {
                    Outcome { violation: None, inconclusive: Some("machine stall during a short-deadline wait".into()), class, parks }
                } else {
                    Outcome { violation: Some(("C12:timeout-never-returned".into(), describe(&format!("wait with a {ms} ms deadline had not returned after 20 s")))), inconclusive: None, class, parks }
                }
            }
        };
    }

    // ---- far-future waits
    // must the waiter return, judging only from what the signallers observably did?
    // a file advance that began after every send had returned leaves nothing in flight: credit for any chunk is available then,
    // whatever index the advance named (a later file, or a restart of the same one). Judged from the operations, not from the
    // implementation's state, so that an advance which silently did nothing is seen.
    let advance_frees_credit = ops.iter().any(|(ca, _, o, _)| matches!(o, Sig::Advance { .. }) && ops.iter().all(|(_, ds, x, _)| !matches!(x, Sig::Send { .. }) || ds < ca));
    // an acknowledgement for the current file that was issued after every send had returned is capped by the final `sent` only:
    // if even the lower bound it sets on `acked` leaves room for the chunk, the waiter must return — whether or not the
    // implementation actually applied that acknowledgement (a repeated cumulative ACK dropped as a "duplicate" is seen this way).
    let no_advance = !ops.iter().any(|(_, _, o, _)| matches!(o, Sig::Advance { .. }));
    let sent_final: u64 = s.pre * s.unit + ops.iter().map(|(_, _, o, _)| if let Sig::Send { n } = o { *n } else { 0 }).sum::<u64>();
    let acked_lb: u64 = ops
        .iter()
        // an ACCEPTED resume for the current file is an acknowledgement up to its offset as well (the receiver has that much)
        .filter(|(ca, _, o, ok)| (matches!(o, Sig::Ack { file: 0, .. }) || (matches!(o, Sig::Resume { file: 0, .. }) && *ok)) && ops.iter().all(|(_, ds, x, _)| !matches!(x, Sig::Send { .. }) || ds < ca))
        .map(|(_, _, o, _)| match o {
            Sig::Ack { off, .. } => (*off).min(sent_final),
            Sig::Resume { off, .. } if *off <= sent_final => *off,
            _ => 0,
        })
        .max()
        .unwrap_or(0);
    let ack_frees_credit = no_advance && matches!(s.kind, Kind::Credit { chunk } if sent_final - acked_lb == 0 || sent_final - acked_lb + chunk <= s.window);
    let must_return = match s.kind {
        Kind::Credit { chunk } => advance_frees_credit || ack_frees_credit || !matches!(ctl.wait_for_credit(chunk, Instant::now()), Err(CreditError::Timeout)),
        Kind::Reconnect => {
            cancelled
                || ops.iter().any(|(rc, _, o, ok)| {
                    matches!(o, Sig::Resume { .. }) && *ok && !ops.iter().any(|(_, ad, a, _)| matches!(a, Sig::Advance { .. }) && ad > rc)
                })
        }
    };
    let mut violation = None;
    let mut inconclusive = None;
    let grace = if miri { Duration::from_secs(10) } else { Duration::from_secs(2) };
    let mut result = None;
    if must_return {
        match rx.recv_timeout(grace) {
            Ok(r) => result = Some(r),
            Err(_) => {
                // still parked although its condition is true. Spurious wake that changes no state:
                let stalled = hb.map(|h| h.max_gap_ms() > 1000).unwrap_or(false);
                ctl.verif_notify_all();
                match rx.recv_timeout(Duration::from_secs(5)) {
                    Ok(r) => {
                        if stalled {
                            inconclusive = Some("waiter late but the machine stalled".to_string());
                        } else {
                            violation = Some(("C12:lost-wakeup:".to_string() + match s.kind { Kind::Credit { .. } => "credit", Kind::Reconnect => "reconnect" } + ":" + &last_satisfying(&ops, s), describe(&format!("waiter stayed parked {grace:?} after its condition became true and returned {:?} only after a state-free notify_all", r.0))));
                        }
                        result = Some(r);
                    }
                    Err(_) => {
                        violation = Some(("C12:waiter-stuck".into(), describe("condition true, waiter did not return even after a spurious wake")));
                    }
                }
            }
        }
    }
    if result.is_none() && violation.is_none() {
        // legitimately still waiting (or ambiguous): a cancel must wake it
        if let Ok(r) = rx.try_recv() {
            result = Some(r);
        } else {
            ctl.cancel("harness-cleanup");
            match rx.recv_timeout(Duration::from_secs(if miri { 10 } else { 10 })) {
                Ok(r) => result = Some(r),
                Err(_) => {
                    let stalled = hb.map(|h| h.max_gap_ms() > 1000).unwrap_or(false);
                    ctl.verif_notify_all();
                    let after_kick = rx.recv_timeout(Duration::from_secs(5)).ok();
                    if stalled {
                        inconclusive = Some("cancel wake late but the machine stalled".into());
                    } else {
                        violation = Some(("C12:lost-wakeup:cancel".into(), describe(&format!("waiter did not return within 10 s of cancel; after a state-free notify_all it returned {:?}", after_kick.as_ref().map(|r| &r.0)))));
                    }
                    result = after_kick;
                }
            }
        }
    }
    if result.is_some() {
        let _ = w.join();
    } // else: leak the stuck thread
    if let (Some((WaitRes::Ok, _, _)), None, Kind::Credit { chunk }) = (&result, &violation, &s.kind) {
        // a grant must have been justified at some instant of the wait. Without an advance, `sent` only grows and
        // `acked` only grows, so in-flight(t) >= sent_at_start - acked_at_end for every t; if even that lower bound
        // leaves no room for the chunk, the waiter was released without credit (e.g. a wake that re-checks a weaker
        // predicate than the entry check).
        let advanced = ops.iter().any(|(_, _, o, _)| matches!(o, Sig::Advance { .. }));
        let (_, acked_final) = ctl.offsets();
        let sent0 = s.pre * s.unit;
        let lb = sent0.saturating_sub(acked_final);
        if !advanced && lb > 0 && lb + chunk > s.window {
            violation = Some(("C12:credit-granted-without-room".into(), describe(&format!("waiter for a {chunk}-byte chunk returned Ok although in-flight never dropped below {lb} with window {}", s.window))));
        }
    }
    if let (Some((res, _, took)), None) = (&result, &violation) {
        // plausibility of the returned value
        match res {
            WaitRes::Timeout => violation = Some(("C12:timeout-before-deadline:far-future".into(), describe(&format!("a wait with a far-future deadline returned Timeout after {took:?}")))),
            WaitRes::Cancelled if !cancelled && !ctl.cancel_reason().map(|r| r == "harness-cleanup").unwrap_or(false) => {
                violation = Some(("C12:cancelled-without-cancel".into(), describe("waiter reported Cancelled but nobody cancelled")))
            }
            WaitRes::Resume(o) => {
                if !ops.iter().any(|(_, _, op, ok)| matches!(op, Sig::Resume { off, .. } if off == o) && *ok) {
                    violation = Some(("C12:resume-not-requested".into(), describe(&format!("waiter got ResumeReady({o}) that no accepted resume asked for"))));
                }
            }
            _ => {}
        }
    }
    let (class, parks) = classify(&log);
    Outcome { violation, inconclusive, class, parks }
}

fn last_satisfying(ops: &[(u64, u64, Sig, bool)], _s: &Scenario) -> String {
    // name the kind of the last state-changing accepted signal (stable signature component)
    let mut o: Vec<_> = ops.iter().filter(|(_, _, op, ok)| *ok && !matches!(op, Sig::Kick | Sig::Send { .. })).collect();
    o.sort_by_key(|x| x.1);
    match o.last().map(|x| &x.2) {
        Some(Sig::Ack { .. }) => "ack",
        Some(Sig::Cancel) => "cancel",
        Some(Sig::Advance { .. }) => "advance",
        Some(Sig::Resume { .. }) => "resume",
        _ => "none",
    }
    .to_string()
}

pub fn run(args: &Args) -> Report {
    let miri = args.stage.starts_with("miri");
    let mut rep = Report::new(
        args,
        if miri { "c12-miri-virtual-clock" } else { "c12-native-threads" },
        "one waiter (credit or reconnect) + 1..3 signalling threads with seeded operation lists and spins on a fresh \
         TransferControl per schedule; park/wake probe events and operations stamped from one counter; logical verdicts (state \
         predicate + state-free notify_all; under Miri the virtual clock). distinct = (scenario, observed event order) hashes",
    );
    install_probe();
    let n = if miri { args.budget(2000, 16000).max(4) } else { args.budget(12_000, 1_000_000) };
    let mut rng = Rng::new(args.seed ^ 0xC12);
    let scenarios: Vec<Scenario> = (0..n).map(|i| gen_scenario(&mut rng.fork(i), miri)).collect();
    let hb = if miri { None } else { Some(Heartbeat::start()) };
    let workers = if miri { 1 } else { 8 };
    let results: Mutex<Vec<(usize, Outcome)>> = Mutex::new(vec![]);
    let next = AtomicU64::new(0);
    let bad = AtomicU64::new(0);
    let not_started = AtomicU64::new(0);
    let wall0 = Instant::now();
    std::thread::scope(|sc| {
        for _ in 0..workers {
            sc.spawn(|| {
                loop {
                    let i = next.fetch_add(1, Ordering::SeqCst) as usize;
                    // a broken tree costs seconds per witness: a handful of witnesses is enough
                    if i >= scenarios.len() || bad.load(Ordering::SeqCst) >= 6 {
                        break;
                    }
                    // the scenarios are independent draws: on a slow or shared machine the thorough tier stops drawing new ones after
                    // 35 minutes (what ran is reported as such) instead of running into the driver's wall-clock watchdog
                    if !miri && wall0.elapsed() > Duration::from_secs(2100) {
                        not_started.fetch_add(1, Ordering::SeqCst);
                        break;
                    }
                    let o = run_scenario(&scenarios[i], miri, hb.as_ref());
                    if o.violation.is_some() {
                        bad.fetch_add(1, Ordering::SeqCst);
                    }
                    results.lock().unwrap().push((i, o));
                }
            });
        }
    });
    repe::verif_hooks::set_probe(None);
    // ---- the cancel may also come from the idle-transfer watchdog (spawn_watchdog on a TransferRegistry): a parked producer must
    // be woken by it like by any other cancel. Four scenarios in parallel (credit / reconnect waiter, one or two transfers).
    if !miri {
        let found: Mutex<Vec<(String, String)>> = Mutex::new(vec![]);
        let done = AtomicU64::new(0);
        std::thread::scope(|sc| {
            for k in 0..4u64 {
                let (found, done, hb) = (&found, &done, hb.as_ref());
                sc.spawn(move || {
                    let reg: Arc<repe::TransferRegistry<u64>> = Arc::new(repe::TransferRegistry::new());
                    let ctl = TransferControl::with_replay_capacity(4, 1 << 20);
                    ctl.push_replay(0, 4, false, vec![0u8; 4]);
                    ctl.record_sent(4);
                    reg.register(k, ctl.clone());
                    if k >= 2 {
                        reg.register(100 + k, TransferControl::with_replay_capacity(64, 64));
                    }
                    repe::spawn_watchdog(reg.clone(), Duration::from_millis(150));
                    let (tx, rx) = mpsc::channel();
                    let c2 = ctl.clone();
                    std::thread::spawn(move || {
                        let far = Instant::now() + Duration::from_secs(3600);
                        let r = if k % 2 == 0 {
                            match c2.wait_for_credit(4, far) {
                                Ok(()) => "Ok".to_string(),
                                Err(CreditError::Cancelled(r)) => format!("Cancelled({r})"),
                                Err(CreditError::Timeout) => "Timeout".to_string(),
                            }
                        } else {
                            match c2.wait_for_reconnect(Duration::from_secs(3600)) {
                                ReconnectOutcome::Cancelled(r) => format!("Cancelled({r})"),
                                ReconnectOutcome::Timeout => "Timeout".to_string(),
                                ReconnectOutcome::ResumeReady(_) => "ResumeReady".to_string(),
                            }
                        };
                        let _ = tx.send(r);
                    });
                    // the watchdog ticks once per second (its floor) and cancels a transfer idle for longer than 150 ms
                    let t0 = Instant::now();
                    while !ctl.is_cancelled() && t0.elapsed() < Duration::from_secs(20) {
                        std::thread::sleep(Duration::from_millis(5));
                    }
                    let what = if k % 2 == 0 { "credit" } else { "reconnect" };
                    if !ctl.is_cancelled() {
                        found.lock().unwrap().push(("inconclusive".into(), format!("the watchdog did not cancel the idle transfer within 20 s ({what} waiter)")));
                        ctl.cancel("harness-cleanup");
                        let _ = rx.recv_timeout(Duration::from_secs(5));
                        return;
                    }
                    match rx.recv_timeout(Duration::from_secs(3)) {
                        Ok(r) if r.starts_with("Cancelled") => {
                            done.fetch_add(1, Ordering::SeqCst);
                        }
                        Ok(r) => found.lock().unwrap().push((format!("C12:watchdog-cancel:{what}:wrong-outcome"), format!("the idle watchdog cancelled the transfer; the parked {what} waiter returned {r}"))),
                        Err(_) => {
                            let stalled = hb.map(|h| h.max_gap_ms() > 1000).unwrap_or(false);
                            ctl.verif_notify_all();
                            let after = rx.recv_timeout(Duration::from_secs(5)).ok();
                            if stalled {
                                found.lock().unwrap().push(("inconclusive".into(), "watchdog-cancel wake late but the machine stalled".into()));
                            } else {
                                found.lock().unwrap().push((format!("C12:lost-wakeup:watchdog-cancel:{what}"), format!("the idle-transfer watchdog cancelled the transfer (is_cancelled() = true, reason {:?}) but the producer parked in wait_for_{what} was still parked 3 s later; after a state-free notify_all it returned {after:?}", ctl.cancel_reason())));
                            }
                        }
                    }
                    drop(reg);
                });
            }
        });
        for (sig, d) in found.into_inner().unwrap() {
            if sig == "inconclusive" {
                rep.inconclusive(d);
            } else {
                rep.violation(sig, d, json!({"part": "watchdog-cancel"}));
            }
        }
        for _ in 0..4 {
            rep.eval();
        }
        rep.distinct(&"watchdog-cancel-credit");
        rep.distinct(&"watchdog-cancel-reconnect");
        rep.set("producers_woken_by_the_idle_watchdog_cancel", json!(done.load(Ordering::SeqCst)));
    }
    let mut classes: std::collections::BTreeMap<String, u64> = Default::default();
    let mut parks_total = 0u64;
    for (i, o) in results.into_inner().unwrap() {
        rep.eval();
        let s = &scenarios[i];
        rep.distinct(&(hash_of(s), o.class, o.parks));
        let k = format!("{}:{}:{}", match s.kind { Kind::Credit { .. } => "credit", Kind::Reconnect => "reconnect" }, if s.short_deadline_ms.is_some() { "never-true" } else { "far-deadline" }, o.class);
        *classes.entry(k).or_default() += 1;
        parks_total += o.parks as u64;
        if i < 3 {
            rep.sample(json!({"scenario": format!("{s:?}"), "waiter_class": o.class, "parks": o.parks}));
        }
        if let Some((sig, d)) = o.violation {
            rep.violation(sig, d, json!({"seed": args.seed, "case": i, "scenario": format!("{s:?}")}));
        }
        if let Some(inc) = o.inconclusive {
            rep.inconclusive(inc);
        }
    }
    rep.set("schedule_classes", json!(classes));
    rep.set("waiter_park_events", json!(parks_total));
    rep.set("scenarios_drawn", json!(scenarios.len()));
    rep.set("worker_threads_stopped_by_the_35_minute_cap", json!(not_started.load(Ordering::SeqCst)));
    if let Some(h) = &hb {
        rep.set("heartbeat_max_gap_ms", json!(h.max_gap_ms()));
    }
    if parks_total == 0 {
        rep.inconclusive("the waiter never parked in any schedule (park probe never reached)");
    }
    let _: Option<Value> = None;
    rep
}
