//! C15 — connection lifecycle hooks fire once, in order, on every exit path.
//!
//! Fault enumeration: a table of (exit cause × connection phase × serving entry point) cells, each
//! executed as one scenario against a fresh real `WebSocketServer` with 1..32 concurrent raw
//! `tokio_tungstenite` clients (raw `TcpStream` where bytes have to be forged). Every callback, handler
//! and driver action appends to a per-scenario event log stamped from ONE global atomic sequence; the
//! oracle runs offline over those logs plus the frame order each raw client saw.
//!
//! Hook layout per server (registration order matters, hooks fire in registration order):
//!   connect:    C0 (log)            -> registry insert -> C1 (alias a/b, probe, /hello1 notify, log) -> Cx (handshake hook: alias c, /hello2)
//!   disconnect: D0 (probe, log)     -> registry remove -> D1 (probe, log)
//! so D0 sees the registry *before* the library's removal and D1 *after* it.
//!
//! Hook-released handlers (`hook_release`, most OffReader cells and every takeover scenario): the off-reader
//! handler parks on a per-connection gate that only D0 -- the FIRST registered disconnect hook -- of its own
//! connection opens, and reads `ctx.is_cancelled()` the instant it wakes. The library documents "Drop cancels the
//! connection token, then runs the hooks in registration order", so on a correct tree the cancel() call precedes
//! D0's gate store in program order and the gate mutex orders it before the handler's read: the handler must read
//! `true`, deterministically. D1 spins ~1.5 ms (no blocking) so a cancel() issued only after the hooks is late.
//!
//! Identity takeover family (`c15_takeover.rs`, cells Takeover{Pair,Triple}:Identity): connection pairs/triples
//! share identity aliases attached in the handshake connect hook together with per-connection aliases in sorted
//! and unsorted orders; older connections end by client-side exit causes while newer ones stay; registry
//! snapshots (get, get_by, aliases_for, key_for) taken inside the newer connection's handlers, inside the
//! disconnect hooks and by the driver are compared offline against a reference alias model replayed over the log.
//!
//! Replaying one cell of a witness (`replay` json of a violation carries cause/phase/entry/conns/seed):
//!   rv c15 --tier quick only=<Cause>:<Phase>:<Entry> conns=<n> cellseed=<seed>
//!
//! Harness notes: scenarios deliberately park tokio worker threads inside connect callbacks / inline handlers
//! (gates make the phase certain), so the server side runs on its own 56-worker runtime with a global budget of
//! blocked workers and an external ticker that keeps the I/O driver owned; raw clients run on a second runtime
//! that is never blocked. Verdicts depend on event order and counts only; every wait is bounded (15 s window,
//! heartbeat stall => inconclusive).

use crate::common::*;
use crate::oracle::{SPEC, SpecHeader, frame, valid_parse};
use futures_util::future::join_all;
use futures_util::{SinkExt, StreamExt};
use repe::server::Router;
use repe::tokio_tungstenite::tungstenite::http;
use repe::{
    CallContext, ConnectionError, ErrorCode, HandshakeContext, NotifyBody, PeerHandle, PeerId, PeerRegistry, PeerSendError,
    SharedWebSocketServer, ShutdownToken, WebSocketServer, derive_accept_key,
};
use serde_json::{Value, json};
use std::collections::{BTreeMap, HashMap};
use std::net::SocketAddr;
use std::sync::atomic::{AtomicBool, AtomicU64, Ordering};
use std::sync::{Arc, Condvar, Mutex};
use std::time::{Duration, Instant};
use tokio::io::{AsyncReadExt, AsyncWriteExt};
use tokio::net::{TcpListener, TcpSocket, TcpStream};
use tokio::sync::{Semaphore, oneshot};
use tokio_tungstenite::WebSocketStream;
use tokio_tungstenite::tungstenite::Message as Ws;

// ------------------------------------------------------------------ table dimensions

#[derive(Clone, Copy, Debug, PartialEq, Eq, Hash, PartialOrd, Ord)]
enum Cause {
    Close,
    TcpDrop,
    Rst,
    Text,
    CorruptWs,
    MalformedRepe,
    InlinePanic,
    ConnectPanic,
    TokenCancel,
    GracefulDrain,
    DrainAbort,
}
const CAUSES: [Cause; 11] = [
    Cause::Close,
    Cause::TcpDrop,
    Cause::Rst,
    Cause::Text,
    Cause::CorruptWs,
    Cause::MalformedRepe,
    Cause::InlinePanic,
    Cause::ConnectPanic,
    Cause::TokenCancel,
    Cause::GracefulDrain,
    Cause::DrainAbort,
];

#[derive(Clone, Copy, Debug, PartialEq, Eq, Hash, PartialOrd, Ord)]
enum Phase {
    Idle,
    Inline,
    OffReader,
    QueueFull,
    ConnectCb,
}
const PHASES: [Phase; 5] = [Phase::Idle, Phase::Inline, Phase::OffReader, Phase::QueueFull, Phase::ConnectCb];

#[derive(Clone, Copy, Debug, PartialEq, Eq, Hash, PartialOrd, Ord)]
enum Entry {
    /// `serve_listener`
    ServeListener,
    /// `serve_listener_with_graceful_drain`
    DrainListener,
    /// own accept loop: `accept` (+`_with_handshake`) + `serve_connection` (+`_with_handshake`)
    AcceptServe,
    /// own accept loop: `accept` + `serve_connection_with_cancel` (+`_and_handshake`)
    AcceptServeCancel,
    /// hand-written HTTP upgrade + `adopt_upgraded(_partially_read)` + `serve_connection*`
    Adopt,
}
const ENTRIES: [Entry; 5] = [Entry::ServeListener, Entry::DrainListener, Entry::AcceptServe, Entry::AcceptServeCancel, Entry::Adopt];

#[derive(Clone, Copy, Debug, PartialEq, Eq, Hash, PartialOrd, Ord)]
enum BadHs {
    WrongPath,
    Garbage,
    EarlyClose,
    PartialRequest,
    NoUpgrade,
}
const BAD_HS: [BadHs; 5] = [BadHs::WrongPath, BadHs::Garbage, BadHs::EarlyClose, BadHs::PartialRequest, BadHs::NoUpgrade];

fn is_frame_cause(c: Cause) -> bool {
    matches!(c, Cause::Text | Cause::CorruptWs | Cause::MalformedRepe | Cause::InlinePanic)
}
fn is_client_cause(c: Cause) -> bool {
    matches!(c, Cause::Close | Cause::TcpDrop | Cause::Rst) || is_frame_cause(c)
}

/// Some(reason) when the cell cannot be produced / is a duplicate of another cell by construction.
fn skip_reason(c: Cause, p: Phase, e: Entry) -> Option<&'static str> {
    match c {
        Cause::TokenCancel if !matches!(e, Entry::AcceptServeCancel | Entry::Adopt) => return Some("entry point takes no embedder ShutdownToken"),
        Cause::GracefulDrain | Cause::DrainAbort if e != Entry::DrainListener => return Some("only serve_listener_with_graceful_drain has a drain"),
        _ => {}
    }
    if c == Cause::ConnectPanic && !matches!(p, Phase::ConnectCb | Phase::Idle) {
        return Some("a connection whose connect callback panics never reaches this phase");
    }
    if p == Phase::ConnectCb && is_frame_cause(c) {
        return Some("frames are consumed by the reader, which has not started inside a connect callback (same as the idle cell)");
    }
    if c == Cause::DrainAbort && p == Phase::Idle {
        return Some("nothing uncooperative to abort on an idle connection (same as the graceful-drain cell)");
    }
    None
}

// ------------------------------------------------------------------ event log (one global sequence)

static SEQ: AtomicU64 = AtomicU64::new(1);
fn next_seq() -> u64 {
    SEQ.fetch_add(1, Ordering::SeqCst)
}

#[derive(Clone, Debug)]
enum Ev {
    Connect0 { peer: u64 },
    Connect1 { peer: u64, alias_ok: bool, hello_ok: bool, get: bool, by_a: bool, by_b: bool },
    ConnectCtx { peer: u64, hello_ok: bool, client: i64 },
    CGateEnter { peer: u64 },
    CGateExit { peer: u64, timeout: bool },
    Disc0 { peer: u64, get: bool, by_a: bool, by_b: bool },
    Disc1 { peer: u64, get: bool, by_a: bool, by_b: bool, n_alias: usize },
    HEnter { peer: u64, tok: u64, off: bool },
    HCancelSeen { peer: u64, tok: u64 },
    /// the last disconnect hook of `peer` tried to alias the departed peer under a key of the still-connected `victim`
    LateAlias { peer: u64, victim: u64, accepted: bool },
    /// the `ctx.cancelled()` future the handler first polled when it parked was woken and resolved (`ms` after is_cancelled() read true)
    HFutureResolved { peer: u64, tok: u64, ms: u64 },
    /// ... was not woken within FUT_GRACE of is_cancelled() reading true
    HFutureStuck { peer: u64, tok: u64, stalled: bool },
    HRelease { peer: u64, tok: u64, off: bool, s1: u64, cancelled: bool, timeout: bool },
    Probe { peer: u64, s1: u64, get: bool, by_a: bool, by_b: bool, site: &'static str },
    QueueFull { peer: u64, pushed: u64 },
    PanicNow { peer: u64, site: &'static str },
    /// an off-reader handler left its per-connection gate; `by_hook` = the gate was opened by its own connection's D0
    HHookRelease { peer: u64, tok: u64, by_hook: bool, cancelled: bool },
    // --- identity takeover family
    TkConnect0 { peer: u64 },
    /// aliases attached in the handshake connect hook within [s1, own seq]
    TkAlias { peer: u64, idx: usize, s1: u64, keys: Vec<String>, oks: Vec<bool> },
    /// registry view of `peer` (client `idx`) and of every key of its group, taken within [s1, own seq]
    TkSnap { site: &'static str, peer: u64, idx: usize, s1: u64, get: bool, list: Vec<String>, key_for: Option<String>, by: Vec<(String, Option<u64>)>, ctx_peer: Option<u64> },
    TkDisc0 { peer: u64 },
    TkDisc1 { peer: u64 },
    /// the driver is about to end this connection (client cause, token cancel or drain)
    TkEndApplied { peer: u64 },
    CancelCalled,
    ShutdownFired,
    ServeReturned,
    ConnServed { ok: bool },
    BystanderAlive { peer: u64 },
    Error { kind: &'static str },
}

struct Gate {
    st: Mutex<Option<u8>>,
    cv: Condvar,
}
impl Gate {
    fn new() -> Gate {
        Gate { st: Mutex::new(None), cv: Condvar::new() }
    }
    fn open(&self, action: u8) {
        let mut g = self.st.lock().unwrap_or_else(|e| e.into_inner());
        if g.is_none() {
            *g = Some(action);
        }
        self.cv.notify_all();
    }
    fn wait(&self, d: Duration) -> Option<u8> {
        let g = self.st.lock().unwrap_or_else(|e| e.into_inner());
        if g.is_some() {
            return *g;
        }
        let (g, _) = self.cv.wait_timeout(g, d).unwrap_or_else(|e| e.into_inner());
        *g
    }
}
impl Gate {
    fn peek(&self) -> Option<u8> {
        *self.st.lock().unwrap_or_else(|e| e.into_inner())
    }
}

/// Per-connection gates opened from inside the first disconnect hook (a mutex-protected set insert plus a
/// notify: nothing in it blocks).
struct PeerGates {
    st: Mutex<std::collections::HashSet<u64>>,
    cv: Condvar,
}
impl PeerGates {
    fn new() -> PeerGates {
        PeerGates { st: Mutex::new(Default::default()), cv: Condvar::new() }
    }
    fn open(&self, peer: u64) {
        self.st.lock().unwrap_or_else(|e| e.into_inner()).insert(peer);
        self.cv.notify_all();
    }
    /// true once `peer`'s gate was opened by its disconnect hook; false when `d` passed first.
    fn wait(&self, peer: u64, d: Duration) -> bool {
        let deadline = Instant::now() + d;
        let mut g = self.st.lock().unwrap_or_else(|e| e.into_inner());
        loop {
            if g.contains(&peer) {
                return true;
            }
            let now = Instant::now();
            if now >= deadline {
                return false;
            }
            g = self.cv.wait_timeout(g, deadline - now).unwrap_or_else(|e| e.into_inner()).0;
        }
    }
}

fn spin_for(d: Duration) {
    let t = Instant::now();
    while t.elapsed() < d {
        std::hint::spin_loop();
    }
}
const HOOK_SPIN: Duration = Duration::from_micros(1500);

const ACT_GO: u8 = 1;
const ACT_PANIC: u8 = 2;
const PARK_CAP: Duration = Duration::from_secs(50);
const WINDOW: Duration = Duration::from_secs(15);

/// Everything the server-side closures of one scenario share.
struct Scn {
    log: Mutex<Vec<(u64, Ev)>>,
    hgate: Gate,
    cgate: Gate,
    reg: PeerRegistry,
    /// which connect hook (0 = C0, 1 = C1, 2 = handshake hook) parks on `cgate`
    gate_pos: Option<u8>,
    /// which connect hook panics (after its gate, if it is also the gated one)
    panic_pos: Option<u8>,
    /// parked handlers return on their own once they see cancellation
    coop: bool,
    tok: AtomicU64,
    /// off-reader parked handlers first wait for their own connection's D0 to open their gate (see module doc)
    hook_release: bool,
    pg: PeerGates,
    /// identity-takeover plan (scripts per client), None in the ordinary table cells
    tk: Option<takeover::TkPlan>,
    /// rotates the length class of the long alias (peer ids restart at 0 in every scenario)
    salt: u64,
}

impl Scn {
    fn push(&self, ev: Ev) -> u64 {
        let mut g = self.log.lock().unwrap_or_else(|e| e.into_inner());
        let s = next_seq();
        g.push((s, ev));
        s
    }
    fn count(&self, f: impl Fn(&Ev) -> bool) -> usize {
        self.log.lock().unwrap_or_else(|e| e.into_inner()).iter().filter(|(_, e)| f(e)).count()
    }
    fn snapshot(&self) -> Vec<(u64, Ev)> {
        self.log.lock().unwrap_or_else(|e| e.into_inner()).clone()
    }
    /// A peer whose connect hooks ran and none of whose disconnect hooks has run yet.
    fn live_peer_other_than(&self, peer: u64) -> Option<u64> {
        let log = self.log.lock().unwrap_or_else(|e| e.into_inner());
        let mut live: Vec<u64> = vec![];
        for (_, e) in log.iter() {
            match e {
                Ev::Connect1 { peer: p, .. } if *p != peer => live.push(*p),
                Ev::Disc0 { peer: p, .. } | Ev::Disc1 { peer: p, .. } => live.retain(|x| x != p),
                _ => {}
            }
        }
        live.first().copied()
    }
    fn alias_a(peer: u64) -> String {
        format!("a-{peer}")
    }
    /// The second alias is token-like: from a few bytes to several KiB (lengths around powers of two), non-ASCII in part, and
    /// with the peer-specific text at the END, so keys of different peers share a long common prefix.
    fn alias_b(&self, peer: u64) -> String {
        const LENS: [usize; 10] = [0, 100, 255, 256, 1023, 1024, 1025, 4097, 20_000, 70_000];
        let n = LENS[((peer + self.salt) % 10) as usize];
        let mut k = String::with_capacity(n + 24);
        while k.len() < n {
            k.push(if peer % 3 == 0 && k.len() % 7 == 0 { 'é' } else { 'k' });
        }
        k.push_str(&format!("b-{peer}"));
        k
    }
    /// (get, get_by(a), get_by(b)) — "present" means the lookup returns *this* peer.
    fn probe(&self, peer: u64) -> (bool, bool, bool) {
        let g = self.reg.get(PeerId(peer)).map(|h| h.peer_id().0 == peer).unwrap_or(false);
        let a = self.reg.get_by(Self::alias_a(peer).as_str()).map(|h| h.peer_id().0 == peer).unwrap_or(false);
        let b = self.reg.get_by(self.alias_b(peer).as_str()).map(|h| h.peer_id().0 == peer).unwrap_or(false);
        (g, a, b)
    }
    fn probe_ev(&self, peer: u64, site: &'static str) {
        let s1 = next_seq();
        let (get, by_a, by_b) = self.probe(peer);
        self.push(Ev::Probe { peer, s1, get, by_a, by_b, site });
    }
    fn connect_stage(&self, peer: u64, pos: u8) {
        if self.gate_pos == Some(pos) {
            self.push(Ev::CGateEnter { peer });
            let start = Instant::now();
            let mut timeout = false;
            while self.cgate.wait(Duration::from_millis(20)).is_none() {
                if start.elapsed() > PARK_CAP {
                    timeout = true;
                    break;
                }
            }
            self.push(Ev::CGateExit { peer, timeout });
        }
        if self.panic_pos == Some(pos) {
            self.push(Ev::PanicNow { peer, site: "connect-callback" });
            panic!("c15 scripted connect-callback panic");
        }
    }
}

/// How long after `is_cancelled()` read true the already-polled `cancelled()` future may take to be woken.
const FUT_GRACE: Duration = Duration::from_secs(2);
struct WakeFlag(AtomicBool);
impl std::task::Wake for WakeFlag {
    fn wake(self: Arc<Self>) {
        self.0.store(true, Ordering::SeqCst);
    }
    fn wake_by_ref(self: &Arc<Self>) {
        self.0.store(true, Ordering::SeqCst);
    }
}

fn ctx_peer(ctx: &CallContext<'_>) -> u64 {
    ctx.peer().map(|p| p.peer_id().0).unwrap_or(u64::MAX)
}

fn park(sc: &Scn, ctx: &CallContext<'_>, off: bool) -> Result<Value, (ErrorCode, String)> {
    let peer = ctx_peer(ctx);
    let tok = sc.tok.fetch_add(1, Ordering::SeqCst);
    sc.probe_ev(peer, if off { "bpark-enter" } else { "park-enter" });
    sc.push(Ev::HEnter { peer, tok, off });
    let start = Instant::now();
    if off && sc.hook_release {
        // Parked on the per-connection gate: only this connection's first disconnect hook opens it. No polling of
        // is_cancelled() before that; the read below is the first thing done after the wake-up.
        let mut by_hook = false;
        loop {
            if sc.pg.wait(peer, Duration::from_millis(25)) {
                by_hook = true;
                break;
            }
            if sc.hgate.peek().is_some() || start.elapsed() > PARK_CAP {
                break;
            }
        }
        let cancelled = ctx.is_cancelled();
        sc.push(Ev::HHookRelease { peer, tok, by_hook, cancelled });
    }
    let (mut seen, mut action, mut timeout) = (false, None, false);
    // The future form of the same signal, the way a `select!` arm holds it: polled once NOW (before the connection ends) with a
    // waker of our own, and polled again only when that waker fired. It must be woken once the call is cancelled.
    let wf = Arc::new(WakeFlag(AtomicBool::new(false)));
    let waker = std::task::Waker::from(wf.clone());
    let mut fut = Box::pin(ctx.cancelled());
    let mut fut_done = matches!(fut.as_mut().poll(&mut std::task::Context::from_waker(&waker)), std::task::Poll::Ready(()));
    let mut fut_reported = fut_done;
    let mut seen_at: Option<Instant> = None;
    let hb0 = Instant::now();
    let mut worst_gap = Duration::ZERO;
    let mut last = hb0;
    loop {
        if let Some(a) = sc.hgate.wait(Duration::from_millis(3)) {
            action = Some(a);
            break;
        }
        worst_gap = worst_gap.max(last.elapsed());
        last = Instant::now();
        if !fut_done && wf.0.swap(false, Ordering::SeqCst) && matches!(fut.as_mut().poll(&mut std::task::Context::from_waker(&waker)), std::task::Poll::Ready(())) {
            fut_done = true;
        }
        if !seen && ctx.is_cancelled() {
            seen = true;
            seen_at = Some(Instant::now());
            sc.push(Ev::HCancelSeen { peer, tok });
        }
        if let Some(t0) = seen_at.filter(|_| !fut_reported) {
            if fut_done {
                fut_reported = true;
                sc.push(Ev::HFutureResolved { peer, tok, ms: t0.elapsed().as_millis() as u64 });
            } else if t0.elapsed() > FUT_GRACE {
                fut_reported = true;
                sc.push(Ev::HFutureStuck { peer, tok, stalled: worst_gap > Duration::from_millis(500) });
            }
        }
        if seen && sc.coop && fut_reported {
            break;
        }
        if start.elapsed() > PARK_CAP {
            timeout = true;
            break;
        }
    }
    let s1 = next_seq();
    let cancelled = ctx.is_cancelled();
    sc.push(Ev::HRelease { peer, tok, off, s1, cancelled, timeout });
    sc.probe_ev(peer, if off { "bpark-release" } else { "park-release" });
    if action == Some(ACT_PANIC) {
        sc.push(Ev::PanicNow { peer, site: "parked-inline-handler" });
        panic!("c15 scripted handler panic");
    }
    Ok(json!({ "tok": tok }))
}

fn flood(sc: &Scn, ctx: &CallContext<'_>) -> Result<Value, (ErrorCode, String)> {
    let peer = ctx_peer(ctx);
    let Some(h) = ctx.peer() else { return Ok(json!(null)) };
    let body = vec![b' '; 128 * 1024];
    let start = Instant::now();
    let (mut pushed, mut consec) = (0u64, 0u32);
    while consec < 4 && start.elapsed() < Duration::from_secs(12) {
        match h.send_notify("/flood", NotifyBody::Json(body.clone())) {
            Ok(()) => {
                pushed += 1;
                consec = 0;
            }
            Err(PeerSendError::Full) => {
                consec += 1;
                std::thread::sleep(Duration::from_millis(8));
            }
            Err(_) => break,
        }
    }
    if consec >= 4 {
        sc.push(Ev::QueueFull { peer, pushed });
    }
    Ok(json!(null))
}

fn build_server(sc: &Arc<Scn>, cap: usize) -> WebSocketServer {
    let router = Router::new()
        .with_json_ctx("/ping", {
            let sc = sc.clone();
            move |ctx: &CallContext<'_>, v: Value| {
                sc.probe_ev(ctx_peer(ctx), "ping");
                Ok(v)
            }
        })
        .with_json_ctx_blocking("/bping", {
            let sc = sc.clone();
            move |ctx: &CallContext<'_>, v: Value| {
                sc.probe_ev(ctx_peer(ctx), "bping");
                Ok(v)
            }
        })
        .with_json_ctx("/park", {
            let sc = sc.clone();
            move |ctx: &CallContext<'_>, _v: Value| park(&sc, ctx, false)
        })
        .with_json_ctx_blocking("/bpark", {
            let sc = sc.clone();
            move |ctx: &CallContext<'_>, _v: Value| park(&sc, ctx, true)
        })
        .with_json_ctx("/panic", {
            let sc = sc.clone();
            move |ctx: &CallContext<'_>, _v: Value| -> Result<Value, (ErrorCode, String)> {
                sc.push(Ev::PanicNow { peer: ctx_peer(ctx), site: "inline-handler" });
                panic!("c15 scripted handler panic");
            }
        })
        .with_json_ctx_blocking("/flood", {
            let sc = sc.clone();
            move |ctx: &CallContext<'_>, _v: Value| flood(&sc, ctx)
        });
    let (s0, sd0, s1, sx, sd1, se) = (sc.clone(), sc.clone(), sc.clone(), sc.clone(), sc.clone(), sc.clone());
    WebSocketServer::new(router)
        .with_outbound_capacity(cap)
        .on_peer_connect(move |peer: PeerHandle| {
            let p = peer.peer_id().0;
            s0.push(Ev::Connect0 { peer: p });
            s0.connect_stage(p, 0);
        })
        .on_peer_disconnect(move |id: PeerId| {
            if sd0.hook_release {
                sd0.pg.open(id.0);
            }
            let (get, by_a, by_b) = sd0.probe(id.0);
            sd0.push(Ev::Disc0 { peer: id.0, get, by_a, by_b });
        })
        .with_peer_registry(sc.reg.clone())
        .on_peer_connect(move |peer: PeerHandle| {
            let p = peer.peer_id().0;
            let ok_a = s1.reg.alias(peer.peer_id(), Scn::alias_a(p));
            let ok_b = s1.reg.alias(peer.peer_id(), s1.alias_b(p));
            let (get, by_a, by_b) = s1.probe(p);
            let hello_ok = peer.send_notify("/hello1", NotifyBody::Json(serde_json::to_vec(&json!({ "peer": p })).unwrap())).is_ok();
            s1.push(Ev::Connect1 { peer: p, alias_ok: ok_a && ok_b, hello_ok, get, by_a, by_b });
            s1.connect_stage(p, 1);
        })
        .on_peer_connect_with_handshake(move |peer: &PeerHandle, hs: &HandshakeContext| {
            let p = peer.peer_id().0;
            let client = hs.query().and_then(|q| q.strip_prefix("c=")).and_then(|s| s.parse::<i64>().ok()).unwrap_or(-1);
            sx.reg.alias(peer.peer_id(), format!("c-{client}"));
            let hello_ok = peer.send_notify("/hello2", NotifyBody::Json(serde_json::to_vec(&json!({ "peer": p })).unwrap())).is_ok();
            sx.push(Ev::ConnectCtx { peer: p, hello_ok, client });
            sx.connect_stage(p, 2);
        })
        .on_peer_disconnect(move |id: PeerId| {
            let (get, by_a, by_b) = sd1.probe(id.0);
            let n_alias = sd1.reg.aliases_for(id).len();
            sd1.push(Ev::Disc1 { peer: id.0, get, by_a, by_b, n_alias });
            // a LATE alias for the connection that is gone (an out-of-band lookup that finished too late), under a key a
            // still-connected peer holds: it is refused, and being refused it must not cost that peer its alias
            if let Some(victim) = sd1.live_peer_other_than(id.0) {
                let accepted = sd1.reg.alias(id, Scn::alias_a(victim));
                sd1.push(Ev::LateAlias { peer: id.0, victim, accepted });
            }
            if sd1.hook_release {
                spin_for(HOOK_SPIN);
            }
        })
        .on_error(move |e: &ConnectionError| {
            se.push(Ev::Error { kind: error_kind(e) });
        })
}

fn error_kind(e: &ConnectionError) -> &'static str {
    match e {
        ConnectionError::Handshake(_) => "handshake",
        ConnectionError::Connection(_) => "connection",
        ConnectionError::HandlerPanic { .. } => "handler-panic",
        ConnectionError::Saturation { .. } => "saturation",
        ConnectionError::OutboundTooLarge { .. } => "outbound-too-large",
        _ => "other",
    }
}

// ------------------------------------------------------------------ serving entry points

struct Running {
    addr: SocketAddr,
    task: tokio::task::JoinHandle<()>,
    shutdown_tx: Option<oneshot::Sender<()>>,
    token: Option<ShutdownToken>,
}

/// Minimal hand-written HTTP upgrade, the way an HTTP framework's WebSocket route answers it.
async fn hand_upgrade(mut stream: TcpStream) -> std::io::Result<(TcpStream, http::Request<()>, Vec<u8>)> {
    let mut buf = Vec::with_capacity(1024);
    let end = loop {
        if let Some(i) = buf.windows(4).position(|w| w == b"\r\n\r\n") {
            break i + 4;
        }
        if buf.len() > 16 * 1024 {
            return Err(std::io::Error::other("request head too large"));
        }
        let mut chunk = [0u8; 1024];
        let n = stream.read(&mut chunk).await?;
        if n == 0 {
            return Err(std::io::Error::other("closed during the upgrade request"));
        }
        buf.extend_from_slice(&chunk[..n]);
    };
    let leftover = buf[end..].to_vec();
    let head = String::from_utf8_lossy(&buf[..end]).to_string();
    let mut lines = head.split("\r\n");
    let request_line = lines.next().unwrap_or("");
    let mut parts = request_line.split_whitespace();
    let (method, target) = (parts.next().unwrap_or(""), parts.next().unwrap_or(""));
    if method != "GET" || !target.starts_with("/repe") {
        let _ = stream.write_all(b"HTTP/1.1 404 Not Found\r\nContent-Length: 0\r\n\r\n").await;
        return Err(std::io::Error::other("not the repe route"));
    }
    let mut builder = http::Request::builder().method("GET").uri(target);
    let (mut key, mut upgrade) = (String::new(), false);
    for line in lines {
        let Some((name, value)) = line.split_once(':') else { continue };
        let value = value.trim();
        if name.eq_ignore_ascii_case("sec-websocket-key") {
            key = value.to_owned();
        }
        if name.eq_ignore_ascii_case("upgrade") && value.eq_ignore_ascii_case("websocket") {
            upgrade = true;
        }
        builder = builder.header(name, value);
    }
    if key.is_empty() || !upgrade {
        let _ = stream.write_all(b"HTTP/1.1 400 Bad Request\r\nContent-Length: 0\r\n\r\n").await;
        return Err(std::io::Error::other("not a websocket upgrade"));
    }
    let request = builder.body(()).map_err(|e| std::io::Error::other(e.to_string()))?;
    let accept = derive_accept_key(key.as_bytes());
    stream
        .write_all(format!("HTTP/1.1 101 Switching Protocols\r\nUpgrade: websocket\r\nConnection: Upgrade\r\nSec-WebSocket-Accept: {accept}\r\n\r\n").as_bytes())
        .await?;
    Ok((stream, request, leftover))
}

/// Start the scenario's server on the *server* runtime (this future must be spawned there).
async fn start_server(sc: Arc<Scn>, server: WebSocketServer, entry: Entry, with_ctx: bool, drain_timeout: Duration, variant: u64, need_token: bool) -> Result<Running, String> {
    let listener = TcpListener::bind("127.0.0.1:0").await.map_err(|e| format!("bind: {e}"))?;
    let addr = listener.local_addr().map_err(|e| format!("local_addr: {e}"))?;
    match entry {
        Entry::ServeListener => {
            let task = tokio::spawn(async move {
                let _ = server.serve_listener(listener, "/repe").await;
            });
            Ok(Running { addr, task, shutdown_tx: None, token: None })
        }
        Entry::DrainListener => {
            let (tx, rx) = oneshot::channel::<()>();
            let sc2 = sc.clone();
            let task = tokio::spawn(async move {
                let _ = server
                    .serve_listener_with_graceful_drain(
                        listener,
                        "repe/",
                        async move {
                            let _ = rx.await;
                        },
                        drain_timeout,
                    )
                    .await;
                sc2.push(Ev::ServeReturned);
            });
            Ok(Running { addr, task, shutdown_tx: Some(tx), token: None })
        }
        Entry::AcceptServe | Entry::AcceptServeCancel | Entry::Adopt => {
            let shared: SharedWebSocketServer = server.into_shared();
            let token = ShutdownToken::new();
            let tok2 = token.clone();
            let task = tokio::spawn(async move {
                loop {
                    let Ok((stream, _)) = listener.accept().await else { break };
                    let (shared, token, sc) = (shared.clone(), tok2.clone(), sc.clone());
                    tokio::spawn(async move {
                        let r = match entry {
                            Entry::AcceptServe => {
                                if with_ctx {
                                    match shared.accept_with_handshake(stream, "/repe").await {
                                        Ok((ws, hs)) => shared.serve_connection_with_handshake(ws, hs).await,
                                        Err(_) => {
                                            sc.push(Ev::Error { kind: "handshake" });
                                            return;
                                        }
                                    }
                                } else {
                                    match WebSocketServer::accept(stream, "/repe/").await {
                                        Ok(ws) => shared.serve_connection(ws).await,
                                        Err(_) => {
                                            sc.push(Ev::Error { kind: "handshake" });
                                            return;
                                        }
                                    }
                                }
                            }
                            Entry::AcceptServeCancel => {
                                if with_ctx {
                                    match WebSocketServer::accept_with_handshake(stream, "repe").await {
                                        Ok((ws, hs)) => shared.serve_connection_with_cancel_and_handshake(ws, hs, &token).await,
                                        Err(_) => {
                                            sc.push(Ev::Error { kind: "handshake" });
                                            return;
                                        }
                                    }
                                } else {
                                    match shared.accept(stream, "/repe").await {
                                        Ok(ws) => shared.serve_connection_with_cancel(ws, &token).await,
                                        Err(_) => {
                                            sc.push(Ev::Error { kind: "handshake" });
                                            return;
                                        }
                                    }
                                }
                            }
                            _ => {
                                let Ok((stream, request, leftover)) = hand_upgrade(stream).await else {
                                    sc.push(Ev::Error { kind: "handshake" });
                                    return;
                                };
                                let ws = if !leftover.is_empty() || variant & 1 == 1 {
                                    shared.adopt_upgraded_partially_read(stream, leftover).await
                                } else {
                                    shared.adopt_upgraded(stream).await
                                };
                                if with_ctx {
                                    let hs = HandshakeContext::from_http_request(&request);
                                    shared.serve_connection_with_cancel_and_handshake(ws, hs, &token).await
                                } else if variant & 2 == 2 && !need_token {
                                    shared.serve_connection(ws).await
                                } else {
                                    shared.serve_connection_with_cancel(ws, &token).await
                                }
                            }
                        };
                        sc.push(Ev::ConnServed { ok: r.is_ok() });
                    });
                }
            });
            // a plain serve_connection under Adopt is not tied to the token
            let token_effective = !(entry == Entry::Adopt && !with_ctx && variant & 2 == 2 && !need_token) && entry != Entry::AcceptServe;
            Ok(Running { addr, task, shutdown_tx: None, token: token_effective.then_some(token) })
        }
    }
}

// ------------------------------------------------------------------ raw client

#[derive(Clone, Debug)]
struct Seen {
    notify: bool,
    id: u64,
    ec: u32,
    path: String,
    peer: Option<u64>,
}

struct Cli {
    idx: usize,
    ws: Option<WebSocketStream<TcpStream>>,
    frames: Vec<Seen>,
    unparsable: u64,
    handshake_ok: bool,
    bystander: bool,
    /// frames up to and including the first response were read
    got_first_response: bool,
    note: Option<String>,
}

fn req(path: &str, id: u64, notify: bool, body: &Value) -> Vec<u8> {
    let h = SpecHeader { spec: SPEC, version: 1, notify: notify as u8, id, query_format: 1, body_format: 2, ..Default::default() };
    frame(h, path.as_bytes(), serde_json::to_vec(body).unwrap().as_slice())
}

async fn connect_client(addr: SocketAddr, idx: usize, path: &str, small_rcvbuf: bool) -> Result<WebSocketStream<TcpStream>, String> {
    let sock = TcpSocket::new_v4().map_err(|e| format!("socket: {e}"))?;
    if small_rcvbuf {
        let _ = sock.set_recv_buffer_size(8 * 1024);
    }
    let stream = tokio::time::timeout(Duration::from_secs(10), sock.connect(addr)).await.map_err(|_| "tcp connect timeout".to_string())?.map_err(|e| format!("tcp connect: {e}"))?;
    let _ = stream.set_nodelay(true);
    let url = format!("ws://{addr}{path}?c={idx}");
    let (ws, _resp) = tokio::time::timeout(Duration::from_secs(10), tokio_tungstenite::client_async(url, stream)).await.map_err(|_| "ws handshake timeout".to_string())?.map_err(|e| format!("ws handshake: {e}"))?;
    Ok(ws)
}

impl Cli {
    async fn send_bin(&mut self, bytes: Vec<u8>) -> bool {
        match self.ws.as_mut() {
            Some(ws) => matches!(tokio::time::timeout(Duration::from_secs(5), ws.send(Ws::Binary(bytes))).await, Ok(Ok(()))),
            None => false,
        }
    }
    /// Read frames until the response with `id` (Ok), the connection ends or `window` passes (Err).
    async fn read_until_response(&mut self, id: u64, window: Duration) -> Result<(), String> {
        let deadline = tokio::time::Instant::now() + window;
        let Some(ws) = self.ws.as_mut() else { return Err("no socket".into()) };
        loop {
            let m = match tokio::time::timeout_at(deadline, ws.next()).await {
                Err(_) => return Err("timeout".into()),
                Ok(None) => return Err("closed".into()),
                Ok(Some(Err(e))) => return Err(format!("error: {e}")),
                Ok(Some(Ok(m))) => m,
            };
            match m {
                Ws::Binary(b) => match valid_parse(&b, true) {
                    Some((h, ql, _)) => {
                        let path = String::from_utf8_lossy(&b[48..48 + ql]).to_string();
                        let peer = if h.notify != 0 { serde_json::from_slice::<Value>(&b[48 + ql..]).ok().and_then(|v| v["peer"].as_u64()) } else { None };
                        self.frames.push(Seen { notify: h.notify != 0, id: h.id, ec: h.ec, path, peer });
                        if h.notify == 0 && h.id == id {
                            return Ok(());
                        }
                    }
                    None => self.unparsable += 1,
                },
                Ws::Close(_) => return Err("close frame".into()),
                _ => {}
            }
        }
    }
    /// Drain until the server closes, bounded; used after cancel causes and a clean Close.
    async fn drain_until_closed(&mut self, window: Duration) {
        let deadline = tokio::time::Instant::now() + window;
        if let Some(ws) = self.ws.as_mut() {
            while let Ok(Some(Ok(_))) = tokio::time::timeout_at(deadline, ws.next()).await {}
        }
    }
    fn peer(&self) -> Option<u64> {
        self.frames.iter().find_map(|f| f.peer)
    }
}

fn set_linger0(s: &TcpStream) {
    use std::os::fd::AsRawFd;
    let l = libc::linger { l_onoff: 1, l_linger: 0 };
    unsafe {
        libc::setsockopt(s.as_raw_fd(), libc::SOL_SOCKET, libc::SO_LINGER, &l as *const _ as *const libc::c_void, std::mem::size_of::<libc::linger>() as libc::socklen_t);
    }
}

fn corrupt_ws_bytes(r: &mut Rng) -> (u64, Vec<u8>) {
    let v = r.below(8);
    let m = [r.next_u64() as u8, 3, 5, 7];
    let bytes = match v {
        0 => vec![0x83, 0x82, m[0], m[1], m[2], m[3], 1, 2],                // reserved opcode 3
        1 => vec![0xC2, 0x81, m[0], m[1], m[2], m[3], 9],                   // RSV1 without extension
        2 => vec![0x82, 0x03, 1, 2, 3],                                     // unmasked client frame
        3 => {
            let mut b = vec![0x89, 0xFE, 0x00, 0x7E, m[0], m[1], m[2], m[3]]; // 126-byte ping
            b.extend(std::iter::repeat_n(0u8, 126));
            b
        }
        4 => vec![0x09, 0x80, m[0], m[1], m[2], m[3]],                      // fragmented control frame
        5 => vec![0x80, 0x81, m[0], m[1], m[2], m[3], 1],                   // continuation without a start
        6 => {
            let mut b = r.bytes(64);
            b[0] = 0xF0 | (b[0] & 0x0f);
            b[1] = 0x85; // masked, 5 payload bytes: the frame is complete, so the parser must judge it
            b
        }
        _ => vec![0x82, 0xFF, 0x7F, 0xFF, 0xFF, 0xFF, 0xFF, 0xFF, 0xFF, 0xFF, m[0], m[1], m[2], m[3]], // 2^63-1 byte frame
    };
    (v, bytes)
}

fn malformed_repe_bytes(r: &mut Rng) -> (u64, Vec<u8>) {
    let v = r.below(6);
    let good = req("/ping", 77, false, &json!({}));
    let bytes = match v {
        0 => vec![],
        1 => r.bytes(10),
        2 => {
            let mut b = good.clone();
            b[8] ^= 0xff; // magic
            b
        }
        3 => {
            let mut b = good.clone();
            b[0] = b[0].wrapping_add(1); // length disagrees
            b
        }
        4 => {
            let mut b = good.clone();
            b.truncate(b.len() - 1); // short body
            b
        }
        _ => {
            let mut b = good.clone();
            b.extend_from_slice(b"trailing"); // extra bytes after the frame
            b
        }
    };
    (v, bytes)
}

async fn apply_client_cause(c: &mut Cli, cause: Cause, seed: u64) -> u64 {
    let mut r = Rng::new(seed);
    match cause {
        Cause::Close => {
            if let Some(ws) = c.ws.as_mut() {
                let _ = tokio::time::timeout(Duration::from_secs(5), ws.close(None)).await;
            }
            0
        }
        Cause::TcpDrop => {
            c.ws = None;
            0
        }
        Cause::Rst => {
            if let Some(ws) = c.ws.as_mut() {
                set_linger0(ws.get_mut());
            }
            c.ws = None;
            0
        }
        Cause::Text => {
            if let Some(ws) = c.ws.as_mut() {
                let _ = tokio::time::timeout(Duration::from_secs(5), ws.send(Ws::Text("not a binary message".into()))).await;
            }
            0
        }
        Cause::CorruptWs => {
            let (v, bytes) = corrupt_ws_bytes(&mut r);
            if let Some(ws) = c.ws.as_mut() {
                let s = ws.get_mut();
                let _ = tokio::time::timeout(Duration::from_secs(5), s.write_all(&bytes)).await;
                let _ = s.flush().await;
            }
            v
        }
        Cause::MalformedRepe => {
            let (v, bytes) = malformed_repe_bytes(&mut r);
            c.send_bin(bytes).await;
            v
        }
        Cause::InlinePanic => {
            let notify = r.coin();
            c.send_bin(req("/panic", 9, notify, &json!({}))).await;
            notify as u64
        }
        _ => 0,
    }
}

async fn bad_handshake(addr: SocketAddr, kind: BadHs, seed: u64) -> bool {
    let mut r = Rng::new(seed);
    match kind {
        BadHs::WrongPath => connect_client(addr, 999, "/nope", false).await.is_err(),
        other => {
            let Ok(Ok(mut s)) = tokio::time::timeout(Duration::from_secs(10), TcpStream::connect(addr)).await else { return false };
            let payload: Vec<u8> = match other {
                BadHs::Garbage => {
                    let mut b = r.bytes(200);
                    b.extend_from_slice(b"\r\n\r\n");
                    b
                }
                BadHs::EarlyClose => vec![],
                BadHs::PartialRequest => b"GET /repe HTTP/1.1\r\nHost: x\r\nUpgrade: websocket\r\nConnection: Upg".to_vec(),
                _ => b"GET /repe HTTP/1.1\r\nHost: x\r\n\r\n".to_vec(),
            };
            if !payload.is_empty() {
                let _ = s.write_all(&payload).await;
                let _ = s.flush().await;
            }
            if matches!(other, BadHs::Garbage | BadHs::NoUpgrade) {
                // give the server the chance to answer (400) before closing
                let mut buf = [0u8; 512];
                let _ = tokio::time::timeout(Duration::from_millis(500), s.read(&mut buf)).await;
            }
            drop(s);
            true
        }
    }
}

// ------------------------------------------------------------------ scenario

#[derive(Clone, Debug, Hash, PartialEq, Eq)]
enum Kind {
    Cell(Cause, Phase),
    Bad(BadHs),
    Takeover(TkShape),
}

#[derive(Clone, Copy, Debug, PartialEq, Eq, Hash, PartialOrd, Ord)]
enum TkShape {
    Pair,
    Triple,
}

#[path = "c15_takeover.rs"]
mod takeover;

#[derive(Clone, Debug)]
struct Spec {
    kind: Kind,
    entry: Entry,
    conns: usize,
    seed: u64,
}

struct Env {
    srv: tokio::runtime::Handle,
    block_budget: Arc<Semaphore>,
    /// scenarios in which a property-relevant bounded wait expired (each costs a full window)
    expired: AtomicU64,
}

struct Out {
    spec: Spec,
    cfg: Value,
    sc: Arc<Scn>,
    clients: Vec<CliRec>,
    expected_hellos: Vec<&'static str>,
    n_ok: usize,
    /// connections made after the embedder's token was cancelled
    late_ok: usize,
    bad_attempts: usize,
    failed_waits: Vec<&'static str>,
    harness_err: Option<String>,
    final_len: usize,
    final_alias_c: usize,
    token_attached: bool,
    wall_ms: u64,
    tolerated_frame_cause: bool,
}

struct CliRec {
    idx: usize,
    frames: Vec<Seen>,
    unparsable: u64,
    handshake_ok: bool,
    bystander: bool,
    got_first_response: bool,
    note: Option<String>,
}

/// The full bounded-progress window, or a short one once a property-relevant wait of this scenario has already
/// expired (the verdict is already decided; do not spend another window on it).
fn window(out: &Out) -> Duration {
    if out.failed_waits.iter().any(|w| !w.starts_with("setup:") && !w.starts_with("bad-handshake:")) { Duration::from_secs(1) } else { WINDOW }
}

/// Record an expired wait; the first property-relevant one of a scenario is counted globally right away so the
/// driver can stop starting scenarios once the verdict is decided anyway.
fn fail(out: &mut Out, env: &Env, what: &'static str) {
    let relevant = |w: &str| !w.starts_with("setup:") && !w.starts_with("bad-handshake:");
    if relevant(what) && !out.failed_waits.iter().any(|w| relevant(w)) {
        env.expired.fetch_add(1, Ordering::Relaxed);
    }
    out.failed_waits.push(what);
}

async fn wait_until(window: Duration, mut f: impl FnMut() -> bool) -> bool {
    let deadline = Instant::now() + window;
    loop {
        if f() {
            return true;
        }
        if Instant::now() > deadline {
            return false;
        }
        tokio::time::sleep(Duration::from_millis(3)).await;
    }
}

fn all_disconnected(sc: &Scn) -> bool {
    let log = sc.log.lock().unwrap_or_else(|e| e.into_inner());
    let mut st: HashMap<u64, bool> = HashMap::new();
    for (_, e) in log.iter() {
        match e {
            Ev::Connect0 { peer } => {
                st.entry(*peer).or_insert(false);
            }
            Ev::Disc1 { peer, .. } => {
                st.insert(*peer, true);
            }
            _ => {}
        }
    }
    st.values().all(|d| *d)
}

fn main_disconnected(sc: &Scn, exclude: &[u64]) -> bool {
    let log = sc.log.lock().unwrap_or_else(|e| e.into_inner());
    let mut st: HashMap<u64, bool> = HashMap::new();
    for (_, e) in log.iter() {
        match e {
            Ev::Connect0 { peer } if !exclude.contains(peer) => {
                st.entry(*peer).or_insert(false);
            }
            Ev::Disc1 { peer, .. } if !exclude.contains(peer) => {
                st.insert(*peer, true);
            }
            _ => {}
        }
    }
    st.values().all(|d| *d)
}

async fn run_scenario(spec: Spec, env: Arc<Env>) -> Out {
    let t0 = Instant::now();
    let mut out = match spec.kind {
        Kind::Takeover(_) => takeover::run(spec, env.clone()).await,
        _ => run_scenario_inner(spec, env.clone()).await,
    };
    out.wall_ms = t0.elapsed().as_millis() as u64;
    out
}

async fn run_scenario_inner(spec: Spec, env: Arc<Env>) -> Out {
    let mut r = Rng::new(spec.seed);
    let (cause, phase) = match &spec.kind {
        Kind::Cell(c, p) => (Some(*c), *p),
        Kind::Bad(_) | Kind::Takeover(_) => (None, Phase::Idle),
    };
    let entry = spec.entry;
    let n = spec.conns;
    // --- derived configuration (all from the seed)
    let with_ctx = match entry {
        Entry::ServeListener | Entry::DrainListener => true,
        _ => r.coin(),
    };
    let variant = r.below(4);
    let connect_panic = cause == Some(Cause::ConnectPanic);
    let hooks_avail: &[u8] = if with_ctx { &[0, 1, 2] } else { &[0, 1] };
    let panic_pos = connect_panic.then(|| *r.pick(hooks_avail));
    // brief connect gate: hold every connection inside C1 until the client's first request is already
    // in the socket, so reader start and writer start race as hard as possible
    let brief_gate = !connect_panic && matches!(phase, Phase::Idle | Phase::Inline | Phase::OffReader) && cause.is_some() && r.chance(1, 3);
    let gate_pos = if connect_panic {
        (phase == Phase::ConnectCb).then_some(panic_pos.unwrap())
    } else if phase == Phase::ConnectCb {
        Some(*r.pick(hooks_avail))
    } else if brief_gate {
        Some(1)
    } else {
        None
    };
    let coop = match cause {
        Some(Cause::GracefulDrain) => true,
        Some(Cause::DrainAbort) => false,
        _ => r.coin(),
    };
    let cap = if phase == Phase::QueueFull { *r.pick(&[2usize, 3, 4, 8]) } else { *r.pick(&[2usize, 4, 16, 256]) };
    let drain_timeout = match cause {
        Some(Cause::DrainAbort) => Duration::from_millis(150),
        Some(Cause::GracefulDrain) => Duration::from_secs(20),
        _ => Duration::from_secs(2),
    };
    let wedge_reader = phase == Phase::QueueFull && r.chance(1, 4);
    let bystanders = if cause.map(is_client_cause).unwrap_or(false) && phase != Phase::ConnectCb && gate_pos.is_none() { r.usize_below(3) } else { 0 };
    let extra_bad = if entry != Entry::Adopt && cause.is_some() && r.chance(1, 3) { 1 + r.usize_below(2) } else { 0 };
    let blocks = gate_pos.is_some() || phase == Phase::Inline;
    // drawn from its own stream so the rest of the derived configuration is unchanged
    let hook_release = phase == Phase::OffReader && cause.is_some() && Rng::new(spec.seed ^ 0x0D15_C0DE).chance(3, 4);

    let sc = Arc::new(Scn {
        salt: spec.seed >> 7,
        log: Mutex::new(Vec::new()),
        hgate: Gate::new(),
        cgate: Gate::new(),
        reg: PeerRegistry::new(),
        gate_pos,
        panic_pos,
        coop,
        tok: AtomicU64::new(1),
        hook_release,
        pg: PeerGates::new(),
        tk: None,
    });
    let cfg = json!({
        "with_handshake_hook": with_ctx, "variant": variant, "panic_pos": panic_pos, "gate_pos": gate_pos, "coop": coop, "hook_release": hook_release,
        "outbound_capacity": cap, "wedge_reader": wedge_reader, "bystanders": bystanders, "extra_bad_handshakes": extra_bad,
    });
    let mut out = Out {
        spec: spec.clone(),
        cfg,
        sc: sc.clone(),
        clients: vec![],
        expected_hellos: if with_ctx { vec!["/hello1", "/hello2"] } else { vec!["/hello1"] },
        n_ok: 0,
        late_ok: 0,
        bad_attempts: 0,
        failed_waits: vec![],
        harness_err: None,
        final_len: 0,
        final_alias_c: 0,
        token_attached: false,
        wall_ms: 0,
        tolerated_frame_cause: false,
    };

    // workers that will be blocked inside callbacks/inline handlers are budgeted globally
    let _permit = if blocks {
        match env.block_budget.clone().acquire_many_owned((n + 1) as u32).await {
            Ok(p) => Some(p),
            Err(_) => None,
        }
    } else {
        None
    };

    let running = match env.srv.spawn(start_server(sc.clone(), build_server(&sc, cap), entry, with_ctx, drain_timeout, variant, cause == Some(Cause::TokenCancel))).await {
        Ok(Ok(rn)) => rn,
        Ok(Err(e)) => {
            out.harness_err = Some(e);
            return out;
        }
        Err(e) => {
            out.harness_err = Some(format!("server start task: {e}"));
            return out;
        }
    };
    let Running { addr, task: serve_task, mut shutdown_tx, token } = running;
    out.token_attached = token.is_some();

    // --- connect all clients concurrently
    let total = n + bystanders;
    let small = phase == Phase::QueueFull;
    let conns = join_all((0..total).map(|i| connect_client(addr, i, "/repe", small && i < n))).await;
    let mut clients: Vec<Cli> = conns
        .into_iter()
        .enumerate()
        .map(|(i, c)| {
            let (ws, note) = match c {
                Ok(ws) => (Some(ws), None),
                Err(e) => (None, Some(e)),
            };
            Cli { idx: i, handshake_ok: ws.is_some(), ws, frames: vec![], unparsable: 0, bystander: i >= n, got_first_response: false, note }
        })
        .collect();
    out.n_ok = clients.iter().filter(|c| c.handshake_ok).count();
    if out.n_ok != total {
        out.harness_err = Some(format!("only {} of {total} client handshakes succeeded: {:?}", out.n_ok, clients.iter().find_map(|c| c.note.clone())));
    }
    let reads = !connect_panic && !matches!(phase, Phase::QueueFull | Phase::ConnectCb);

    // --- phase setup
    if out.harness_err.is_none() {
        let reads_all = reads || matches!(spec.kind, Kind::Bad(_));
        if reads_all || bystanders > 0 {
            // first request pipelined right behind the handshake; mix inline and off-reader first responders
            join_all(clients.iter_mut().filter(|c| reads_all || c.bystander).map(|c| async move {
                let path = if c.idx % 3 == 2 { "/bping" } else { "/ping" };
                c.send_bin(req(path, 1, false, &json!({ "c": c.idx }))).await;
            }))
            .await;
            if brief_gate {
                if !wait_until(WINDOW, || sc.count(|e| matches!(e, Ev::CGateEnter { .. })) >= total).await {
                    fail(&mut out, &env, "setup:connect-gate-enter");
                }
                for p in 0..total as u64 {
                    sc.probe_ev(p, "driver-during-connect");
                }
                sc.cgate.open(ACT_GO);
            }
            join_all(clients.iter_mut().filter(|c| reads_all || c.bystander).map(|c| async move {
                match c.read_until_response(1, WINDOW).await {
                    Ok(()) => c.got_first_response = true,
                    Err(e) => c.note = Some(format!("first response: {e}")),
                }
            }))
            .await;
            if clients.iter().any(|c| (reads_all || c.bystander) && !c.got_first_response) {
                fail(&mut out, &env, "setup:first-response");
            }
        }
        match phase {
            Phase::Inline | Phase::OffReader if !connect_panic => {
                let path = if phase == Phase::Inline { "/park" } else { "/bpark" };
                join_all(clients.iter_mut().filter(|c| !c.bystander).map(|c| async move {
                    let notify = c.idx % 2 == 1;
                    c.send_bin(req(path, 2, notify, &json!({}))).await;
                }))
                .await;
                if !wait_until(WINDOW, || sc.count(|e| matches!(e, Ev::HEnter { .. })) >= n).await {
                    fail(&mut out, &env, "setup:handler-parked");
                }
            }
            Phase::QueueFull => {
                join_all(clients.iter_mut().filter(|c| !c.bystander).map(|c| async move {
                    c.send_bin(req("/flood", 2, true, &json!({}))).await;
                }))
                .await;
                if !wait_until(WINDOW, || sc.count(|e| matches!(e, Ev::QueueFull { .. })) >= n).await {
                    fail(&mut out, &env, "setup:queue-full");
                }
                if wedge_reader {
                    // a response the reader cannot queue: the reader itself is now parked on the full channel
                    join_all(clients.iter_mut().filter(|c| !c.bystander).map(|c| async move {
                        c.send_bin(req("/ping", 3, false, &json!({}))).await;
                    }))
                    .await;
                    let _ = wait_until(Duration::from_secs(5), || sc.count(|e| matches!(e, Ev::Probe { site: "ping", .. })) >= n).await;
                }
            }
            Phase::ConnectCb if gate_pos.is_some() => {
                if !wait_until(WINDOW, || sc.count(|e| matches!(e, Ev::CGateEnter { .. })) >= n).await {
                    fail(&mut out, &env, "setup:connect-gate-enter");
                }
                for p in 0..n as u64 {
                    sc.probe_ev(p, "driver-during-connect");
                }
            }
            _ => {}
        }
        // every connection's connect hook has been seen before the exit cause is applied
        if !wait_until(WINDOW, || sc.count(|e| matches!(e, Ev::Connect0 { .. })) >= total).await {
            fail(&mut out, &env, "setup:connect-callback");
        }
    }

    // --- failed handshakes against the same server while the good connections are in phase
    if out.harness_err.is_none() {
        let kinds: Vec<BadHs> = match &spec.kind {
            Kind::Bad(k) => vec![*k; 3 + r.usize_below(6)],
            _ => (0..extra_bad).map(|_| *r.pick(&BAD_HS)).collect(),
        };
        if !kinds.is_empty() {
            let before = sc.count(|e| matches!(e, Ev::Error { kind: "handshake" }));
            let seeds: Vec<u64> = kinds.iter().map(|_| r.next_u64()).collect();
            let done = join_all(kinds.iter().zip(seeds).map(|(k, s)| bad_handshake(addr, *k, s))).await;
            out.bad_attempts = done.iter().filter(|d| **d).count();
            let want = before + out.bad_attempts;
            // the server reports each failed handshake; wait for that so "no callback" is judged after the fact
            if !wait_until(Duration::from_secs(10), || sc.count(|e| matches!(e, Ev::Error { kind: "handshake" })) >= want).await {
                fail(&mut out, &env, "bad-handshake:server-report");
            }
        }
    }

    // --- the exit cause
    let peers_of_bystanders: Vec<u64> = clients.iter().filter(|c| c.bystander).filter_map(|c| c.peer()).collect();
    let mut serve_returned_expected = false;
    if out.harness_err.is_none() {
        match cause {
            None => {
                // failed-handshake scenario: the good connections must still be alive, then close cleanly
                join_all(clients.iter_mut().map(|c| async move {
                    c.send_bin(req("/ping", 5, false, &json!({}))).await;
                    if c.read_until_response(5, WINDOW).await.is_ok() {
                        if let Some(p) = c.peer() {
                            return Some(p);
                        }
                    }
                    None
                }))
                .await
                .into_iter()
                .flatten()
                .for_each(|p| {
                    sc.push(Ev::BystanderAlive { peer: p });
                });
                join_all(clients.iter_mut().map(|c| async move {
                    apply_client_cause(c, Cause::Close, 0).await;
                    c.drain_until_closed(Duration::from_secs(3)).await;
                    c.ws = None;
                }))
                .await;
            }
            Some(c) if is_client_cause(c) => {
                if !(c == Cause::InlinePanic && phase == Phase::Inline) {
                    let seeds: Vec<u64> = (0..total).map(|_| r.next_u64()).collect();
                    join_all(clients.iter_mut().filter(|cl| !cl.bystander).map(|cl| {
                        let s = seeds[cl.idx];
                        async move {
                            apply_client_cause(cl, c, s).await;
                        }
                    }))
                    .await;
                }
                match phase {
                    Phase::Inline => sc.hgate.open(if c == Cause::InlinePanic { ACT_PANIC } else { ACT_GO }),
                    Phase::ConnectCb => sc.cgate.open(ACT_GO),
                    Phase::OffReader => {
                        // the disconnect must not wait for the parked handler
                        let first = if is_frame_cause(c) { Duration::from_secs(3) } else { WINDOW };
                        if !wait_until(first, || main_disconnected(&sc, &peers_of_bystanders)).await {
                            if is_frame_cause(c) {
                                // the server did not treat the frame as fatal: the connection has not ended yet,
                                // so end it by dropping the socket and judge that exit instead
                                out.tolerated_frame_cause = true;
                                for cl in clients.iter_mut().filter(|cl| !cl.bystander) {
                                    cl.ws = None;
                                }
                                if !wait_until(window(&out), || main_disconnected(&sc, &peers_of_bystanders)).await {
                                    fail(&mut out, &env, "disconnect-while-handler-parked");
                                }
                            } else {
                                fail(&mut out, &env, "disconnect-while-handler-parked");
                            }
                        }
                        let w = window(&out);
                        if !wait_until(w, || sc.count(|e| matches!(e, Ev::HCancelSeen { .. })) >= n).await {
                            fail(&mut out, &env, "cancel-seen");
                        }
                        sc.hgate.open(ACT_GO);
                    }
                    Phase::QueueFull => {
                        // steering only: give a frame cause the chance to be the thing the server sees first
                        let _ = wait_until(Duration::from_millis(if wedge_reader { 150 } else { 400 }), || main_disconnected(&sc, &peers_of_bystanders)).await;
                    }
                    Phase::Idle => {}
                }
                // bystanders must survive their neighbours' exits
                let alive: Vec<u64> = join_all(clients.iter_mut().filter(|cl| cl.bystander).map(|cl| async move {
                    cl.send_bin(req("/ping", 6, false, &json!({}))).await;
                    if cl.read_until_response(6, WINDOW).await.is_ok() { cl.peer() } else { None }
                }))
                .await
                .into_iter()
                .flatten()
                .collect();
                for p in alive {
                    sc.push(Ev::BystanderAlive { peer: p });
                }
                // finish the main clients
                join_all(clients.iter_mut().filter(|cl| !cl.bystander).map(|cl| async move {
                    if c == Cause::Close && phase != Phase::QueueFull {
                        cl.drain_until_closed(Duration::from_secs(3)).await;
                    }
                    cl.ws = None;
                }))
                .await;
            }
            Some(Cause::ConnectPanic) => {
                sc.cgate.open(ACT_GO);
            }
            Some(Cause::TokenCancel) => {
                if let Some(t) = &token {
                    t.cancel();
                    sc.push(Ev::CancelCalled);
                } else {
                    out.harness_err = Some("token cancel scheduled on an entry without token".into());
                }
                match phase {
                    Phase::Inline => {
                        if !wait_until(window(&out), || sc.count(|e| matches!(e, Ev::HCancelSeen { .. })) >= n).await {
                            fail(&mut out, &env, "cancel-seen");
                        }
                        sc.hgate.open(ACT_GO);
                    }
                    Phase::OffReader => {
                        if !wait_until(window(&out), || all_disconnected(&sc)).await {
                            fail(&mut out, &env, "disconnect-while-handler-parked");
                        }
                        if !wait_until(window(&out), || sc.count(|e| matches!(e, Ev::HCancelSeen { .. })) >= n).await {
                            fail(&mut out, &env, "cancel-seen");
                        }
                        sc.hgate.open(ACT_GO);
                    }
                    Phase::ConnectCb => sc.cgate.open(ACT_GO),
                    _ => {}
                }
                // late arrivals: an upgrade that completes after the embedder cancelled its token is an accepted connection
                // like any other (connect hooks once, then disconnect hooks once, registered in between)
                if token.is_some() && out.harness_err.is_none() {
                    sc.cgate.open(ACT_GO);
                    let late = 1 + (variant & 1) as usize;
                    let lc = join_all((0..late).map(|j| connect_client(addr, total + j, "/repe", false))).await;
                    for (j, c) in lc.into_iter().enumerate() {
                        if let Ok(ws) = c {
                            out.n_ok += 1;
                            out.late_ok += 1;
                            clients.push(Cli { idx: total + j, handshake_ok: true, ws: Some(ws), frames: vec![], unparsable: 0, bystander: false, got_first_response: false, note: None });
                        }
                    }
                    // give the server the time to have noticed them (either callback family) before the quiescence waits
                    let want = out.n_ok;
                    let _ = wait_until(Duration::from_secs(2), || {
                        sc.count(|e| matches!(e, Ev::Connect0 { .. })) >= want || sc.count(|e| matches!(e, Ev::Disc1 { .. })) >= want
                    })
                    .await;
                }
            }
            Some(c @ (Cause::GracefulDrain | Cause::DrainAbort)) => {
                if let Some(tx) = shutdown_tx.take() {
                    let _ = tx.send(());
                    sc.push(Ev::ShutdownFired);
                }
                serve_returned_expected = true;
                if c == Cause::GracefulDrain {
                    match phase {
                        Phase::Inline | Phase::OffReader => {
                            // cooperative handlers leave on their own once they see the cancellation
                            if !wait_until(window(&out), || sc.count(|e| matches!(e, Ev::HCancelSeen { .. })) >= n).await {
                                fail(&mut out, &env, "cancel-seen");
                            }
                        }
                        Phase::ConnectCb => {
                            tokio::time::sleep(Duration::from_millis(40)).await;
                            sc.cgate.open(ACT_GO);
                        }
                        _ => {}
                    }
                    if !wait_until(window(&out), || all_disconnected(&sc)).await {
                        fail(&mut out, &env, "disconnect");
                    }
                    // a wedged writer only goes away with its socket
                    for cl in clients.iter_mut() {
                        if phase == Phase::QueueFull {
                            cl.ws = None;
                        }
                    }
                } else {
                    // uncooperative: keep everything wedged past the (150 ms) deadline, then let go
                    match phase {
                        Phase::QueueFull | Phase::OffReader => {
                            // abort needs no help here: serve must come back with clients connected and handlers parked
                            if !wait_until(window(&out), || sc.count(|e| matches!(e, Ev::ServeReturned)) >= 1).await {
                                fail(&mut out, &env, "serve-returned-before-release");
                            }
                        }
                        _ => tokio::time::sleep(Duration::from_millis(400)).await,
                    }
                    sc.cgate.open(ACT_GO);
                    sc.hgate.open(ACT_GO);
                }
            }
            Some(_) => {}
        }
    }

    // --- quiescence: bounded window for every accepted connection's disconnect callback
    let bystander_peers: Vec<u64> = peers_of_bystanders.clone();
    let w = window(&out);
    if out.harness_err.is_none() && !wait_until(w, || main_disconnected(&sc, &bystander_peers)).await {
        fail(&mut out, &env, "disconnect");
    }
    // bystanders leave last, cleanly
    join_all(clients.iter_mut().filter(|c| c.bystander).map(|c| async move {
        apply_client_cause(c, Cause::Close, 0).await;
        c.drain_until_closed(Duration::from_secs(3)).await;
        c.ws = None;
    }))
    .await;
    // after a cancel the server closes; read that out, then drop
    join_all(clients.iter_mut().map(|c| async move {
        if c.ws.is_some() && !small {
            c.drain_until_closed(Duration::from_secs(2)).await;
        }
        c.ws = None;
    }))
    .await;
    sc.cgate.open(ACT_GO);
    sc.hgate.open(ACT_GO);
    if out.harness_err.is_none() {
        let w = window(&out);
        if !wait_until(w, || all_disconnected(&sc)).await {
            fail(&mut out, &env, "disconnect");
        }
        let parked = sc.count(|e| matches!(e, Ev::HEnter { .. }));
        let w = window(&out);
        if !wait_until(w, || sc.count(|e| matches!(e, Ev::HRelease { .. })) >= parked).await {
            fail(&mut out, &env, "handler-release");
        }
    }
    // --- teardown of the serving side
    if entry == Entry::DrainListener {
        if let Some(tx) = shutdown_tx.take() {
            let _ = tx.send(());
        }
        if !wait_until(window(&out), || sc.count(|e| matches!(e, Ev::ServeReturned)) >= 1).await && serve_returned_expected {
            fail(&mut out, &env, "serve-returned");
        }
    }
    serve_task.abort();
    // --- final probes from the outside
    let peers: Vec<u64> = {
        let log = sc.log.lock().unwrap_or_else(|e| e.into_inner());
        let mut v: Vec<u64> = log.iter().filter_map(|(_, e)| if let Ev::Connect0 { peer } = e { Some(*peer) } else { None }).collect();
        v.sort();
        v.dedup();
        v
    };
    for p in peers {
        sc.probe_ev(p, "final");
    }
    out.final_len = sc.reg.len();
    out.final_alias_c = (0..total + 2).filter(|i| sc.reg.get_by(format!("c-{i}").as_str()).is_some()).count();
    out.clients = clients
        .into_iter()
        .map(|c| CliRec { idx: c.idx, frames: c.frames, unparsable: c.unparsable, handshake_ok: c.handshake_ok, bystander: c.bystander, got_first_response: c.got_first_response, note: c.note })
        .collect();
    out
}

// ------------------------------------------------------------------ offline oracle

fn cell_name(k: &Kind) -> (String, String) {
    match k {
        Kind::Cell(c, p) => (format!("{c:?}"), format!("{p:?}")),
        Kind::Bad(b) => (format!("Bad{b:?}"), "Handshake".into()),
        Kind::Takeover(s) => (format!("Takeover{s:?}"), "Identity".into()),
    }
}

struct Tally {
    connects: u64,
    disconnects: u64,
    probes_present: u64,
    probes_absent: u64,
    probes_unconstrained: u64,
    order_checks: u64,
    connect_notifies_seen: u64,
    parked: u64,
    released_after_disconnect_cancelled: u64,
    cancel_seen: u64,
    frames: u64,
    bystanders_alive: u64,
    panics: u64,
    tolerated: u64,
    error_responses: u64,
    client_notes: u64,
    /// handlers released by their own connection's first disconnect hook that read is_cancelled()==true at once
    hook_released_cancelled: u64,
    /// handlers that left the per-connection gate because the driver tore the scenario down (no verdict)
    hook_release_by_driver: u64,
    /// parked handlers whose earlier-polled `ctx.cancelled()` future was woken and resolved after the cancellation
    future_woken: u64,
    future_slowest_ms: u64,
    late_alias_attempts: u64,
    late_alias_accepted: u64,
    tk: takeover::TkTally,
}

fn judge(out: &Out, rep: &mut Report, stalled: bool, t: &mut Tally) {
    let (cn, pn) = cell_name(&out.spec.kind);
    let replay = json!({ "seed": out.spec.seed, "cause": cn, "phase": pn, "entry": format!("{:?}", out.spec.entry), "conns": out.spec.conns, "cfg": out.cfg });
    let (mut found, mut notes) = (Vec::<(String, String)>::new(), Vec::<String>::new());
    judge_inner(out, stalled, t, &mut found, &mut notes);
    for (sig, detail) in found {
        rep.violation(sig, detail, replay.clone());
    }
    for n in notes {
        rep.inconclusive(n);
    }
}

fn judge_inner(out: &Out, stalled: bool, t: &mut Tally, found: &mut Vec<(String, String)>, rep_note: &mut Vec<String>) {
    let (cn, pn) = cell_name(&out.spec.kind);
    let cell = format!("{cn}:{pn}");
    if matches!(out.spec.kind, Kind::Takeover(_)) {
        takeover::judge(out, stalled, t, found, rep_note);
        return;
    }
    let ev = out.sc.snapshot();
    if let Some(e) = &out.harness_err {
        rep_note.push(format!("{cell} via {:?}: harness: {e}", out.spec.entry));
        return;
    }
    let setup_failed: Vec<&&str> = out.failed_waits.iter().filter(|w| w.starts_with("setup:") || w.starts_with("bad-handshake:")).collect();
    let timed_out = !out.failed_waits.is_empty();
    if timed_out && stalled {
        rep_note.push(format!("{cell} via {:?}: waits {:?} expired while the machine stalled", out.spec.entry, out.failed_waits));
        return;
    }
    let mut viol = |class: &str, detail: String| {
        found.push((format!("C15:{class}:{cell}"), format!("{detail} [entry {:?}, {} connection(s), waits expired: {:?}]", out.spec.entry, out.spec.conns, out.failed_waits)));
    };

    // per-peer callback accounting
    #[derive(Default)]
    struct P {
        c0: Vec<u64>,
        c1: Option<(u64, bool)>,
        connect_max: u64,
        d0: Vec<u64>,
        d1: Vec<u64>,
    }
    let mut peers: BTreeMap<u64, P> = BTreeMap::new();
    let (mut cancel_called, mut serve_returned) = (None, None);
    for (s, e) in &ev {
        match e {
            Ev::Connect0 { peer } => {
                let p = peers.entry(*peer).or_default();
                p.c0.push(*s);
                p.connect_max = p.connect_max.max(*s);
            }
            Ev::Connect1 { peer, alias_ok, hello_ok, get, by_a, by_b } => {
                let p = peers.entry(*peer).or_default();
                p.c1 = Some((*s, *hello_ok));
                p.connect_max = p.connect_max.max(*s);
                if !(*alias_ok && *get && *by_a && *by_b) {
                    viol("registry-absent-at-connect", format!("peer {peer}: inside the connect callback registered after with_peer_registry: alias()={alias_ok} get={get} get_by(a)={by_a} get_by(b)={by_b}"));
                }
            }
            Ev::ConnectCtx { peer, .. } | Ev::CGateEnter { peer } | Ev::CGateExit { peer, .. } => {
                let p = peers.entry(*peer).or_default();
                p.connect_max = p.connect_max.max(*s);
            }
            Ev::PanicNow { peer, site } => {
                t.panics += 1;
                if *site == "connect-callback" {
                    let p = peers.entry(*peer).or_default();
                    p.connect_max = p.connect_max.max(*s);
                }
            }
            Ev::Disc0 { peer, .. } => peers.entry(*peer).or_default().d0.push(*s),
            Ev::Disc1 { peer, .. } => peers.entry(*peer).or_default().d1.push(*s),
            Ev::CancelCalled => cancel_called = Some(*s),
            Ev::ServeReturned => serve_returned = serve_returned.or(Some(*s)),
            _ => {}
        }
    }
    if ev.iter().any(|(_, e)| matches!(e, Ev::CGateExit { timeout: true, .. } | Ev::HRelease { timeout: true, .. })) {
        rep_note.push(format!("{cell} via {:?}: a gate was never opened by the driver (harness)", out.spec.entry));
        return;
    }
    if !setup_failed.is_empty() && peers.len() == out.n_ok {
        // the scenario never reached its phase although every connection was accepted: not a verdict on C15
        rep_note.push(format!("{cell} via {:?}: setup waits expired {:?}", out.spec.entry, out.failed_waits));
        return;
    }
    // bounded-progress clauses: a property-relevant wait that expired without a machine stall is a violation
    // even if the event showed up later (after the harness dropped sockets / opened gates during teardown)
    for w in &out.failed_waits {
        match *w {
            "disconnect" => viol("disconnect-window-expired", format!("not every accepted connection had run its disconnect callbacks {} s after its exit cause was applied", WINDOW.as_secs())),
            "disconnect-while-handler-parked" => viol("disconnect-window-expired:handler-parked", format!("with an off-reader handler still parked the disconnect callbacks had not run {} s after the exit cause", WINDOW.as_secs())),
            "cancel-seen" => viol("cancel-not-observed-in-window", format!("parked handlers polling CallContext::is_cancelled() every 3 ms did not all see true within {} s", WINDOW.as_secs())),
            "handler-release" => rep_note.push(format!("{cell}: parked handlers did not log their release in the window")),
            "serve-returned" | "serve-returned-before-release" => rep_note.push(format!("{cell}: serve_listener_with_graceful_drain did not return in the window ({w})")),
            _ => {}
        }
    }
    let accepted = peers.values().filter(|p| !p.c0.is_empty()).count();
    if accepted > out.n_ok {
        viol("callback-on-failed-handshake", format!("{accepted} connections ran connect callbacks but only {} client handshakes succeeded ({} failed handshakes attempted)", out.n_ok, out.bad_attempts));
    } else if accepted < out.n_ok {
        viol("connect-missing", format!("{} client handshakes succeeded but only {accepted} connections ran the first connect callback", out.n_ok));
    }
    for (peer, p) in &peers {
        t.connects += p.c0.len() as u64;
        t.disconnects += p.d1.len() as u64;
        if p.c0.is_empty() {
            viol("disconnect-without-connect", format!("peer {peer}: disconnect callbacks ran ({}/{}) but no connect callback", p.d0.len(), p.d1.len()));
            continue;
        }
        if p.c0.len() > 1 {
            viol("connect-twice", format!("peer {peer}: first connect callback ran {} times", p.c0.len()));
        }
        for (name, d) in [("first", &p.d0), ("last", &p.d1)] {
            match d.len() {
                1 => {}
                0 => viol("disconnect-missing", format!("peer {peer}: the {name} disconnect callback never ran within the {} s window after the connection was ended", WINDOW.as_secs())),
                k => viol("disconnect-twice", format!("peer {peer}: the {name} disconnect callback ran {k} times (seqs {d:?})")),
            }
        }
        if let Some(d0) = p.d0.first() {
            if *d0 < p.connect_max {
                viol("disconnect-before-connect-done", format!("peer {peer}: disconnect callback at seq {d0} but connect-callback activity continued until seq {}", p.connect_max));
            }
            if let Some(d1) = p.d1.first() {
                if d1 < d0 {
                    viol("disconnect-hook-order", format!("peer {peer}: disconnect hooks ran out of registration order ({d1} < {d0})"));
                }
            }
        }
    }
    // registry presence / absence
    for (s, e) in &ev {
        match e {
            Ev::Disc0 { peer, get, by_a, by_b } => {
                let inserted = peers.get(peer).map(|p| p.c1.is_some()).unwrap_or(false);
                if inserted && !(*get && *by_a && *by_b) {
                    viol("registry-absent-before-disconnect", format!("peer {peer}: in the disconnect callback registered before with_peer_registry: get={get} get_by(a)={by_a} get_by(b)={by_b}"));
                } else if inserted {
                    t.probes_present += 1;
                }
            }
            Ev::Disc1 { peer, get, by_a, by_b, n_alias } => {
                if *get || *by_a || *by_b || *n_alias != 0 {
                    viol("registry-present-after-disconnect:disconnect-hook", format!("peer {peer}: in the disconnect callback registered after with_peer_registry: get={get} get_by(a)={by_a} get_by(b)={by_b} aliases_for={n_alias}"));
                } else {
                    t.probes_absent += 1;
                }
            }
            Ev::Probe { peer, s1, get, by_a, by_b, site } => {
                let Some(p) = peers.get(peer) else {
                    t.probes_unconstrained += 1;
                    continue;
                };
                let after_connect = p.c1.map(|(c, _)| *s1 > c).unwrap_or(false);
                let before_disc = p.d0.first().map(|d| s < d).unwrap_or(true);
                let after_disc = p.d1.first().map(|d| s1 > d).unwrap_or(false);
                if after_connect && before_disc {
                    if !(*get && *by_a && *by_b) {
                        viol(&format!("registry-absent-while-connected:{site}"), format!("peer {peer}: probe [{s1},{s}] between connect callback and disconnect callback: get={get} get_by(a)={by_a} get_by(b)={by_b}"));
                    } else {
                        t.probes_present += 1;
                    }
                } else if after_disc {
                    if *get || *by_a || *by_b {
                        viol(&format!("registry-present-after-disconnect:{site}"), format!("peer {peer}: probe [{s1},{s}] after the last disconnect callback (seq {:?}): get={get} get_by(a)={by_a} get_by(b)={by_b}", p.d1.first()));
                    } else {
                        t.probes_absent += 1;
                    }
                } else {
                    t.probes_unconstrained += 1;
                }
            }
            _ => {}
        }
    }
    if !timed_out && (out.final_len != 0 || out.final_alias_c != 0) {
        viol("registry-nonempty-at-quiescence", format!("after every disconnect callback ran the registry still holds {} peers and {} handshake aliases", out.final_len, out.final_alias_c));
    }
    // cancellation seen by handlers that were still parked when the connection ended
    for (_, e) in &ev {
        match e {
            Ev::HEnter { .. } => t.parked += 1,
            Ev::HCancelSeen { .. } => t.cancel_seen += 1,
            Ev::LateAlias { accepted, .. } => {
                t.late_alias_attempts += 1;
                t.late_alias_accepted += *accepted as u64;
            }
            Ev::HFutureResolved { ms, .. } => {
                t.future_woken += 1;
                t.future_slowest_ms = t.future_slowest_ms.max(*ms);
            }
            Ev::HFutureStuck { peer, tok, stalled: st } => {
                if *st || stalled {
                    rep_note.push(format!("{cell}: a parked handler's cancelled() future was not woken in time while the machine stalled"));
                } else {
                    viol("cancelled-future-not-woken", format!("peer {peer} handler #{tok}: is_cancelled() read true, but the ctx.cancelled() future it had polled when it parked was not woken within {} s", FUT_GRACE.as_secs()));
                }
            }
            Ev::HRelease { peer, tok, off, s1, cancelled, .. } => {
                let kind = if *off { "off-reader" } else { "inline" };
                let d0 = peers.get(peer).and_then(|p| p.d0.first().copied());
                let mut must = None;
                if d0.map(|d| d < *s1).unwrap_or(false) {
                    must = Some("its connection's disconnect callback had already run");
                } else if out.token_attached && cancel_called.map(|c| c < *s1).unwrap_or(false) {
                    must = Some("ShutdownToken::cancel() had already returned");
                } else if serve_returned.map(|c| c < *s1).unwrap_or(false) && matches!(out.spec.kind, Kind::Cell(Cause::GracefulDrain | Cause::DrainAbort, _)) {
                    must = Some("the graceful-drain serve call had already returned");
                }
                if let Some(why) = must {
                    if *cancelled {
                        t.released_after_disconnect_cancelled += 1;
                    } else {
                        viol(&format!("parked-handler-not-cancelled:{kind}"), format!("peer {peer} handler #{tok} ({kind}): is_cancelled()==false at seq {s1} although {why}"));
                    }
                }
            }
            Ev::BystanderAlive { .. } => t.bystanders_alive += 1,
            _ => {}
        }
    }
    judge_hook_release(&ev, t, &mut viol);
    // bystanders: no disconnect before they proved alive after their neighbours' exits
    for (s, e) in &ev {
        if let Ev::BystanderAlive { peer } = e {
            if let Some(d) = peers.get(peer).and_then(|p| p.d0.first()) {
                if d < s {
                    viol("disconnect-of-live-connection", format!("peer {peer}: disconnect callback at seq {d}, but the connection answered a request afterwards (seq {s})"));
                }
            }
        }
    }
    // frame order seen by the raw clients: connect-queued notifies before any response, in hook order
    let hellos_ok = ev.iter().all(|(_, e)| match e {
        Ev::Connect1 { hello_ok, .. } | Ev::ConnectCtx { hello_ok, .. } => *hello_ok,
        _ => true,
    });
    for c in &out.clients {
        t.frames += c.frames.len() as u64;
        if c.unparsable > 0 {
            viol("unparsable-frame", format!("client {}: {} binary messages were not one REPE frame", c.idx, c.unparsable));
        }
        if !c.got_first_response || !hellos_ok {
            continue;
        }
        t.order_checks += 1;
        let first_resp = c.frames.iter().position(|f| !f.notify).unwrap_or(c.frames.len());
        let before: Vec<&str> = c.frames[..first_resp].iter().filter(|f| f.path.starts_with("/hello")).map(|f| f.path.as_str()).collect();
        t.connect_notifies_seen += before.len() as u64;
        let want: Vec<&str> = out.expected_hellos.clone();
        if before.len() < want.len() {
            let order: Vec<String> = c.frames.iter().take(6).map(|f| format!("{}{}", if f.notify { "N" } else { "R" }, f.path)).collect();
            viol("response-before-connect-notify", format!("client {}: frames on the wire {order:?}; connect callbacks queued {want:?} (send_notify returned Ok) before the reader started", c.idx));
        } else if before != want {
            viol("connect-notify-order", format!("client {}: connect notifies arrived as {before:?}, hooks queued {want:?}", c.idx));
        }
    }
    t.tolerated += out.tolerated_frame_cause as u64;
    t.error_responses += out.clients.iter().flat_map(|c| c.frames.iter()).filter(|f| !f.notify && f.ec != 0).count() as u64;
    t.client_notes += out.clients.iter().filter(|c| c.handshake_ok && c.note.is_some()).count() as u64;
}

/// A handler woken by its own connection's FIRST disconnect hook must already see the connection token cancelled:
/// DisconnectGuard::drop cancels the token and only then runs the hooks (in registration order), and the gate
/// mutex orders the hook's store before the handler's read.
fn judge_hook_release(ev: &[(u64, Ev)], t: &mut Tally, viol: &mut impl FnMut(&str, String)) {
    for (s, e) in ev {
        if let Ev::HHookRelease { peer, tok, by_hook, cancelled } = e {
            if !*by_hook {
                t.hook_release_by_driver += 1;
            } else if *cancelled {
                t.hook_released_cancelled += 1;
            } else {
                let d0 = ev.iter().find_map(|(s, e)| matches!(e, Ev::Disc0 { peer: p, .. } | Ev::TkDisc0 { peer: p } if p == peer).then_some(*s));
                viol(
                    "handler-not-cancelled-when-disconnect-hooks-run",
                    format!(
                        "peer {peer} off-reader handler #{tok}: parked on a gate that only its own connection's first on_peer_disconnect hook opens; \
                         woken by that hook it read ctx.is_cancelled()==false at once (logged at seq {s}; first disconnect hook logged at seq {d0:?}) -- \
                         the connection token was not cancelled before the disconnect hooks ran"
                    ),
                );
            }
        }
    }
}

// ------------------------------------------------------------------ table driver

fn pick_conns(r: &mut Rng, phase: Phase, bad: bool) -> usize {
    if bad {
        return 1 + r.usize_below(3);
    }
    let n = *r.pick(&[1usize, 1, 2, 3, 4, 6, 8, 12, 16, 24, 32]);
    match phase {
        Phase::QueueFull => n.min(6),
        _ => n,
    }
}

pub fn run(args: &Args) -> Report {
    let mut rep = Report::new(
        args,
        "c15-lifecycle-fault-table",
        "fault enumeration: every meaningful (exit cause x connection phase x serving entry point) cell is executed against a real \
         WebSocketServer with 1..32 raw tokio-tungstenite clients, plus failed-handshake cells; the oracle runs offline over one \
         globally sequenced callback/handler/driver event log and the frame order seen by the raw clients: exactly one disconnect \
         callback per accepted connection, after its connect callbacks, none for failed handshakes, registry/alias presence between \
         and absence after, connect-queued notifies before any response, parked handlers observe is_cancelled()",
    );
    let hb = Heartbeat::start();
    let srv_rt = match tokio::runtime::Builder::new_multi_thread().worker_threads(56).max_blocking_threads(1024).thread_name("c15-srv").enable_all().build() {
        Ok(r) => r,
        Err(e) => {
            rep.inconclusive(format!("server runtime: {e}"));
            return rep;
        }
    };
    let cli_rt = match tokio::runtime::Builder::new_multi_thread().worker_threads(8).thread_name("c15-cli").enable_all().build() {
        Ok(r) => r,
        Err(e) => {
            rep.inconclusive(format!("client runtime: {e}"));
            return rep;
        }
    };
    let env = Arc::new(Env { srv: srv_rt.handle().clone(), block_budget: Arc::new(Semaphore::new(44)), expired: AtomicU64::new(0) });
    // The scenarios deliberately park tokio worker threads inside connect callbacks and inline handlers (that is
    // what makes the phase certain). A worker that was woken by the I/O driver with exactly one task and then
    // blocks in it leaves the driver unowned while every other worker sleeps, which would stall *unrelated*
    // sockets of the harness. An external ticker keeps handing the driver to an idle worker.
    let tick_stop = Arc::new(std::sync::atomic::AtomicBool::new(false));
    let ticker = {
        let (stop, h) = (tick_stop.clone(), srv_rt.handle().clone());
        std::thread::spawn(move || {
            while !stop.load(Ordering::Relaxed) {
                h.spawn(async {});
                std::thread::sleep(Duration::from_micros(700));
            }
        })
    };

    // the table
    let mut skipped: BTreeMap<&'static str, u64> = BTreeMap::new();
    let mut cells: Vec<(Kind, Entry)> = vec![];
    for c in CAUSES {
        for p in PHASES {
            for e in ENTRIES {
                match skip_reason(c, p, e) {
                    Some(why) => *skipped.entry(why).or_default() += 1,
                    None => cells.push((Kind::Cell(c, p), e)),
                }
            }
        }
    }
    for b in BAD_HS {
        for e in ENTRIES {
            if e == Entry::Adopt {
                *skipped.entry("failed handshake under adopt_upgraded: the handshake is the embedder's, the library never sees it").or_default() += 1;
            } else {
                cells.push((Kind::Bad(b), e));
            }
        }
    }
    for s in [TkShape::Pair, TkShape::Triple] {
        for e in ENTRIES {
            cells.push((Kind::Takeover(s), e));
        }
    }
    let table_cells = CAUSES.len() * PHASES.len() * ENTRIES.len() + BAD_HS.len() * ENTRIES.len() + 2 * ENTRIES.len();
    rep.set("table_cells_total", json!(table_cells));
    rep.set("table_cells_meaningful", json!(cells.len()));
    rep.set("table_cells_skipped", json!(skipped.values().sum::<u64>()));
    rep.set("table_cells_skipped_by_reason", json!(skipped));

    let passes = args.budget(6, 90);
    let par = 10usize;
    let mut rng = Rng::new(args.seed ^ 0xC15);
    let wall_cap = if args.thorough() { Duration::from_secs(400) } else { Duration::from_secs(30) };
    quiet_panics(true);
    let mut executed_cells: std::collections::BTreeSet<String> = Default::default();
    let mut conn_hist: BTreeMap<usize, u64> = BTreeMap::new();
    let mut slow: Vec<(u64, String)> = vec![];
    let mut t = Tally { connects: 0, disconnects: 0, probes_present: 0, probes_absent: 0, probes_unconstrained: 0, order_checks: 0, connect_notifies_seen: 0, parked: 0, released_after_disconnect_cancelled: 0, cancel_seen: 0, frames: 0, bystanders_alive: 0, panics: 0, tolerated: 0, error_responses: 0, client_notes: 0, hook_released_cancelled: 0, hook_release_by_driver: 0, future_woken: 0, future_slowest_ms: 0, late_alias_attempts: 0, late_alias_accepted: 0, tk: Default::default() };
    let (mut scenarios, mut connections, mut bad_attempts, mut passes_done, mut not_started) = (0u64, 0u64, 0u64, 0u64, 0u64);
    let mut late_connections = 0u64;
    for pass in 0..passes {
        if rep.elapsed() > wall_cap || env.expired.load(Ordering::Relaxed) >= 8 {
            break;
        }
        let mut specs: Vec<Spec> = cells
            .iter()
            .map(|(k, e)| {
                let mut r = rng.fork(hash_of(&(pass, format!("{k:?}"), *e)));
                let (phase, bad) = match k {
                    Kind::Cell(_, p) => (*p, false),
                    Kind::Bad(_) => (Phase::Idle, true),
                    // `conns` counts identity groups (2 or 3 connections each)
                    Kind::Takeover(_) => return Spec { kind: k.clone(), entry: *e, conns: *r.pick(&[1usize, 2, 3, 4, 6, 8]), seed: r.next_u64() },
                };
                Spec { kind: k.clone(), entry: *e, conns: pick_conns(&mut r, phase, bad), seed: r.next_u64() }
            })
            .collect();
        // the 32-connection end of the range is always exercised, on rotating cells
        let len = specs.len();
        for k in 0..4 {
            let i = ((pass as usize) * 37 + k * 53 + (args.seed as usize % 97)) % len;
            if let Kind::Cell(_, p) = specs[i].kind {
                if p != Phase::QueueFull {
                    specs[i].conns = 32;
                }
            }
        }
        rng.shuffle(&mut specs);
        // replay / debugging: `only=<substring of Cause:Phase:Entry>` `conns=<n>` `cellseed=<u64>` as extra args
        for x in &args.extra {
            if let Some(f) = x.strip_prefix("only=") {
                specs.retain(|s| {
                    let (c, p) = cell_name(&s.kind);
                    format!("{c}:{p}:{:?}", s.entry).contains(f)
                });
            }
            if let Some(n) = x.strip_prefix("conns=").and_then(|n| n.parse::<usize>().ok()) {
                specs.iter_mut().for_each(|s| s.conns = n);
            }
            if let Some(n) = x.strip_prefix("cellseed=").and_then(|n| n.parse::<u64>().ok()) {
                specs.iter_mut().for_each(|s| s.seed = n);
            }
        }
        if specs.is_empty() {
            break;
        }
        let started = Instant::now();
        let budget_left = wall_cap.saturating_sub(rep.elapsed());
        let env2 = env.clone();
        let outs: Vec<Result<Out, String>> = cli_rt.block_on(async move {
            let sem = Arc::new(Semaphore::new(par));
            let mut handles = vec![];
            for spec in specs {
                let Ok(permit) = sem.clone().acquire_owned().await else { break };
                // stop early once many scenarios burnt a whole window: the verdict is decided, keep the stage bounded
                if started.elapsed() > budget_left || env2.expired.load(Ordering::Relaxed) >= 8 {
                    handles.push((spec.clone(), None));
                    continue;
                }
                let env = env2.clone();
                let sp = spec.clone();
                handles.push((
                    spec,
                    Some(tokio::spawn(async move {
                        let o = tokio::time::timeout(Duration::from_secs(100), run_scenario(sp, env)).await;
                        drop(permit);
                        o
                    })),
                ));
            }
            let mut outs = vec![];
            for (spec, h) in handles {
                let (cn, pn) = cell_name(&spec.kind);
                match h {
                    None => outs.push(Err(format!("not started (wall budget): {cn}:{pn} via {:?}", spec.entry))),
                    Some(h) => match h.await {
                        Ok(Ok(o)) => outs.push(Ok(o)),
                        Ok(Err(_)) => outs.push(Err(format!("scenario watchdog (100 s): {cn}:{pn} via {:?} seed {}", spec.entry, spec.seed))),
                        Err(e) => outs.push(Err(format!("scenario task failed: {cn}:{pn} via {:?}: {e}", spec.entry))),
                    },
                }
            }
            // late duplicates would land after the scenario's own wait; judge after a settle
            tokio::time::sleep(Duration::from_millis(250)).await;
            outs
        });
        let stalled = hb.max_gap_ms() > 1000;
        for o in outs {
            match o {
                Err(e) if e.starts_with("not started") => not_started += 1,
                Err(e) => rep.inconclusive(e),
                Ok(o) => {
                    rep.eval();
                    scenarios += 1;
                    connections += o.n_ok as u64;
                    late_connections += o.late_ok as u64;
                    bad_attempts += o.bad_attempts as u64;
                    *conn_hist.entry(o.spec.conns).or_default() += 1;
                    slow.push((o.wall_ms, format!("{:?} via {:?} x{} {}", o.spec.kind, o.spec.entry, o.spec.conns, o.cfg)));
                    let (cn, pn) = cell_name(&o.spec.kind);
                    executed_cells.insert(format!("{cn}:{pn}:{:?}", o.spec.entry));
                    rep.distinct(&(cn.clone(), pn.clone(), o.spec.entry, o.spec.conns, o.cfg.to_string()));
                    let before = rep.violations.len();
                    judge(&o, &mut rep, stalled, &mut t);
                    if rep.samples.len() < 5 && (scenarios % 41 == 1 || rep.violations.len() > before) {
                        let evs: Vec<String> = o.sc.snapshot().iter().take(24).map(|(s, e)| format!("{s}:{e:?}")).collect();
                        let wire: Vec<String> = o.clients.first().map(|c| c.frames.iter().take(6).map(|f| format!("{}{}#{}", if f.notify { "N" } else { "R" }, f.path, f.id)).collect()).unwrap_or_default();
                        rep.sample(json!({ "cause": cn, "phase": pn, "entry": format!("{:?}", o.spec.entry), "conns": o.spec.conns, "cfg": o.cfg, "first_events": evs, "client0_wire": wire }));
                    }
                }
            }
        }
        passes_done += 1;
    }
    quiet_panics(false);
    rep.set("passes", json!(passes_done));
    rep.set("scenarios_executed", json!(scenarios));
    rep.set("scenarios_not_started_wall_budget", json!(not_started));
    rep.set("cells_executed", json!(executed_cells.len()));
    rep.set("cells_not_executed", json!(cells.iter().map(|(k, e)| { let (c, p) = cell_name(k); format!("{c}:{p}:{e:?}") }).filter(|n| !executed_cells.contains(n)).collect::<Vec<_>>()));
    rep.set("connections_accepted", json!(connections));
    rep.set("connections_made_after_the_embedder_token_was_cancelled", json!(late_connections));
    rep.set("connections_per_scenario_histogram", json!(conn_hist.iter().map(|(k, v)| (k.to_string(), *v)).collect::<BTreeMap<_, _>>()));
    rep.set("failed_handshakes_attempted", json!(bad_attempts));
    rep.set("connect_callbacks_observed", json!(t.connects));
    rep.set("disconnect_callbacks_observed", json!(t.disconnects));
    rep.set("registry_probes_required_present", json!(t.probes_present));
    rep.set("registry_probes_required_absent", json!(t.probes_absent));
    rep.set("registry_probes_unconstrained", json!(t.probes_unconstrained));
    rep.set("frame_order_checks", json!(t.order_checks));
    rep.set("connect_notifies_before_first_response", json!(t.connect_notifies_seen));
    rep.set("client_frames_observed", json!(t.frames));
    rep.set("handlers_parked", json!(t.parked));
    rep.set("handlers_saw_cancel_while_parked", json!(t.cancel_seen));
    rep.set("handlers_released_after_end_and_cancelled", json!(t.released_after_disconnect_cancelled));
    rep.set("handlers_released_by_first_disconnect_hook_and_cancelled", json!(t.hook_released_cancelled));
    rep.set("parked_handlers_woken_through_the_cancelled_future_polled_before_the_cancel", json!(t.future_woken));
    rep.set("cancelled_future_wake_slowest_ms", json!(t.future_slowest_ms));
    rep.set("late_alias_calls_for_a_departed_peer_under_a_live_peers_key", json!(t.late_alias_attempts));
    rep.set("late_alias_calls_for_a_departed_peer_accepted", json!(t.late_alias_accepted));
    rep.set("handlers_released_from_hook_gate_by_driver_teardown", json!(t.hook_release_by_driver));
    t.tk.report(&mut rep);
    rep.set("bystander_liveness_checks", json!(t.bystanders_alive));
    rep.set("scripted_panics_fired", json!(t.panics));
    rep.set("frame_causes_tolerated_by_server_then_dropped", json!(t.tolerated));
    rep.set("error_responses_seen_by_clients", json!(t.error_responses));
    rep.set("clients_whose_first_read_ended_early", json!(t.client_notes));
    slow.sort();
    slow.reverse();
    rep.set("slowest_scenarios_ms", json!(slow.iter().take(12).collect::<Vec<_>>()));
    rep.set("scenario_wall_ms_total", json!(slow.iter().map(|s| s.0).sum::<u64>()));
    rep.set("heartbeat_max_gap_ms", json!(hb.max_gap_ms()));
    rep.set("table_fully_executed", json!(executed_cells.len() == cells.len()));
    if scenarios == 0 {
        rep.inconclusive("no scenario executed");
    } else if executed_cells.len() < cells.len() && !args.extra.iter().any(|x| x.starts_with("only=")) {
        rep.inconclusive(format!("{} of {} meaningful cells were not executed (wall budget / harness trouble)", cells.len() - executed_cells.len(), cells.len()));
    }
    tick_stop.store(true, Ordering::Relaxed);
    let _ = ticker.join();
    // blocked handler threads are released; do not wait for stragglers
    srv_rt.shutdown_timeout(Duration::from_secs(2));
    cli_rt.shutdown_timeout(Duration::from_secs(2));
    rep
}
