//! C15 — not built yet.
use crate::common::*;

pub fn run(args: &Args) -> Report {
    let mut rep = Report::new(args, "c15-stub", "stub");
    rep.inconclusive("check not implemented");
    rep
}
