//! C05 client scenarios in which the BATCH entry points (`batch_json` / `batch_json_with_timeout` of
//! repe::Client, repe::AsyncClient, repe::WebSocketClient) are a way of sending of their own:
//!
//!  * histories on one connection: a send is interrupted (blocking client: configured write timeout against a
//!    stalled peer; async / WebSocket client: the caller abandons the send: timeout wrapper, abort, the batch's own
//!    per-request timeout) where the interrupted frame is ONE ITEM OF A BATCH (first / middle / last of the batch,
//!    batches larger than 64, small and medium items around it) or an ordinary call/notify, and the NEXT thing
//!    sent on the connection (same handle or a clone, while the first send is still in flight or after it
//!    returned) is a batch / an ordinary call / a notify; the peer resumes reading immediately, within one
//!    timeout period, after 1, 2, 3+ periods, or only after the sender returned; then FURTHER traffic;
//!  * concurrent batches and ordinary calls/notifies from several clones (healthy peer or seeded stalls).
//!
//! The oracle is the one of c05.rs (sequential walk of the raw peer's recording). Batch items are JSON bodies
//! whose text the harness writes out itself (`Item::text`), a pure function of (token, length, shape).

use super::c05_oracle::{Book, Expect, pat_fill};
use super::c05_peers::*;
use super::c05_scen_cli::{AClient, AKind, Gen, ep_name, expect_of, frame_len, max_wall, rcvbuf_choice, run_op_blocking, stall_plan};
use super::{BatchEvidence, ConnOut, Cx, Op, ScenarioOut, path_of, pick_len, size_class};
use crate::common::*;
use serde_json::{Value, json};
use std::sync::Arc;
use std::sync::atomic::{AtomicBool, AtomicU64, Ordering::SeqCst};
use std::time::{Duration, Instant};

// ------------------------------------------------------------------------------------------------
// batch items

const ALPHA: &[u8; 64] = b"ABCDEFGHIJKLMNOPQRSTUVWXYZabcdefghijklmnopqrstuvwxyz0123456789-_";

fn ascii_pat(token: u64, n: usize) -> String {
    let mut v = pat_fill(token, n);
    for b in v.iter_mut() {
        *b = ALPHA[(*b & 63) as usize];
    }
    // ALPHA is ASCII
    String::from_utf8(v).unwrap_or_default()
}

/// One request of a batch: path `path_of(token)`, JSON body of shape 0 = "s", 1 = {"k":"s"}, 2 = ["s"] with `n` pattern characters.
#[derive(Clone, Debug)]
pub struct Item {
    pub token: u64,
    pub n: usize,
    pub shape: u8,
}

impl Item {
    fn value(&self) -> Value {
        let s = ascii_pat(self.token, self.n);
        match self.shape {
            0 => Value::String(s),
            1 => json!({ "k": s }),
            _ => json!([s]),
        }
    }
    /// The compact JSON text of `value()`, written out by hand (never by the library under test).
    fn text(&self) -> Vec<u8> {
        let s = ascii_pat(self.token, self.n);
        let (pre, post): (&[u8], &[u8]) = match self.shape {
            0 => (b"\"", b"\""),
            1 => (b"{\"k\":\"", b"\"}"),
            _ => (b"[\"", b"\"]"),
        };
        let mut v = Vec::with_capacity(self.n + 8);
        v.extend_from_slice(pre);
        v.extend_from_slice(s.as_bytes());
        v.extend_from_slice(post);
        v
    }
    fn text_len(&self) -> usize {
        self.n + [2usize, 8, 4][self.shape.min(2) as usize]
    }
    fn frame_len(&self) -> u64 {
        (48 + path_of(self.token).len() + self.text_len()) as u64
    }
    fn expect(&self) -> Expect {
        let text = self.text();
        Expect {
            token: self.token,
            kind: "client batch_json item",
            notify: 0,
            query: path_of(self.token).into_bytes(),
            body_len: text.len(),
            fixed_id: None,
            body_prefix: vec![],
            body_format: 2,
            exact_body: Some(Arc::new(text)),
        }
    }
}

/// The hand-written JSON text must be what a JSON serializer makes of the value handed to the client.
pub fn json_item_self_check() -> Result<(), String> {
    for shape in 0..3u8 {
        for n in [0usize, 1, 63, 8190, 70_000] {
            let it = Item { token: 0xABC0 + n as u64, n, shape };
            let want = it.text();
            let got = serde_json::to_vec(&it.value()).map_err(|e| e.to_string())?;
            if got != want || want.len() != it.text_len() {
                return Err(format!("JSON text of a batch item (shape {shape}, {n} chars): harness {:?} vs serializer {:?}", trunc(&String::from_utf8_lossy(&want), 24), trunc(&String::from_utf8_lossy(&got), 24)));
            }
        }
    }
    Ok(())
}

fn item(g: &mut Gen, rng: &mut Rng, n: usize) -> Item {
    g.next += 1;
    Item { token: g.next, n, shape: rng.below(3) as u8 }
}

/// One thing an application sends: an ordinary call/notify, or a batch.
#[derive(Clone, Debug)]
enum Send {
    One(Op),
    Batch { items: Vec<Item>, timeout_ms: Option<u64> },
    /// one JSON call through `call_json_with_timeout`
    JsonCall(Item),
}

impl Send {
    fn add_to(&self, book: &mut Book) {
        match self {
            Send::One(op) => book.add_by_query(expect_of(op)),
            Send::Batch { items, .. } => items.iter().for_each(|it| book.add_by_query(it.expect())),
            Send::JsonCall(it) => book.add_by_query(Expect { kind: "client call_json request", ..it.expect() }),
        }
    }
    fn bytes(&self) -> u64 {
        match self {
            Send::One(op) => frame_len(op),
            Send::Batch { items, .. } => items.iter().map(|i| i.frame_len()).sum(),
            Send::JsonCall(it) => it.frame_len(),
        }
    }
    fn shape(&self) -> (u8, usize, Vec<u8>) {
        match self {
            Send::One(op) => (op.notify as u8, 1, vec![size_class(op.len)]),
            Send::Batch { items, timeout_ms } => (2 + timeout_ms.is_some() as u8, items.len(), items.iter().take(12).map(|i| size_class(i.n)).collect()),
            Send::JsonCall(it) => (4, 1, vec![size_class(it.n)]),
        }
    }
    fn describe(&self) -> Value {
        match self {
            Send::One(op) => json!({"api": if op.notify {"notify"} else if op.api == 1 {"call_typed_slice"} else {"call"}, "body": op.len}),
            Send::Batch { items, timeout_ms } => {
                json!({"api": if timeout_ms.is_some() {"batch_json_with_timeout"} else {"batch_json"}, "items": items.len(), "timeout_ms": timeout_ms, "largest_item": items.iter().map(|i| i.n).max()})
            }
            Send::JsonCall(it) => json!({"api": "call_json_with_timeout", "body": it.text_len()}),
        }
    }
}

/// A reply that arrived (whatever the client makes of its body) proves the request frame reached the peer whole.
fn delivered(r: Result<Value, repe::RepeError>) -> Result<(), String> {
    match r {
        Ok(_)
        | Err(repe::RepeError::Json(_))
        | Err(repe::RepeError::Beve(_))
        | Err(repe::RepeError::UnknownEnumValue(_))
        | Err(repe::RepeError::UnexpectedBodyFormat { .. }) => Ok(()),
        Err(e) => Err(e.to_string()),
    }
}

type Outcomes = Vec<(u64, Result<(), String>)>;

fn requests_of(items: &[Item]) -> Vec<(String, Value)> {
    items.iter().map(|it| (path_of(it.token), it.value())).collect()
}

fn zip_results(items: &[Item], rs: Vec<Result<Value, repe::RepeError>>) -> Outcomes {
    let mut rs = rs.into_iter();
    items.iter().map(|it| (it.token, rs.next().map(delivered).unwrap_or_else(|| Err("the batch returned no result for this request".into())))).collect()
}

fn run_send_blocking(c: &repe::Client, s: &Send, call_timeout: Duration) -> Outcomes {
    match s {
        Send::One(op) => vec![(op.token, run_op_blocking(c, op, call_timeout))],
        Send::Batch { items, timeout_ms } => {
            let reqs = requests_of(items);
            let rs = match timeout_ms {
                Some(t) => c.batch_json_with_timeout(reqs, Duration::from_millis(*t)),
                None => c.batch_json(reqs),
            };
            zip_results(items, rs)
        }
        Send::JsonCall(it) => vec![(it.token, delivered(c.call_json_with_timeout(path_of(it.token), &it.value(), call_timeout)))],
    }
}

async fn run_send_async(c: &AClient, s: &Send, call_timeout: Duration) -> Outcomes {
    match s {
        Send::One(op) => vec![(op.token, c.run_op(op, call_timeout).await)],
        Send::Batch { items, timeout_ms } => {
            let reqs = requests_of(items);
            let rs = match (c, timeout_ms) {
                (AClient::Tcp(c), Some(t)) => c.batch_json_with_timeout(reqs, Duration::from_millis(*t)).await,
                (AClient::Tcp(c), None) => c.batch_json(reqs).await,
                (AClient::Ws(c), Some(t)) => c.batch_json_with_timeout(reqs, Duration::from_millis(*t)).await,
                (AClient::Ws(c), None) => c.batch_json(reqs).await,
            };
            zip_results(items, rs)
        }
        Send::JsonCall(it) => {
            let (path, v) = (path_of(it.token), it.value());
            let r = match c {
                AClient::Tcp(c) => c.call_json_with_timeout(path, &v, call_timeout).await,
                AClient::Ws(c) => c.call_json_with_timeout(path, &v, call_timeout).await,
            };
            vec![(it.token, delivered(r))]
        }
    }
}

// ------------------------------------------------------------------------------------------------
// plans

#[derive(Clone, Copy, Debug, PartialEq)]
enum Resume {
    Immediately,
    /// after this many thousandths of the timeout period T (write timeout / caller-side timeout), counted from the stall
    AfterPermille(u64),
    /// only after the interrupted send returned to its caller
    AfterReturn,
}

/// (a blocking write with a send timeout T gives up between T and 2T after the pipe filled: one period for the call that made partial
/// progress, one for the call that made none; so the strata reach well beyond 2T)
const STRATA: [&str; 7] = ["immediately", "within_the_timeout", "after_1_timeout", "after_2_timeouts", "after_3_timeouts", "after_4_or_more_timeouts", "after_the_sender_returned"];

fn resume_of(rng: &mut Rng, stratum: usize) -> Resume {
    match stratum {
        0 => Resume::Immediately,
        1 => Resume::AfterPermille(rng.range(200, 900)),
        2 => Resume::AfterPermille(rng.range(1100, 1900)),
        3 => Resume::AfterPermille(rng.range(2100, 2900)),
        4 => Resume::AfterPermille(rng.range(3100, 3900)),
        5 => Resume::AfterPermille(rng.range(4100, 6500)),
        _ => Resume::AfterReturn,
    }
}

#[derive(Clone, Copy, Debug, PartialEq)]
enum Follow {
    Batch,
    Call,
    Notify,
}

#[derive(Clone, Copy, Debug)]
struct ConnPlan {
    /// the interrupted frame is an item of a batch (else: an ordinary call / notify, and the follower is a batch)
    a_is_batch: bool,
    stratum: usize,
    follow: Follow,
}

/// Every (kind of interrupted send) x (resume stratum) combination in a seeded order; the follower kind cycles. `k` connection
/// histories per scenario run take consecutive entries, so a few runs cover the table (one static run counter per lane entry:
/// every entry belongs to one lane, whose scenarios run sequentially, so the sequence is a function of the seed).
fn plans_for(seed: u64, slot: usize, k: usize, any_follow: bool) -> Vec<ConnPlan> {
    static RUNS: [AtomicU64; 8] = [const { AtomicU64::new(0) }; 8];
    let run = RUNS[slot % 8].fetch_add(1, SeqCst) as usize;
    let mut table: Vec<(bool, usize)> = (0..STRATA.len() * 2).map(|i| (i % 2 == 0, i / 2)).collect();
    Rng::new(seed ^ 0xBA7C_4000 ^ slot as u64).shuffle(&mut table);
    (0..k)
        .map(|j| {
            let i = run * k + j;
            let (a_is_batch, stratum) = table[i % table.len()];
            let follow = if !a_is_batch && !any_follow { Follow::Batch } else { [Follow::Call, Follow::Batch, Follow::Notify][(i / 2) % 3] };
            ConnPlan { a_is_batch, stratum, follow }
        })
        .collect()
}

/// A batch with one item too large for the socket buffers at a chosen position. Returns (items, index of the big item, position class).
fn big_batch(rng: &mut Rng, g: &mut Gen, big_n: usize) -> (Vec<Item>, usize, &'static str) {
    let class = rng.below(6);
    let (n, p, label): (usize, usize, &'static str) = match class {
        0 => (2 + rng.usize_below(5), 0, "first"),
        1 => {
            let n = 3 + rng.usize_below(6);
            (n, 1 + rng.usize_below(n - 2), "middle")
        }
        2 => {
            let n = 2 + rng.usize_below(5);
            (n, n - 1, "last")
        }
        3 => {
            let n = 12 + rng.usize_below(29);
            (n, rng.usize_below(n / 3 + 1), "early_with_more_than_8KiB_of_items_behind")
        }
        4 => {
            let n = 66 + rng.usize_below(65);
            (n, *rng.pick(&[0usize, 1, 30, 62, 63]), "within_first_64_of_a_larger_batch")
        }
        _ => {
            let n = 66 + rng.usize_below(65);
            (n, *rng.pick(&[64usize, 65, n - 2, n - 1]), "beyond_first_64_of_a_larger_batch")
        }
    };
    let items = (0..n)
        .map(|i| {
            let len = if i == p {
                big_n
            } else if class >= 4 {
                rng.usize_below(400)
            } else if class == 3 && rng.chance(1, 3) {
                8000 + rng.usize_below(12_000)
            } else if rng.chance(1, 6) {
                8100 + rng.usize_below(200)
            } else {
                rng.usize_below(3000)
            };
            let mut it = item(g, rng, len);
            if i == p {
                it.shape = rng.below(2) as u8;
            }
            it
        })
        .collect();
    (items, p, label)
}

fn small_batch(rng: &mut Rng, g: &mut Gen, timeout_ms: Option<u64>) -> Send {
    let n = 2 + rng.usize_below(4);
    let items = (0..n).map(|_| { let l = if rng.chance(1, 5) { 8100 + rng.usize_below(12_000) } else { rng.usize_below(2500) }; item(g, rng, l) }).collect();
    Send::Batch { items, timeout_ms }
}

struct History {
    plan: ConnPlan,
    resume: Resume,
    t_ms: u64,
    rcvbuf: usize,
    x: u64,
    warm: Vec<Send>,
    a: Send,
    big_token: u64,
    position: &'static str,
    b: Send,
    /// Some(ms): the follower is issued this long after the stall, while the first send may still be in flight; None: after it returned
    b_in_flight_after_ms: Option<u64>,
    b_same_handle: bool,
    further: Vec<Send>,
    /// true: NO socket write timeout is configured; the interrupted send is a `*_with_timeout` call (raw, typed slice, JSON, batch)
    /// whose timeout is `t_ms`. false: `t_ms` is the configured write timeout (blocking) / the caller-side cancellation delay (async)
    call_timeout_mode: bool,
    /// the peer resumes at the latest this long after the stall (keeps long call timeouts x late strata affordable)
    resume_cap_ms: u64,
}

impl History {
    fn generate(rng: &mut Rng, g: &mut Gen, plan: ConnPlan, t_ms: u64, ws: bool, call_timeout_mode: bool) -> History {
        let rcvbuf = *rng.pick(&[32768usize, 65536, 131072]);
        // the client's own send buffer autotunes up to tcp_wmem max (4 MiB by default): the interrupted payload must exceed it
        let big_n = (10usize << 20) + rng.usize_below(2 << 20);
        // WebSocket peers see whole messages only: they stop reading before the first message of the interrupted send
        let x = if ws { 0 } else { 1 + rng.below(300_000) };
        let mut warm = vec![];
        if rng.chance(1, 4) {
            // a healthy batch larger than any bounded worker pool / window
            let n = 66 + rng.usize_below(40);
            warm.push(Send::Batch { items: (0..n).map(|_| { let l = rng.usize_below(300); item(g, rng, l) }).collect(), timeout_ms: if rng.coin() { Some(20_000) } else { None } });
        } else {
            let t = if rng.coin() { Some(20_000) } else { None };
            warm.push(small_batch(rng, g, t));
        }
        let l = rng.usize_below(9000);
        warm.push(Send::One(g.op(rng.coin(), l)));
        if rng.coin() {
            warm.swap(0, 1);
        }
        let (a, big_token, position) = if plan.a_is_batch {
            let (items, p, label) = big_batch(rng, g, big_n);
            let tk = items[p].token;
            (Send::Batch { items, timeout_ms: Some(if call_timeout_mode { t_ms } else { rng.range(800, 1500) }) }, tk, label)
        } else if call_timeout_mode {
            // the large frame goes out through a raw, a typed-slice or a JSON `*_with_timeout` call
            match rng.below(3) {
                0 => {
                    let it = Item { shape: rng.below(2) as u8, ..item(g, rng, big_n) };
                    let tk = it.token;
                    (Send::JsonCall(it), tk, "call_json_with_timeout")
                }
                k => {
                    let mut op = g.op(false, big_n);
                    op.api = (k == 1) as u8;
                    let tk = op.token;
                    (Send::One(op), tk, if k == 1 { "call_typed_slice_with_timeout" } else { "call_with_formats_and_timeout" })
                }
            }
        } else {
            let mut op = g.op(rng.coin(), big_n);
            if op.notify || !g.typed {
                op.api = 0;
            }
            let tk = op.token;
            (Send::One(op), tk, "ordinary_send")
        };
        let b = match plan.follow {
            Follow::Batch => { let t = rng.range(400, 900); small_batch(rng, g, Some(t)) }
            Follow::Call => { let l = rng.usize_below(2000); Send::One(g.op(false, l)) }
            Follow::Notify => { let l = rng.usize_below(3000); Send::One(g.op(true, l)) }
        };
        let b_in_flight_after_ms = if rng.coin() { Some(rng.below(3 * t_ms)) } else { None };
        let further = vec![small_batch(rng, g, Some(400)), Send::One(g.op(true, rng.usize_below(200))), Send::One(g.op(false, rng.usize_below(2000))), small_batch(rng, g, Some(400))];
        let resume = match (call_timeout_mode, plan.stratum) {
            // the call gives up only after several send() periods: "long after the deadline" reaches further out here
            (true, 5) => Resume::AfterPermille(rng.range(6000, 12_000)),
            _ => resume_of(rng, plan.stratum),
        };
        History { plan, resume, t_ms, rcvbuf, x, warm, a, big_token, position, b, b_in_flight_after_ms, b_same_handle: rng.coin(), further, call_timeout_mode, resume_cap_ms: if call_timeout_mode { 1800 } else { 60_000 } }
    }
    fn book(&self) -> Book {
        let mut book = Book::default();
        self.warm.iter().chain([&self.a, &self.b]).chain(&self.further).for_each(|s| s.add_to(&mut book));
        book
    }
    fn ident(&self) -> u64 {
        hash_of(&(self.plan.a_is_batch, self.plan.stratum, self.plan.follow as u8, self.position, self.a.shape(), self.b.shape(), self.b_in_flight_after_ms.is_some(), self.b_same_handle))
    }
    fn params(&self) -> Value {
        json!({"peer_rcvbuf": self.rcvbuf, "timeout_ms": self.t_ms, "timeout_is": if self.call_timeout_mode {"the call's own timeout (no socket write timeout configured)"} else {"write timeout / caller-side cancellation"}, "interrupted_send": self.a.describe(), "interrupted_frame": self.position, "big_token": format!("{:#x}", self.big_token),
            "peer_stalls_after_bytes_of_interrupted_send": self.x, "peer_resumes": STRATA[self.plan.stratum.min(6)], "resume": format!("{:?}", self.resume),
            "next_send": self.b.describe(), "next_send_issued": match self.b_in_flight_after_ms { Some(ms) => format!("{ms} ms after the stall (first send possibly still in flight)"), None => "after the interrupted send returned".into() },
            "next_send_on": if self.b_same_handle && self.b_in_flight_after_ms.is_none() {"the same handle"} else {"a clone"}, "warmup": self.warm.iter().map(|s| s.describe()).collect::<Vec<_>>(), "further_sends": self.further.len()})
    }
}

/// What one connection history produced (merged into the ScenarioOut by the caller).
#[derive(Default)]
struct ConnRes {
    outcomes: Outcomes,
    further_ok: u64,
    further_err: u64,
    trouble: Vec<String>,
    /// the interrupted item / send was reported as failed or its caller abandoned it
    fault: bool,
    /// the interrupted send had returned to its caller when the peer resumed reading
    returned_before_resume: bool,
    ev: BatchEvidence,
}

impl ConnRes {
    fn note_sent(&mut self, s: &Send) {
        if let Send::Batch { items, .. } = s {
            self.ev.add("batch_calls_issued", 1);
            self.ev.add("batch_items_submitted", items.len() as u64);
            if items.len() > 64 {
                self.ev.add("batches_larger_than_64_items", 1);
            }
        }
    }
    fn must(&self) -> Vec<u64> {
        self.outcomes.iter().filter(|(_, r)| r.is_ok()).map(|(t, _)| *t).collect()
    }
    fn note_history(&mut self, h: &History) {
        for s in h.warm.iter().chain([&h.a, &h.b]).chain(&h.further) {
            self.note_sent(s);
        }
        if h.call_timeout_mode {
            // blocking `*_with_timeout` calls as the sender of the large frame, no socket write timeout
            self.ev.add("call_timeout_histories", 1);
            self.ev.add_owned(format!("call_timeout_large_frame_sent_with_{}", if h.plan.a_is_batch { "batch_json_with_timeout" } else { h.position }), 1);
            self.ev.add_owned(format!("call_timeout_peer_resumes_{}", STRATA[h.plan.stratum.min(6)]), 1);
            self.ev.add_owned(format!("call_timeout_ms_{}", match h.t_ms { 0..=120 => "50_120", 121..=300 => "121_300", 301..=600 => "301_600", _ => "601_2000" }), 1);
            if self.fault {
                self.ev.add("call_timeout_calls_reported_failed", 1);
            }
            if self.returned_before_resume {
                self.ev.add("call_timeout_calls_returned_while_peer_still_stalled", 1);
            } else {
                self.ev.add("call_timeout_calls_still_in_the_call_when_peer_resumed", 1);
            }
            self.ev.add(if h.b_in_flight_after_ms.is_some() { "call_timeout_next_send_from_another_thread_during_the_call" } else if h.b_same_handle { "call_timeout_next_send_from_same_thread_after_the_call" } else { "call_timeout_next_send_from_a_clone_after_the_call" }, 1);
            return;
        }
        self.ev.add("batch_connection_histories", 1);
        if self.fault {
            self.ev.add("histories_with_interruption_in_effect", 1);
            let next = match h.plan.follow {
                Follow::Batch => "batch",
                Follow::Call => "call",
                Follow::Notify => "notify",
            };
            if h.plan.a_is_batch {
                self.ev.add_owned(format!("interrupted_batch_item_position_{}", h.position), 1);
                self.ev.add_owned(format!("interrupted_batch_then_next_send_is_{next}"), 1);
            } else {
                self.ev.add_owned(format!("interrupted_ordinary_send_then_next_send_is_{next}"), 1);
            }
            self.ev.add_owned(format!("interrupted_then_peer_resumes_{}", STRATA[h.plan.stratum.min(6)]), 1);
            if h.b_in_flight_after_ms.is_some() {
                self.ev.add("next_send_issued_while_interrupted_send_in_flight", 1);
            } else {
                self.ev.add("next_send_issued_after_interrupted_send_returned", 1);
            }
        }
    }
}

fn sleep_until(t: Instant) {
    let now = Instant::now();
    if t > now {
        std::thread::sleep(t - now);
    }
}

// ------------------------------------------------------------------------------------------------
// blocking client: histories with a write timeout

fn blocking_history(h: &History, addr: std::net::SocketAddr, ctl: &Arc<Ctl>) -> ConnRes {
    let mut res = ConnRes::default();
    let mut body = || -> Result<(), String> {
        let client = repe::Client::connect(addr).map_err(|e| format!("connect: {e}"))?;
        if !h.call_timeout_mode {
            client.set_write_timeout(Some(Duration::from_millis(h.t_ms))).map_err(|e| format!("set_write_timeout: {e}"))?;
        }
        let a_timeout = if h.call_timeout_mode { Duration::from_millis(h.t_ms) } else { Duration::from_secs(1) };
        for s in &h.warm {
            let rs = run_send_blocking(&client, s, Duration::from_secs(30));
            if let Some((_, Err(e))) = rs.iter().find(|(_, r)| r.is_err()) {
                let e = e.clone();
                res.outcomes.extend(rs);
                return Err(format!("warm-up send failed: {e}"));
            }
            res.outcomes.extend(rs);
        }
        let b0: u64 = h.warm.iter().map(|s| s.bytes()).sum();
        if !wait_until(Duration::from_secs(10), || ctl.bytes.load(SeqCst) == b0) {
            return Err(format!("peer recorded {} bytes after warm-up, expected {b0}", ctl.bytes.load(SeqCst)));
        }
        // the peer stops reading once it holds x bytes of the interrupted send
        ctl.hold_at(b0 + h.x);
        let a_done = Arc::new(AtomicBool::new(false));
        let b_inline = h.b_same_handle && h.b_in_flight_after_ms.is_none();
        let ha = {
            let (c, a, b, a_done) = (client.clone(), h.a.clone(), if b_inline { Some(h.b.clone()) } else { None }, a_done.clone());
            std::thread::spawn(move || {
                let ra = run_send_blocking(&c, &a, a_timeout);
                a_done.store(true, SeqCst);
                let rb = b.map(|b| run_send_blocking(&c, &b, Duration::from_secs(1)));
                (ra, rb)
            })
        };
        if !wait_until(Duration::from_secs(15), || ctl.stalled.load(SeqCst) || a_done.load(SeqCst)) {
            res.trouble.push("peer never reached the stall point inside the interrupted send".into());
        }
        let t_stall = Instant::now();
        let hb = if b_inline {
            None
        } else {
            let (c, b, a_done, after) = (client.clone(), h.b.clone(), a_done.clone(), h.b_in_flight_after_ms);
            Some(std::thread::spawn(move || {
                match after {
                    Some(ms) => sleep_until(t_stall + Duration::from_millis(ms)),
                    None => {
                        wait_until(Duration::from_secs(30), || a_done.load(SeqCst));
                    }
                }
                run_send_blocking(&c, &b, Duration::from_secs(1))
            }))
        };
        match h.resume {
            Resume::Immediately => {}
            Resume::AfterPermille(p) => sleep_until(t_stall + Duration::from_micros(h.t_ms * p).min(Duration::from_millis(h.resume_cap_ms))),
            // (without a write timeout a blocking sender may stay in the write until the peer reads: the peer always resumes)
            Resume::AfterReturn => {
                wait_until(Duration::from_millis((8 * h.t_ms + 3000).min(h.resume_cap_ms + 300)), || a_done.load(SeqCst));
            }
        }
        res.returned_before_resume = a_done.load(SeqCst);
        ctl.release();
        match join_bounded(ha, Duration::from_secs(40)) {
            Some((ra, rb)) => {
                res.fault = ra.iter().any(|(tk, r)| *tk == h.big_token && r.is_err());
                res.outcomes.extend(ra);
                if let Some(rb) = rb {
                    res.outcomes.extend(rb);
                }
            }
            None => return Err("the interrupted send neither completed nor failed in 40 s".into()),
        }
        if let Some(hb) = hb {
            match join_bounded(hb, Duration::from_secs(40)) {
                Some(rb) => res.outcomes.extend(rb),
                None => res.trouble.push("the next send did not return in 40 s".into()),
            }
        }
        // the peer drains everything and the application keeps using the same client
        wait_quiet(ctl, Duration::from_millis(150), Duration::from_secs(15));
        for s in &h.further {
            let rs = run_send_blocking(&client, s, Duration::from_millis(400));
            for (_, r) in &rs {
                if r.is_ok() { res.further_ok += 1 } else { res.further_err += 1 }
            }
            res.outcomes.extend(rs);
        }
        wait_quiet(ctl, Duration::from_millis(100), Duration::from_secs(10));
        drop(client);
        Ok(())
    };
    if let Err(e) = body() {
        res.trouble.push(e);
    }
    ctl.release();
    res.note_history(h);
    res
}

fn assemble(out: &mut ScenarioOut, hs: Vec<History>, parts: Vec<(ConnRes, Record, End, Option<String>)>) {
    let mut ev = BatchEvidence::default();
    let mut any_fault = false;
    let mut idents = vec![];
    let mut params = vec![];
    for (j, (h, (res, record, end, tr))) in hs.into_iter().zip(parts).enumerate() {
        for (_, r) in &res.outcomes {
            out.note_result(r);
        }
        out.further_ok += res.further_ok;
        out.further_err += res.further_err;
        out.trouble.extend(res.trouble.iter().map(|t| format!("conn{j}: {t}")));
        out.trouble.extend(tr.map(|t| format!("conn{j}: {t}")));
        any_fault |= res.fault;
        ev.merge(&res.ev);
        idents.push(h.ident());
        let mut p = h.params();
        p["interruption_took_effect"] = json!(res.fault);
        params.push(p);
        out.conns.push(ConnOut { label: format!("conn{j}"), book: h.book(), must_see: res.must(), record, end, victim: if res.fault { Some(h.big_token) } else { None } });
    }
    out.fault_triggered = Some(any_fault);
    out.ident = hash_of(&idents);
    out.params = json!({ "connections": params });
    out.batch = Some(ev);
}

/// Blocking client with `set_write_timeout`: `K` independent connections, each with its own history (see module text).
pub fn client_batch_history(cx: &Cx, rng: &mut Rng, slot: usize) -> ScenarioOut {
    blocking_histories(cx, rng, slot, false)
}

/// Blocking client WITHOUT any configured write timeout: the large frame is sent by a `*_with_timeout` entry point
/// (call_with_formats_and_timeout, call_typed_slice_with_timeout, call_json_with_timeout, batch_json_with_timeout) whose timeout
/// (50 ms .. 2 s) is shorter than the peer's stall; the peer resumes before the deadline, shortly after it, long after it, or once the
/// call returned (at the latest about 2 s after the stall: such a call may stay in the write until the peer reads); the next send (notify /
/// call / batch) comes from another thread while the first call is still inside, or from the same thread / a clone after it returned;
/// then FURTHER traffic. `K` independent connections run in parallel so the stalls overlap.
pub fn client_call_timeout_history(cx: &Cx, rng: &mut Rng, slot: usize) -> ScenarioOut {
    blocking_histories(cx, rng, slot, true)
}

fn blocking_histories(cx: &Cx, rng: &mut Rng, slot: usize, call_timeout_mode: bool) -> ScenarioOut {
    let mut out = if call_timeout_mode {
        let mut o = ScenarioOut::new("client", "call_timeout", "client.call_timeout.history");
        o.sig_site = Some("");
        o
    } else {
        ScenarioOut::new("client", "write_timeout", "client.write_timeout.batch_history")
    };
    let plans = plans_for(cx.seed, slot, if call_timeout_mode { 5 } else { 4 }, call_timeout_mode);
    let hs: Vec<History> = plans
        .iter()
        .enumerate()
        .map(|(j, p)| {
            let mut r = rng.fork(10 + j as u64);
            let mut g = Gen::new(&mut r);
            let t_ms = if !call_timeout_mode {
                r.range(150, 300)
            } else {
                match r.below(10) {
                    0..=2 => r.range(50, 120),
                    3..=5 => r.range(121, 300),
                    6..=7 => r.range(301, 600),
                    _ => r.range(601, 2000),
                }
            };
            History::generate(&mut r, &mut g, *p, t_ms, false, call_timeout_mode)
        })
        .collect();
    let mut peers = vec![];
    for (j, h) in hs.iter().enumerate() {
        let ctl = Ctl::new();
        match start_client_peer(cx.rt, false, Some(h.rcvbuf), ctl.clone(), rng.fork(100 + j as u64), max_wall(cx)) {
            Ok((addr, peer)) => peers.push((addr, peer, ctl)),
            Err(e) => {
                out.trouble.push(format!("peer listen: {e}"));
                for (_, _, c) in &peers {
                    c.finish_when_quiet(10);
                }
                return out;
            }
        }
    }
    let results: Vec<ConnRes> = std::thread::scope(|s| {
        let hs: Vec<_> = hs.iter().zip(&peers).map(|(h, (addr, _, ctl))| s.spawn(move || blocking_history(h, *addr, ctl))).collect();
        hs.into_iter().map(|h| h.join().unwrap_or_else(|_| { let mut r = ConnRes::default(); r.trouble.push("connection history panicked".into()); r })).collect()
    });
    let parts = results
        .into_iter()
        .zip(peers)
        .map(|(res, (_, peer, ctl))| {
            let (record, end, tr) = peer.finish(cx.rt, &ctl, Duration::from_secs(10), 300);
            (res, record, end, tr)
        })
        .collect();
    assemble(&mut out, hs, parts);
    out
}

// ------------------------------------------------------------------------------------------------
// async TCP client / WebSocket client: histories with a caller abandoning its send

#[derive(Clone, Copy, Debug, PartialEq)]
enum Cancel {
    /// tokio::time::timeout around the send: the future is dropped mid-send
    TimeoutWrapper,
    /// the task running the send is aborted
    Abort,
    /// the batch's own per-request timeout is as short as the cancellation delay and the batch is awaited to its end
    OwnTimeout,
}

async fn sleep_until_async(t: Instant) {
    let now = Instant::now();
    if t > now {
        tokio::time::sleep(t - now).await;
    }
}

async fn async_history(h: Arc<History>, kind: AKind, cancel: Cancel, addr: std::net::SocketAddr, ctl: Arc<Ctl>) -> ConnRes {
    let mut res = ConnRes::default();
    let r: Result<(), String> = async {
        let client = AClient::connect(kind, addr, true).await.map_err(|e| format!("connect: {e}"))?;
        for s in &h.warm {
            let rs = run_send_async(&client, s, Duration::from_secs(30)).await;
            if let Some((_, Err(e))) = rs.iter().find(|(_, r)| r.is_err()) {
                let e = e.clone();
                res.outcomes.extend(rs);
                return Err(format!("warm-up send failed: {e}"));
            }
            res.outcomes.extend(rs);
        }
        let b0: u64 = h.warm.iter().map(|s| s.bytes()).sum();
        if !wait_until_async(Duration::from_secs(10), || ctl.bytes.load(SeqCst) == b0).await {
            return Err(format!("peer recorded {} bytes after warm-up, expected {b0}", ctl.bytes.load(SeqCst)));
        }
        ctl.hold_at(b0 + h.x);
        if h.x == 0 && !wait_until_async(Duration::from_secs(10), || ctl.stalled.load(SeqCst)).await {
            return Err("peer did not acknowledge the stall".into());
        }
        let period = Duration::from_millis(h.t_ms);
        let a_done = Arc::new(AtomicBool::new(false));
        // the interrupted send: Some(outcomes) when it ran to its end, None when its future was dropped
        let ha = {
            let (c, h, a_done) = (client.clone(), h.clone(), a_done.clone());
            tokio::spawn(async move {
                let r = match cancel {
                    Cancel::TimeoutWrapper => tokio::time::timeout(period, run_send_async(&c, &h.a, Duration::from_secs(30))).await.ok(),
                    Cancel::Abort | Cancel::OwnTimeout => Some(run_send_async(&c, &h.a, Duration::from_secs(30)).await),
                };
                a_done.store(true, SeqCst);
                r
            })
        };
        if h.x > 0 && !wait_until_async(Duration::from_secs(15), || ctl.stalled.load(SeqCst) || a_done.load(SeqCst)).await {
            res.trouble.push("peer never reached the stall point inside the interrupted send".into());
        }
        let t_stall = Instant::now();
        let hb = h.b_in_flight_after_ms.map(|ms| {
            let (c, h) = (client.clone(), h.clone());
            tokio::spawn(async move {
                sleep_until_async(t_stall + Duration::from_millis(ms)).await;
                tokio::time::timeout(Duration::from_secs(30), run_send_async(&c, &h.b, Duration::from_secs(1))).await.ok()
            })
        });
        let resumer = {
            let (ctl, a_done, resume, t_ms) = (ctl.clone(), a_done.clone(), h.resume, h.t_ms);
            tokio::spawn(async move {
                match resume {
                    Resume::Immediately => {}
                    Resume::AfterPermille(p) => sleep_until_async(t_stall + Duration::from_micros(t_ms * p)).await,
                    Resume::AfterReturn => {
                        wait_until_async(Duration::from_millis(3 * t_ms + 300), || a_done.load(SeqCst)).await;
                    }
                }
                ctl.release();
            })
        };
        let ra: Option<Outcomes> = if cancel == Cancel::Abort {
            sleep_until_async(t_stall + period).await;
            ha.abort();
            match ha.await {
                Ok(r) => r,
                Err(_) => None,
            }
        } else {
            match tokio::time::timeout(Duration::from_secs(40), ha).await {
                Ok(Ok(r)) => r,
                Ok(Err(e)) => return Err(format!("the interrupted send's task failed: {e}")),
                Err(_) => return Err("the interrupted send neither completed nor was abandoned in 40 s".into()),
            }
        };
        a_done.store(true, SeqCst);
        match ra {
            Some(ra) => {
                res.fault = ra.iter().any(|(tk, r)| *tk == h.big_token && r.is_err());
                res.outcomes.extend(ra);
            }
            None => res.fault = true,
        }
        // the next send
        let rb = match hb {
            Some(hb) => match tokio::time::timeout(Duration::from_secs(40), hb).await {
                Ok(Ok(r)) => r,
                _ => None,
            },
            None => {
                // on the handle the interrupted send was issued from, or on a fresh clone of it
                let fresh = if h.b_same_handle { None } else { Some(client.clone()) };
                tokio::time::timeout(Duration::from_secs(30), run_send_async(fresh.as_ref().unwrap_or(&client), &h.b, Duration::from_secs(1))).await.ok()
            }
        };
        match rb {
            Some(rb) => res.outcomes.extend(rb),
            None => res.trouble.push("the next send did not return in 30 s".into()),
        }
        let _ = tokio::time::timeout(Duration::from_secs(20), resumer).await;
        ctl.release();
        wait_quiet_async(&ctl, Duration::from_millis(150), Duration::from_secs(15)).await;
        // FURTHER traffic on the same client
        for s in &h.further {
            match tokio::time::timeout(Duration::from_secs(10), run_send_async(&client, s, Duration::from_millis(400))).await {
                Ok(rs) => {
                    for (_, r) in &rs {
                        if r.is_ok() { res.further_ok += 1 } else { res.further_err += 1 }
                    }
                    res.outcomes.extend(rs);
                }
                Err(_) => {
                    res.further_err += 1;
                    res.trouble.push("a further send did not return in 10 s".into());
                }
            }
        }
        wait_quiet_async(&ctl, Duration::from_millis(100), Duration::from_secs(10)).await;
        drop(client);
        tokio::task::yield_now().await;
        Ok(())
    }
    .await;
    if let Err(e) = r {
        res.trouble.push(e);
    }
    ctl.release();
    res.note_history(&h);
    if res.fault {
        res.ev.add_owned(format!("interruption_by_{}", match cancel { Cancel::TimeoutWrapper => "timeout_wrapper_dropping_the_send", Cancel::Abort => "task_abort", Cancel::OwnTimeout => "batch_own_timeout" }), 1);
    }
    res
}

/// AsyncClient / WebSocketClient: `K` independent connections, each with its own history (see module text).
pub fn aclient_batch_history(cx: &Cx, rng: &mut Rng, kind: AKind, slot: usize) -> ScenarioOut {
    let ep = ep_name(kind);
    let mut out = ScenarioOut::new(ep, "cancel_mid_send", &format!("{ep}.cancel_mid_send.batch_history"));
    let k = if kind == AKind::Ws { 3 } else { 4 };
    let plans = plans_for(cx.seed, slot, k, false);
    let mut cancels = vec![];
    let hs: Vec<Arc<History>> = plans
        .iter()
        .enumerate()
        .map(|(j, p)| {
            let mut r = rng.fork(10 + j as u64);
            let mut g = Gen::new(&mut r);
            g.typed = kind != AKind::Ws;
            let t_ms = r.range(100, 250);
            let mut h = History::generate(&mut r, &mut g, *p, t_ms, kind == AKind::Ws, false);
            let cancel = if p.a_is_batch { *r.pick(&[Cancel::TimeoutWrapper, Cancel::Abort, Cancel::OwnTimeout]) } else { *r.pick(&[Cancel::TimeoutWrapper, Cancel::Abort]) };
            if let Send::Batch { timeout_ms, .. } = &mut h.a {
                // with and without a per-request timeout; the batch's own timeout as the only interruption is as short as the period
                *timeout_ms = match cancel {
                    Cancel::OwnTimeout => Some(t_ms),
                    _ => if r.coin() { Some(t_ms) } else { None },
                };
            }
            cancels.push(cancel);
            Arc::new(h)
        })
        .collect();
    let mut peers = vec![];
    for (j, h) in hs.iter().enumerate() {
        let ctl = Ctl::new();
        match start_client_peer(cx.rt, kind == AKind::Ws, Some(h.rcvbuf), ctl.clone(), rng.fork(100 + j as u64), max_wall(cx)) {
            Ok((addr, peer)) => peers.push((addr, peer, ctl)),
            Err(e) => {
                out.trouble.push(format!("peer listen: {e}"));
                for (_, _, c) in &peers {
                    c.finish_when_quiet(10);
                }
                return out;
            }
        }
    }
    let results: Vec<ConnRes> = cx.rt.block_on(async {
        let tasks: Vec<_> = hs.iter().zip(&peers).zip(&cancels).map(|((h, (addr, _, ctl)), cancel)| tokio::spawn(async_history(h.clone(), kind, *cancel, *addr, ctl.clone()))).collect();
        let mut v = vec![];
        for t in tasks {
            v.push(match tokio::time::timeout(Duration::from_secs(150), t).await {
                Ok(Ok(r)) => r,
                _ => {
                    let mut r = ConnRes::default();
                    r.trouble.push("connection history did not finish in 150 s".into());
                    r
                }
            });
        }
        v
    });
    let parts = results
        .into_iter()
        .zip(peers)
        .map(|(res, (_, peer, ctl))| {
            ctl.release();
            let (record, end, tr) = peer.finish(cx.rt, &ctl, Duration::from_secs(10), 300);
            (res, record, end, tr)
        })
        .collect();
    let hs: Vec<History> = hs.into_iter().map(|h| Arc::try_unwrap(h).unwrap_or_else(|a| clone_history(&a))).collect();
    assemble(&mut out, hs, parts);
    out.params["interruption"] = json!(cancels.iter().map(|c| format!("{c:?}")).collect::<Vec<_>>());
    out
}

fn clone_history(h: &History) -> History {
    History {
        plan: h.plan,
        resume: h.resume,
        t_ms: h.t_ms,
        rcvbuf: h.rcvbuf,
        x: h.x,
        warm: h.warm.clone(),
        a: h.a.clone(),
        big_token: h.big_token,
        position: h.position,
        b: h.b.clone(),
        b_in_flight_after_ms: h.b_in_flight_after_ms,
        b_same_handle: h.b_same_handle,
        further: h.further.clone(),
        call_timeout_mode: h.call_timeout_mode,
        resume_cap_ms: h.resume_cap_ms,
    }
}

// ------------------------------------------------------------------------------------------------
// concurrent batches and ordinary calls from several clones

fn gen_mixed_writers(rng: &mut Rng, g: &mut Gen, writers: usize, thorough: bool) -> Vec<Vec<Send>> {
    let mut left: usize = if thorough { 48 << 20 } else { 10 << 20 };
    (0..writers)
        .map(|_| {
            let per = 1 + rng.usize_below(4);
            (0..per)
                .map(|_| {
                    if rng.chance(3, 5) {
                        let n = match rng.below(10) {
                            0 => 1,
                            1..=5 => 2 + rng.usize_below(6),
                            6..=7 => 12 + rng.usize_below(30),
                            _ => 65 + rng.usize_below(50),
                        };
                        let items = (0..n)
                            .map(|_| {
                                let qlen = path_of(g.next + 1).len();
                                let mut l = if n > 40 { rng.usize_below(600) } else { pick_len(rng, qlen + 2, &mut left, false).min(1 << 20) };
                                if n > 8 && l > 70_000 {
                                    l = 8100 + rng.usize_below(200);
                                }
                                item(g, rng, l)
                            })
                            .collect();
                        Send::Batch { items, timeout_ms: if rng.coin() { Some(20_000) } else { None } }
                    } else {
                        Send::One(g.sized(rng, &mut left, false))
                    }
                })
                .collect()
        })
        .collect()
}

fn mixed_evidence(ws: &[Vec<Send>]) -> BatchEvidence {
    let mut ev = BatchEvidence::default();
    for s in ws.iter().flatten() {
        if let Send::Batch { items, .. } = s {
            ev.add("batch_calls_issued", 1);
            ev.add("batch_items_submitted", items.len() as u64);
            if items.len() > 64 {
                ev.add("batches_larger_than_64_items", 1);
            }
        }
    }
    let batchers = ws.iter().filter(|w| w.iter().any(|s| matches!(s, Send::Batch { .. }))).count() as u64;
    let ordinary = ws.iter().filter(|w| w.iter().any(|s| matches!(s, Send::One(_)))).count() as u64;
    ev.add("concurrent_scenarios", 1);
    ev.add("concurrent_writers_issuing_batches", batchers);
    ev.add("concurrent_writers_issuing_ordinary_sends", ordinary);
    ev
}

/// Blocking client: 2..10 clones issue batches and ordinary calls/notifies concurrently; optional seeded reader stalls.
pub fn client_batch_concurrent(cx: &Cx, rng: &mut Rng) -> ScenarioOut {
    let stall = rng.coin();
    let mut out = ScenarioOut::new("client", if stall { "stall" } else { "none" }, if stall { "client.stall.batch_concurrent" } else { "client.healthy.batch_concurrent" });
    let mut g = Gen::new(rng);
    let writers = 2 + rng.usize_below(9);
    let ws = gen_mixed_writers(rng, &mut g, writers, cx.thorough);
    let total: u64 = ws.iter().flatten().map(|s| s.bytes()).sum();
    let rcvbuf = rcvbuf_choice(rng, stall);
    let ctl = Ctl::new();
    let plan = if stall { stall_plan(rng, total) } else { vec![] };
    *ctl.plan.lock().unwrap() = plan.clone();
    out.ident = hash_of(&(ws.iter().map(|w| w.iter().map(|s| s.shape()).collect::<Vec<_>>()).collect::<Vec<_>>(), plan.len(), rcvbuf));
    out.params = json!({"writers": writers, "sends": ws.iter().map(|w| w.iter().map(|s| s.describe()).collect::<Vec<_>>()).collect::<Vec<_>>(), "total_bytes": total, "peer_rcvbuf": rcvbuf, "stalls_at_byte_ms": plan});
    out.batch = Some(mixed_evidence(&ws));
    let mut book = Book::default();
    ws.iter().flatten().for_each(|s| s.add_to(&mut book));
    let (addr, peer) = match start_client_peer(cx.rt, false, rcvbuf, ctl.clone(), rng.fork(1), max_wall(cx)) {
        Ok(x) => x,
        Err(e) => {
            out.trouble.push(format!("peer listen: {e}"));
            return out;
        }
    };
    let client = match repe::Client::connect(addr) {
        Ok(c) => c,
        Err(e) => {
            out.trouble.push(format!("connect: {e}"));
            ctl.finish_when_quiet(10);
            return out;
        }
    };
    let hs: Vec<_> = ws
        .iter()
        .cloned()
        .map(|w| {
            let c = client.clone();
            std::thread::spawn(move || w.iter().flat_map(|s| run_send_blocking(&c, s, Duration::from_secs(20))).collect::<Vec<_>>())
        })
        .collect();
    let mut must = vec![];
    for h in hs {
        match join_bounded(h, Duration::from_secs(120)) {
            Some(rs) => {
                for (tk, r) in rs {
                    out.note_result(&r);
                    if r.is_ok() {
                        must.push(tk);
                    }
                }
            }
            None => out.trouble.push("a writer thread did not finish in 120 s".into()),
        }
    }
    drop(client);
    let (record, end, tr) = peer.finish(cx.rt, &ctl, Duration::from_secs(10), 300);
    out.trouble.extend(tr);
    out.conns.push(ConnOut { label: "conn0".into(), book, must_see: must, record, end, victim: None });
    out
}

/// AsyncClient / WebSocketClient: 2..10 tasks issue batches and ordinary calls/notifies concurrently; optional seeded reader stalls.
pub fn aclient_batch_concurrent(cx: &Cx, rng: &mut Rng, kind: AKind) -> ScenarioOut {
    let ep = ep_name(kind);
    let stall = rng.coin();
    let mut out = ScenarioOut::new(ep, if stall { "stall" } else { "none" }, &format!("{ep}.{}.batch_concurrent", if stall { "stall" } else { "healthy" }));
    let mut g = Gen::new(rng);
    g.typed = kind != AKind::Ws;
    let writers = 2 + rng.usize_below(9);
    let ws = gen_mixed_writers(rng, &mut g, writers, cx.thorough);
    let total: u64 = ws.iter().flatten().map(|s| s.bytes()).sum();
    let rcvbuf = rcvbuf_choice(rng, stall);
    let ctl = Ctl::new();
    let plan = if stall { stall_plan(rng, total) } else { vec![] };
    *ctl.plan.lock().unwrap() = plan.clone();
    out.ident = hash_of(&(ws.iter().map(|w| w.iter().map(|s| s.shape()).collect::<Vec<_>>()).collect::<Vec<_>>(), plan.len(), rcvbuf));
    out.params = json!({"writers": writers, "sends": ws.iter().map(|w| w.iter().map(|s| s.describe()).collect::<Vec<_>>()).collect::<Vec<_>>(), "total_bytes": total, "peer_rcvbuf": rcvbuf, "stalls_at_byte_ms": plan});
    out.batch = Some(mixed_evidence(&ws));
    let mut book = Book::default();
    ws.iter().flatten().for_each(|s| s.add_to(&mut book));
    let (addr, peer) = match start_client_peer(cx.rt, kind == AKind::Ws, rcvbuf, ctl.clone(), rng.fork(1), max_wall(cx)) {
        Ok(x) => x,
        Err(e) => {
            out.trouble.push(format!("peer listen: {e}"));
            return out;
        }
    };
    let mut must = vec![];
    let res: Result<(), String> = cx.rt.block_on(async {
        let client = AClient::connect(kind, addr, true).await.map_err(|e| format!("connect: {e}"))?;
        let hs: Vec<_> = ws
            .iter()
            .cloned()
            .map(|w| {
                let c = client.clone();
                tokio::spawn(async move {
                    let mut v = vec![];
                    for s in &w {
                        v.extend(run_send_async(&c, s, Duration::from_secs(20)).await);
                    }
                    v
                })
            })
            .collect();
        for h in hs {
            match tokio::time::timeout(Duration::from_secs(120), h).await {
                Ok(Ok(rs)) => {
                    for (tk, r) in rs {
                        out.note_result(&r);
                        if r.is_ok() {
                            must.push(tk);
                        }
                    }
                }
                Ok(Err(e)) => out.trouble.push(format!("writer task failed: {e}")),
                Err(_) => out.trouble.push("a writer task did not finish in 120 s".into()),
            }
        }
        drop(client);
        tokio::task::yield_now().await;
        Ok(())
    });
    if let Err(e) = res {
        out.trouble.push(e);
    }
    let (record, end, tr) = peer.finish(cx.rt, &ctl, Duration::from_secs(10), 300);
    out.trouble.extend(tr);
    out.conns.push(ConnOut { label: "conn0".into(), book, must_see: must, record, end, victim: None });
    out
}
