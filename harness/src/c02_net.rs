//! C02, stage "net": the same hostile headers over real sockets.
//! Server side: a raw peer sends each hostile header (plus a few bytes) to Server, AsyncServer and, inside
//! a binary WebSocket message, to WebSocketServer. Client side: a fake server answers a real call of
//! Client, AsyncClient and WebSocketClient with the hostile bytes. Monitor: the process stays alive (the
//! workload runs in a child that announces each case; a death is attributed to the announced case), no
//! thread panics (panic hook), the affected call returns an error instead of hanging, and a fresh
//! connection is served / a fresh client works afterwards.

use crate::common::*;
use crate::oracle::{self, SpecHeader};
use futures_util::{SinkExt, StreamExt};
use repe::{AsyncClient, AsyncServer, Client, ErrorCode, Router, Server, WebSocketClient, WebSocketServer};
use serde_json::json;
use std::io::{Read, Write};
use std::net::{TcpListener, TcpStream};
use std::time::Duration;
use tokio_tungstenite::tungstenite::Message as WsMsg;

const TARGETS: [&str; 6] = ["server", "async_server", "ws_server", "client", "async_client", "ws_client"];

/// (label, header) — the hostile header kinds.
fn hostile(i: u64, rng: &mut Rng) -> (&'static str, SpecHeader) {
    let mut h = SpecHeader { spec: oracle::SPEC, version: 1, id: 1, query_format: 1, ..Default::default() };
    let label = match i % 9 {
        0 => {
            h.spec = rng.boundary_u16();
            if h.spec == oracle::SPEC {
                h.spec = 0;
            }
            h.length = 48;
            "bad-magic"
        }
        1 => {
            h.query_length = 4;
            h.body_length = 4;
            h.length = 48 + 9;
            "length-mismatch"
        }
        2 => {
            h.query_length = u64::MAX;
            h.body_length = 1;
            h.length = 48;
            "wrapping-sum"
        }
        3 => {
            h.query_length = u64::MAX - 47;
            h.body_length = 0;
            h.length = 0;
            "wrapping-sum-zero"
        }
        4 => {
            h.query_length = (1 << 62) - 48;
            h.body_length = 0;
            h.length = 1 << 62;
            "declares-2^62"
        }
        5 => {
            h.query_length = 3;
            h.body_length = (1 << 63) - 51;
            h.length = 1 << 63;
            "declares-2^63"
        }
        6 => {
            h.query_length = 1 << 61;
            h.body_length = 1 << 61;
            h.length = 48 + (1 << 62);
            "declares-2^62-split"
        }
        7 => {
            h.query_length = 1 << 63;
            h.body_length = 1 << 63;
            h.length = 48;
            "wrapping-sum-2x2^63"
        }
        _ => {
            h.query_length = rng.boundary_u64();
            h.body_length = rng.boundary_u64();
            h.length = rng.boundary_u64();
            if h.consistent() && h.length <= (16 << 20) {
                h.length ^= 1;
            }
            if h.consistent() && h.length < (1 << 62) {
                h.query_length = (1 << 62) - 48;
                h.body_length = 0;
                h.length = 1 << 62;
            }
            "random-lengths"
        }
    };
    (label, h)
}

fn ping_router() -> Router {
    Router::new().with_json("/ping", |v| Ok(json!({"pong": v})))
}

fn ping_frame(id: u64) -> Vec<u8> {
    oracle::frame(SpecHeader { spec: oracle::SPEC, version: 1, id, query_format: 1, body_format: 2, ..Default::default() }, b"/ping", b"7")
}

fn raw_ping(addr: std::net::SocketAddr) -> Result<(), String> {
    let mut s = TcpStream::connect(addr).map_err(|e| e.to_string())?;
    s.set_read_timeout(Some(Duration::from_secs(8))).ok();
    s.write_all(&ping_frame(77)).map_err(|e| e.to_string())?;
    let mut buf = vec![0u8; 48];
    s.read_exact(&mut buf).map_err(|e| format!("no response header: {e}"))?;
    let h = SpecHeader::decode(&buf);
    if !h.consistent() || h.id != 77 || h.ec != 0 {
        return Err(format!("bad ping response header {h:?}"));
    }
    Ok(())
}

pub fn worker(args: &Args) {
    let start: u64 = args.extra.first().and_then(|s| s.parse().ok()).unwrap_or(0);
    let n: u64 = args.extra.get(1).and_then(|s| s.parse().ok()).unwrap_or(0);
    let rt = tokio::runtime::Builder::new_multi_thread().worker_threads(4).enable_all().build().unwrap();
    // servers under test
    let srv = Server::new(ping_router());
    let l = srv.listen("127.0.0.1:0").unwrap();
    let addr_s = l.local_addr().unwrap();
    std::thread::spawn(move || {
        let _ = srv.serve(l);
    });
    let (addr_a, addr_w) = rt.block_on(async {
        let la = AsyncServer::listen("127.0.0.1:0").await.unwrap();
        let aa = la.local_addr().unwrap();
        let asrv = AsyncServer::new(ping_router());
        tokio::spawn(async move {
            let _ = asrv.serve(la).await;
        });
        let lw = WebSocketServer::listen("127.0.0.1:0").await.unwrap();
        let aw = lw.local_addr().unwrap();
        let ws = WebSocketServer::new(ping_router()).on_error(|_| {});
        tokio::spawn(async move {
            let _ = ws.serve_listener(lw, "/ws").await;
        });
        (aa, aw)
    });
    let out = std::io::stdout();
    let say = |s: String| {
        let mut o = out.lock();
        writeln!(o, "{s}").unwrap();
        o.flush().unwrap();
    };
    // silence the servers' own stderr chatter about closed connections
    unsafe {
        let devnull = libc::open(c"/dev/null".as_ptr(), libc::O_WRONLY);
        if devnull >= 0 {
            libc::dup2(devnull, 2);
        }
    }
    for i in start..n {
        let mut rng = Rng::new(args.seed ^ i.wrapping_mul(0x9E37));
        let (_label, h) = hostile(i, &mut rng);
        let target = TARGETS[(i / 9 % 6) as usize];
        say(format!("CASE {i}"));
        let _ = take_last_panic();
        let mut bytes = h.encode().to_vec();
        bytes.extend_from_slice(&[0xAB; 24]);
        let res: Result<String, String> = match target {
            "server" | "async_server" => {
                let addr = if target == "server" { addr_s } else { addr_a };
                (|| {
                    let mut s = TcpStream::connect(addr).map_err(|e| format!("connect: {e}"))?;
                    s.set_read_timeout(Some(Duration::from_secs(8))).ok();
                    s.write_all(&bytes).map_err(|e| e.to_string())?;
                    let _ = s.shutdown(std::net::Shutdown::Write);
                    let mut got = vec![];
                    let ended = match s.read_to_end(&mut got) {
                        Ok(_) => "eof",
                        Err(e) if e.kind() == std::io::ErrorKind::WouldBlock || e.kind() == std::io::ErrorKind::TimedOut => return Err("HANG connection neither answered nor closed within 8 s".into()),
                        Err(_) => "reset",
                    };
                    // whatever came back must be whole frames (an error response is fine)
                    let (_, tail) = oracle::parse_stream(&got);
                    if !matches!(tail, oracle::StreamTail::Clean) {
                        return Err(format!("server answered with bytes that are not whole frames: {}", hex_trunc(&got, 64)));
                    }
                    raw_ping(addr).map_err(|e| format!("fresh connection not served afterwards: {e}"))?;
                    Ok(ended.to_string())
                })()
            }
            "ws_server" => rt.block_on(async {
                let url = format!("ws://{addr_w}/ws");
                let (mut ws, _) = tokio_tungstenite::connect_async(&url).await.map_err(|e| format!("connect: {e}"))?;
                ws.send(WsMsg::Binary(bytes.clone())).await.map_err(|e| e.to_string())?;
                // the server may answer with an error frame and/or close; it must not hang silently forever
                let mut ended = "open-after-reply";
                let mut replies = 0;
                loop {
                    match tokio::time::timeout(Duration::from_secs(8), ws.next()).await {
                        Ok(Some(Ok(WsMsg::Binary(b)))) => {
                            if oracle::valid_parse(&b, true).is_none() {
                                return Err(format!("ws server sent a binary message that is not one frame: {}", hex_trunc(&b, 48)));
                            }
                            replies += 1;
                            if replies > 2 {
                                break;
                            }
                        }
                        Ok(Some(Ok(WsMsg::Close(_)))) | Ok(None) => {
                            ended = "closed";
                            break;
                        }
                        Ok(Some(Ok(_))) => {}
                        Ok(Some(Err(_))) => {
                            ended = "reset";
                            break;
                        }
                        Err(_) => {
                            if replies == 0 {
                                return Err("HANG ws server neither answered nor closed within 8 s".into());
                            }
                            break;
                        }
                    }
                }
                // fresh connection served
                let c = WebSocketClient::connect(&url).await.map_err(|e| format!("fresh ws connect: {e}"))?;
                let v = tokio::time::timeout(Duration::from_secs(8), c.call_json("/ping", &json!(7))).await.map_err(|_| "fresh ws call hung".to_string())?.map_err(|e| format!("fresh ws connection not served: {e}"))?;
                if v != json!({"pong": 7}) {
                    return Err(format!("fresh ws call returned {v}"));
                }
                Ok(ended.to_string())
            }),
            "client" => (|| {
                let l = TcpListener::bind("127.0.0.1:0").map_err(|e| e.to_string())?;
                let addr = l.local_addr().unwrap();
                let b2 = bytes.clone();
                let th = std::thread::spawn(move || {
                    if let Ok((mut s, _)) = l.accept() {
                        s.set_read_timeout(Some(Duration::from_secs(5))).ok();
                        let mut hdr = [0u8; 48];
                        let _ = s.read_exact(&mut hdr);
                        let _ = s.write_all(&b2);
                        let mut sink = [0u8; 4096];
                        let _ = s.read(&mut sink); // hold the socket open until the client closes or 5 s
                    }
                });
                let c = Client::connect(addr).map_err(|e| e.to_string())?;
                let t0 = std::time::Instant::now();
                let r = c.call_json_with_timeout("/x", &json!(1), Duration::from_secs(10));
                let r2 = c.call_json_with_timeout("/x", &json!(2), Duration::from_secs(10));
                drop(c);
                let _ = th.join();
                match (r, r2) {
                    (Err(e1), Err(_)) => {
                        if t0.elapsed() > Duration::from_secs(9) {
                            Err(format!("HANG call only ended by its 10 s timeout: {e1}"))
                        } else {
                            Ok(format!("err:{}", trunc(&e1.to_string(), 40)))
                        }
                    }
                    (a, b) => Err(format!("a call on a connection that delivered a hostile header returned Ok: {a:?} / {b:?}")),
                }
            })(),
            "async_client" => rt.block_on(async {
                let l = tokio::net::TcpListener::bind("127.0.0.1:0").await.map_err(|e| e.to_string())?;
                let addr = l.local_addr().unwrap();
                let b2 = bytes.clone();
                let th = tokio::spawn(async move {
                    use tokio::io::{AsyncReadExt, AsyncWriteExt};
                    if let Ok((mut s, _)) = l.accept().await {
                        let mut hdr = [0u8; 48];
                        let _ = tokio::time::timeout(Duration::from_secs(5), s.read_exact(&mut hdr)).await;
                        let _ = s.write_all(&b2).await;
                        let mut sink = [0u8; 4096];
                        let _ = tokio::time::timeout(Duration::from_secs(5), s.read(&mut sink)).await;
                    }
                });
                let c = AsyncClient::connect(addr).await.map_err(|e| e.to_string())?;
                let t0 = std::time::Instant::now();
                let r = c.call_json_with_timeout("/x", &json!(1), Duration::from_secs(10)).await;
                let r2 = c.call_json_with_timeout("/x", &json!(2), Duration::from_secs(10)).await;
                drop(c);
                let _ = th.await;
                match (r, r2) {
                    (Err(e1), Err(_)) => {
                        if t0.elapsed() > Duration::from_secs(9) {
                            Err(format!("HANG call only ended by its 10 s timeout: {e1}"))
                        } else {
                            Ok(format!("err:{}", trunc(&e1.to_string(), 40)))
                        }
                    }
                    (a, b) => Err(format!("a call on a connection that delivered a hostile header returned Ok: {a:?} / {b:?}")),
                }
            }),
            _ => rt.block_on(async {
                let l = tokio::net::TcpListener::bind("127.0.0.1:0").await.map_err(|e| e.to_string())?;
                let addr = l.local_addr().unwrap();
                let b2 = bytes.clone();
                let th = tokio::spawn(async move {
                    if let Ok((s, _)) = l.accept().await {
                        if let Ok(mut ws) = tokio_tungstenite::accept_async(s).await {
                            let _ = tokio::time::timeout(Duration::from_secs(5), ws.next()).await;
                            let _ = ws.send(WsMsg::Binary(b2)).await;
                            let _ = tokio::time::timeout(Duration::from_secs(5), ws.next()).await;
                        }
                    }
                });
                let c = WebSocketClient::connect(&format!("ws://{addr}/")).await.map_err(|e| e.to_string())?;
                let t0 = std::time::Instant::now();
                let r = c.call_json_with_timeout("/x", &json!(1), Duration::from_secs(10)).await;
                let r2 = c.call_json_with_timeout("/x", &json!(2), Duration::from_secs(10)).await;
                drop(c);
                let _ = th.await;
                match (r, r2) {
                    (Err(e1), Err(_)) => {
                        if t0.elapsed() > Duration::from_secs(9) {
                            Err(format!("HANG call only ended by its 10 s timeout: {e1}"))
                        } else {
                            Ok(format!("err:{}", trunc(&e1.to_string(), 40)))
                        }
                    }
                    (a, b) => Err(format!("a call on a connection that delivered a hostile header returned Ok: {a:?} / {b:?}")),
                }
            }),
        };
        // give a panicking background thread a moment to record itself
        let panicked = take_last_panic();
        match (res, panicked) {
            (_, Some(p)) => say(format!("RES {i} panic {p}")),
            (Ok(how), None) => say(format!("RES {i} ok {how}")),
            (Err(e), None) => say(format!("RES {i} bad {e}")),
        }
    }
    let _ = ErrorCode::Ok;
}

pub fn parent(args: &Args) -> Report {
    let mut rep = Report::new(
        args,
        "c02-net",
        "9 hostile header kinds (bad magic, length mismatch, wrapping sums, declared sizes >= 2^62, random 64-bit lengths) x 6 \
         endpoints (Server, AsyncServer, WebSocketServer as receivers; Client, AsyncClient, WebSocketClient fed by a fake server) \
         in a child process announcing each case; distinct = (header kind, endpoint, how the connection ended)",
    );
    let n = args.budget(108, 1620);
    let exe = std::env::current_exe().unwrap();
    let mut start = 0u64;
    let mut restarts = 0;
    let case_info = |i: u64| {
        let mut rng = Rng::new(args.seed ^ i.wrapping_mul(0x9E37));
        let (label, h) = hostile(i, &mut rng);
        (label, h, TARGETS[(i / 9 % 6) as usize])
    };
    while start < n && restarts < 12 {
        let child = std::process::Command::new(&exe)
            .args(["c02", "--stage", "net-worker", "--seed", &args.seed.to_string(), &start.to_string(), &n.to_string()])
            .output();
        let out = match child {
            Ok(o) => o,
            Err(e) => {
                rep.inconclusive(format!("cannot spawn child: {e}"));
                break;
            }
        };
        let text = String::from_utf8_lossy(&out.stdout);
        let mut last_case = None;
        let mut finished = None;
        for l in text.lines() {
            if let Some(x) = l.strip_prefix("CASE ") {
                last_case = x.trim().parse::<u64>().ok();
            } else if let Some(x) = l.strip_prefix("RES ") {
                let mut it = x.splitn(3, ' ');
                let i: u64 = it.next().and_then(|s| s.parse().ok()).unwrap_or(0);
                let kind = it.next().unwrap_or("");
                let rest = it.next().unwrap_or("");
                finished = Some(i);
                let (label, h, target) = case_info(i);
                rep.eval();
                rep.distinct(&(label, target, kind, rest.split(':').next().unwrap_or("")));
                rep.count(&format!("{target}.{kind}"), 1);
                let desc = json!({"endpoint": target, "header_kind": label, "header_hex": hex(&h.encode()), "case": i});
                if i < 3 {
                    rep.sample(json!({"endpoint": target, "header_kind": label, "outcome": format!("{kind} {rest}")}));
                }
                match kind {
                    "ok" => {}
                    "panic" => rep.violation(format!("C02:net:panic:{target}:{}", panic_site(rest)), format!("{target} given a {label} header: a thread panicked: {rest}"), desc),
                    _ if rest.starts_with("HANG") => rep.violation(format!("C02:net:hang:{target}:{label}"), format!("{target} given a {label} header: {rest}"), desc),
                    _ if rest.starts_with("connect") || rest.starts_with("fresh ws connect") => rep.inconclusive(format!("{target}: {rest}")),
                    _ => rep.violation(format!("C02:net:{target}:{label}"), format!("{target} given a {label} header ({h:?}): {rest}"), desc),
                }
            }
        }
        if out.status.success() {
            break;
        }
        match (last_case, finished) {
            (Some(c), f) if f.map(|f| f < c).unwrap_or(true) => {
                let (label, h, target) = case_info(c);
                rep.eval();
                rep.violation(
                    format!("C02:net:abort:{target}:{label}"),
                    format!("process died ({:?}) while {target} handled a {label} header {h:?}", out.status),
                    json!({"endpoint": target, "header_kind": label, "header_hex": hex(&h.encode()), "case": c}),
                );
                start = c + 1;
                restarts += 1;
            }
            _ => {
                rep.inconclusive(format!("child exited {:?} outside any case", out.status));
                break;
            }
        }
    }
    rep
}
