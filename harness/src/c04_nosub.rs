// C04 family `no-subscriber`: server pushes (notify != 0) while the client has NO live notify subscriber.
//
// The families that came first always attach a subscriber to the WebSocket client before anything is pushed, so the
// reader's "nobody is subscribed" branch never decided anything. Here the same scripted fake server (`serve`) and
// the same offline oracle (`judge`) are used, but the `WebSocketClient` is in one of three states:
//
// * `never-subscribed`  — `subscribe_notifies` was never called on this connection,
// * `unsubscribed`      — subscribed, then `unsubscribe_notifies()` (the old receiver kept alive or dropped),
// * `receiver-dropped`  — subscribed, then the receiver dropped (the slot holds a stale sender until a push finds out),
//
// and several calls are in flight while the server pushes frames carrying in-flight ids, id 0, ids nobody issued and
// ids of calls already answered, BEFORE the real responses. A push must be dropped: every call returns its own
// response (own token, own id, notify flag 0), an unsubscribed receiver sees nothing.
//
// The blocking `Client` and the `AsyncClient` (state `no-subscriber-api`) get the same scripts. They have no
// subscriber API, so a pushed frame goes to nobody: the statement of C04 names all three clients, and a frame with the
// notify flag set is a notification, not "the response whose id equals its own request's id" — every call returns its
// own response, whatever id a push carried.

use super::*;

/// Put the WebSocket client of `conn` into the subscriber state the scenario asks for.
pub(super) fn prepare_sub(conn: &mut Conn, sub: Sub) -> Result<(), String> {
    let Cli::W(c) = &conn.cli else { return Ok(()) };
    match sub {
        Sub::Default | Sub::NoApi | Sub::Never => Ok(()),
        Sub::Unsubscribed(keep) => {
            conn.sub = None;
            let rx = c.subscribe_notifies().map_err(|_| "subscribe_notifies refused although no live subscriber exists".to_string())?;
            c.unsubscribe_notifies();
            conn.sub = if keep { Some(rx) } else { None };
            Ok(())
        }
        Sub::ReceiverDropped => {
            conn.sub = None;
            let rx = c.subscribe_notifies().map_err(|_| "subscribe_notifies refused although no live subscriber exists".to_string())?;
            drop(rx);
            Ok(())
        }
    }
}

/// Several calls in flight; pushes with in-flight ids (sometimes twice for one id), id 0, unknown ids and completed
/// ids are put in front of / between the real responses.
pub(super) fn nosub_scn(index: u64, kind: Kind, sub: Sub, rng: &mut Rng) -> Scn {
    let mode = if rng.chance(1, 5) { Mode::Batch } else { Mode::Calls };
    let mut n = match rng.below(8) {
        0..=4 => 2 + rng.usize_below(7),
        5 | 6 => 9 + rng.usize_below(16),
        _ => 1,
    };
    if kind == Kind::B && mode == Mode::Batch {
        n = n.min(blocking_batch_cap());
    }
    let apis: Vec<Api> = (0..n)
        .map(|_| match mode {
            Mode::Batch => Api::JsonT,
            Mode::Calls => *rng.pick(&[Api::Json, Api::JsonT, Api::Msg, Api::Msg]),
        })
        .collect();
    let mut order: Vec<usize> = (0..n).collect();
    rng.shuffle(&mut order);
    let mut steps: Vec<Step> = order.iter().map(|s| Step::Resp(*s)).collect();
    let pos_of = |steps: &Vec<Step>, s: usize| steps.iter().position(|x| *x == Step::Resp(s)).unwrap_or(0);
    // pushes reusing in-flight ids: for at least one call, for up to all of them, always BEFORE that call's response
    let mut targets: Vec<usize> = (0..n).collect();
    rng.shuffle(&mut targets);
    let n_inflight = 1 + rng.usize_below(n);
    let all_first = rng.chance(1, 3);
    for s in targets.into_iter().take(n_inflight) {
        let twice = rng.chance(1, 4);
        for _ in 0..(1 + twice as usize) {
            let p = pos_of(&steps, s);
            let at = if all_first { 0 } else { rng.usize_below(p + 1) };
            steps.insert(at, Step::Notify(Some(s)));
        }
    }
    // pushes that nobody waits for
    for _ in 0..rng.usize_below(4) {
        let at = rng.usize_below(steps.len() + 1);
        let st = match rng.below(3) {
            0 => Step::NotifyZero,
            1 => Step::Notify(None),
            _ => {
                // id of a call of this scenario that has its response already
                let s = rng.usize_below(n);
                let p = pos_of(&steps, s);
                let at = p + 1 + rng.usize_below(steps.len() - p);
                steps.insert(at, Step::Notify(Some(s)));
                continue;
            }
        };
        steps.insert(at, st);
    }
    if rng.chance(1, 2) {
        steps.insert(0, if rng.coin() { Step::NotifyZero } else { Step::Notify(None) });
    }
    // a few of the extras the other families use (never notify frames: kind B keeps add_extras away from them)
    if rng.chance(1, 3) {
        let slots: Vec<usize> = (0..n).collect();
        let k = 1 + rng.usize_below(3);
        add_extras(&mut steps, Kind::B, &slots, k, rng);
    }
    Scn { family: "no-subscriber", index, kind, mode, n, eager: rng.chance(1, 4), arrival: None, steps, apis, wmode: rng.below(3) as u8, salt: rng.next_u64(), delays: rng.chance(2, 3), sub }
}

/// The family: every no-subscriber state of the WebSocket client, interleaved so that the states alternate on the
/// shared connection of class 2 (unsubscribed <-> receiver-dropped), plus the TCP clients.
pub(super) fn run_family(st: &mut Stage, args: &Args, index: &mut u64) {
    let mut r = Rng::new(args.seed ^ 0x0005_0B5C_21BE);
    let rounds = args.budget(36, 600);
    'outer: for round in 0..rounds {
        let mut plan: Vec<(Kind, Sub)> = vec![
            (Kind::W, Sub::Never),
            (Kind::W, Sub::Unsubscribed(r.coin())),
            (Kind::W, Sub::ReceiverDropped),
        ];
        if round % 3 == 0 {
            plan.push((Kind::A, Sub::NoApi));
            plan.push((Kind::B, Sub::NoApi));
        }
        r.shuffle(&mut plan);
        for (kind, sub) in plan {
            *index += 1;
            let scn = nosub_scn(*index, kind, sub, &mut r);
            if !st.exec(&scn) {
                break 'outer;
            }
        }
    }
}
